pub mod dflk {
                #![allow(warnings, clippy::all)]

                    pub mod dfl {
                        #[derive(PartialOrd)]
#[derive(Hash, Eq, Ord)]
#[derive(Debug)]
#[derive(Default)]#[derive(Clone, PartialEq, Copy)]
            #[repr(transparent)]
            pub struct E1(i32);

            impl E1 {
                pub const A: Self = Self(1);pub const B: Self = Self(5);pub const C: Self = Self(300);

                pub fn inner(&self) -> i32 {
                    self.0
                }

                pub fn to_string(&self) -> ::std::string::String {
                    match self {
                        Self(1) => ::std::string::String::from("A"),Self(5) => ::std::string::String::from("B"),Self(300) => ::std::string::String::from("C"),
                        Self(val) => val.to_string(),
                    }
                }
            }

            impl ::std::convert::From<i32> for E1 {
                fn from(value: i32) -> Self {
                    Self(value)
                }
            }

            impl ::std::convert::From<E1> for i32 {
                fn from(value: E1) -> i32 {
                    value.0
                }
            }


            impl ::pilota::thrift::Message for E1 {
                fn encode<T: ::pilota::thrift::TOutputProtocol>(
                    &self,
                    __protocol: &mut T,
                ) -> ::std::result::Result<(),::pilota::thrift::ThriftException> {
                    #[allow(unused_imports)]
                    use ::pilota::thrift::TOutputProtocolExt;
                    __protocol.write_i32(self.inner())?;
                    ::std::result::Result::Ok(())

                }

                fn decode<T: ::pilota::thrift::TInputProtocol>(
                    __protocol: &mut T,
                ) -> ::std::result::Result<Self,::pilota::thrift::ThriftException>  {
                    #[allow(unused_imports)]
                    use ::pilota::{thrift::TLengthProtocolExt, Buf};
                    let value = __protocol.read_i32()?;
                        ::std::result::Result::Ok(::std::convert::TryFrom::try_from(value).map_err(|err|
                            ::pilota::thrift::new_protocol_exception(
                                ::pilota::thrift::ProtocolExceptionKind::InvalidData,
                                format!("invalid enum value for E1, value: {}", value)
                            ))?)
                }

                fn decode_async<'a, T: ::pilota::thrift::TAsyncInputProtocol>(
            __protocol: &'a mut T,
        ) -> ::std::pin::Pin<::std::boxed::Box<dyn ::std::future::Future<Output = ::std::result::Result<Self, ::pilota::thrift::ThriftException>> + Send + 'a>> {
            ::std::boxed::Box::pin(async move {
                let value = __protocol.read_i32().await?;
                        ::std::result::Result::Ok(::std::convert::TryFrom::try_from(value).map_err(|err|
                            ::pilota::thrift::new_protocol_exception(
                                ::pilota::thrift::ProtocolExceptionKind::InvalidData,
                                format!("invalid enum value for E1, value: {}", value)
                            ))?)
            })
        }

                fn size<T: ::pilota::thrift::TLengthProtocol>(&self, __protocol: &mut T) -> usize {
                    #[allow(unused_imports)]
                    use ::pilota::thrift::TLengthProtocolExt;
                    __protocol.i32_len(self.inner())
                }
            }
                                impl ::std::default::Default for Df33 {
                                    fn default() -> Self {
                                        Df33 {
                                            d1: Some(::pilota::Bytes::from_static("".as_bytes())),
plain: ::std::default::Default::default(),
d2: Some(E1::B),
d3: Some(E1::C),
_unknown_fields: ::pilota::LinkedBytes::new()
                                        }
                                    }
                                }
                            #[derive(PartialOrd)]
#[derive(Hash, Eq, Ord)]
#[derive(Debug)]#[derive(Clone, PartialEq)]
                pub struct Df33 {

                        pub d1: ::std::option::Option<::pilota::Bytes>,

                        pub plain: ::std::option::Option<i32>,

                        pub d2: ::std::option::Option<E1>,

                        pub d3: ::std::option::Option<E1>,pub _unknown_fields: ::pilota::LinkedBytes,
                }
            impl ::pilota::thrift::Message for Df33 {
                fn encode<T: ::pilota::thrift::TOutputProtocol>(
                    &self,
                    __protocol: &mut T,
                ) -> ::std::result::Result<(),::pilota::thrift::ThriftException> {
                    #[allow(unused_imports)]
                    use ::pilota::thrift::TOutputProtocolExt;
                    let struct_ident =::pilota::thrift::TStructIdentifier {
                    name: "Df33",
                };

                __protocol.write_struct_begin(&struct_ident)?;
                if let Some(value) = self.d1.as_ref() {
                        __protocol.write_bytes_field(1, (value).clone())?;
                    }if let Some(value) = self.plain.as_ref() {
                        __protocol.write_i32_field(1034, *value)?;
                    }if let Some(value) = self.d2.as_ref() {
                        __protocol.write_i32_field(2, (value).inner())?;
                    }if let Some(value) = self.d3.as_ref() {
                        __protocol.write_i32_field(32767, (value).inner())?;
                    }for bytes in self._unknown_fields.list.iter() {
                                __protocol.write_bytes_without_len(bytes.clone());
                            }
                __protocol.write_field_stop()?;
                __protocol.write_struct_end()?;
                ::std::result::Result::Ok(())

                }

                fn decode<T: ::pilota::thrift::TInputProtocol>(
                    __protocol: &mut T,
                ) -> ::std::result::Result<Self,::pilota::thrift::ThriftException>  {
                    #[allow(unused_imports)]
                    use ::pilota::{thrift::TLengthProtocolExt, Buf};


            let mut var_1 = Some(::pilota::Bytes::from_static("".as_bytes()));let mut var_1034 = None;let mut var_2 = Some(E1::B);let mut var_32767 = Some(E1::C);let mut _unknown_fields = ::pilota::LinkedBytes::new();

            let mut __pilota_decoding_field_id = None;

            __protocol.read_struct_begin()?;
            if let ::std::result::Result::Err(mut err) = (|| {
                    loop {

                let mut __pilota_offset = 0;
            let __pilota_begin_ptr = __protocol.buf().chunk().as_ptr();
                let field_ident = __protocol.read_field_begin()?;
                if field_ident.field_type == ::pilota::thrift::TType::Stop {
                    __pilota_offset += __protocol.field_stop_len();
                    break;
                } else {
                    __pilota_offset += __protocol.field_begin_len(field_ident.field_type, field_ident.id);
                }
                __pilota_decoding_field_id = field_ident.id;
                match field_ident.id {
                    Some(1) if field_ident.field_type == ::pilota::thrift::TType::Binary  => {
                    var_1 = Some(__protocol.read_bytes()?);

                },Some(1034) if field_ident.field_type == ::pilota::thrift::TType::I32  => {
                    var_1034 = Some(__protocol.read_i32()?);

                },Some(2) if field_ident.field_type == ::pilota::thrift::TType::I32  => {
                    var_2 = Some(::pilota::thrift::Message::decode(__protocol)?);

                },Some(32767) if field_ident.field_type == ::pilota::thrift::TType::I32  => {
                    var_32767 = Some(::pilota::thrift::Message::decode(__protocol)?);

                },
                    _ => {
                        __pilota_offset += __protocol.skip(field_ident.field_type)?;
                        _unknown_fields.push_back(__protocol.get_bytes(Some(__pilota_begin_ptr), __pilota_offset)?);
                    },
                }

                __protocol.read_field_end()?;
                __pilota_offset += __protocol.field_end_len();

            };
                    ::std::result::Result::Ok::<_, ::pilota::thrift::ThriftException>(())
                })() {
                if let Some(field_id) = __pilota_decoding_field_id {
                    err.prepend_msg(&format!("decode struct `Df33` field(#{}) failed, caused by: ", field_id));
                }
                return ::std::result::Result::Err(err);
            };
            __protocol.read_struct_end()?;





            let data = Self {
                d1: var_1,plain: var_1034,d2: var_2,d3: var_32767, _unknown_fields
            };
            ::std::result::Result::Ok(data)

                }

                fn decode_async<'a, T: ::pilota::thrift::TAsyncInputProtocol>(
            __protocol: &'a mut T,
        ) -> ::std::pin::Pin<::std::boxed::Box<dyn ::std::future::Future<Output = ::std::result::Result<Self, ::pilota::thrift::ThriftException>> + Send + 'a>> {
            ::std::boxed::Box::pin(async move {


            let mut var_1 = Some(::pilota::Bytes::from_static("".as_bytes()));let mut var_1034 = None;let mut var_2 = Some(E1::B);let mut var_32767 = Some(E1::C);

            let mut __pilota_decoding_field_id = None;

            __protocol.read_struct_begin().await?;
            if let ::std::result::Result::Err(mut err) = async {
                    loop {


                let field_ident = __protocol.read_field_begin().await?;
                if field_ident.field_type == ::pilota::thrift::TType::Stop {

                    break;
                } else {

                }
                __pilota_decoding_field_id = field_ident.id;
                match field_ident.id {
                    Some(1) if field_ident.field_type == ::pilota::thrift::TType::Binary  => {
                    var_1 = Some(__protocol.read_bytes().await?);

                },Some(1034) if field_ident.field_type == ::pilota::thrift::TType::I32  => {
                    var_1034 = Some(__protocol.read_i32().await?);

                },Some(2) if field_ident.field_type == ::pilota::thrift::TType::I32  => {
                    var_2 = Some(<E1 as ::pilota::thrift::Message>::decode_async(__protocol).await?);

                },Some(32767) if field_ident.field_type == ::pilota::thrift::TType::I32  => {
                    var_32767 = Some(<E1 as ::pilota::thrift::Message>::decode_async(__protocol).await?);

                },
                    _ => {
                        __protocol.skip(field_ident.field_type).await?;

                    },
                }

                __protocol.read_field_end().await?;


            };
                    ::std::result::Result::Ok::<_, ::pilota::thrift::ThriftException>(())
                }.await {
                if let Some(field_id) = __pilota_decoding_field_id {
                    err.prepend_msg(&format!("decode struct `Df33` field(#{}) failed, caused by: ", field_id));
                }
                return ::std::result::Result::Err(err);
            };
            __protocol.read_struct_end().await?;





            let data = Self {
                d1: var_1,plain: var_1034,d2: var_2,d3: var_32767, _unknown_fields: ::pilota::LinkedBytes::new()
            };
            ::std::result::Result::Ok(data)

            })
        }

                fn size<T: ::pilota::thrift::TLengthProtocol>(&self, __protocol: &mut T) -> usize {
                    #[allow(unused_imports)]
                    use ::pilota::thrift::TLengthProtocolExt;
                    __protocol.struct_begin_len(&::pilota::thrift::TStructIdentifier {
                    name: "Df33",
                }) + self.d1.as_ref().map_or(0, |value| __protocol.bytes_field_len(Some(1), value)) +self.plain.as_ref().map_or(0, |value| __protocol.i32_field_len(Some(1034), *value)) +self.d2.as_ref().map_or(0, |value| __protocol.i32_field_len(Some(2), (value).inner())) +self.d3.as_ref().map_or(0, |value| __protocol.i32_field_len(Some(32767), (value).inner())) +self._unknown_fields.size() + __protocol.field_stop_len() + __protocol.struct_end_len()
                }
            }
                                impl ::std::default::Default for Df9 {
                                    fn default() -> Self {
                                        Df9 {
                                            d1: Some(::pilota::Bytes::from_static("".as_bytes())),
plain: ::std::default::Default::default(),
d2: Some(E1::B),
d3: Some(E1::C),
_unknown_fields: ::pilota::LinkedBytes::new()
                                        }
                                    }
                                }
                            #[derive(PartialOrd)]
#[derive(Hash, Eq, Ord)]
#[derive(Debug)]#[derive(Clone, PartialEq)]
                pub struct Df9 {

                        pub d1: ::std::option::Option<::pilota::Bytes>,

                        pub plain: ::std::option::Option<i32>,

                        pub d2: ::std::option::Option<E1>,

                        pub d3: ::std::option::Option<E1>,pub _unknown_fields: ::pilota::LinkedBytes,
                }
            impl ::pilota::thrift::Message for Df9 {
                fn encode<T: ::pilota::thrift::TOutputProtocol>(
                    &self,
                    __protocol: &mut T,
                ) -> ::std::result::Result<(),::pilota::thrift::ThriftException> {
                    #[allow(unused_imports)]
                    use ::pilota::thrift::TOutputProtocolExt;
                    let struct_ident =::pilota::thrift::TStructIdentifier {
                    name: "Df9",
                };

                __protocol.write_struct_begin(&struct_ident)?;
                if let Some(value) = self.d1.as_ref() {
                        __protocol.write_bytes_field(127, (value).clone())?;
                    }if let Some(value) = self.plain.as_ref() {
                        __protocol.write_i32_field(1136, *value)?;
                    }if let Some(value) = self.d2.as_ref() {
                        __protocol.write_i32_field(128, (value).inner())?;
                    }if let Some(value) = self.d3.as_ref() {
                        __protocol.write_i32_field(300, (value).inner())?;
                    }for bytes in self._unknown_fields.list.iter() {
                                __protocol.write_bytes_without_len(bytes.clone());
                            }
                __protocol.write_field_stop()?;
                __protocol.write_struct_end()?;
                ::std::result::Result::Ok(())

                }

                fn decode<T: ::pilota::thrift::TInputProtocol>(
                    __protocol: &mut T,
                ) -> ::std::result::Result<Self,::pilota::thrift::ThriftException>  {
                    #[allow(unused_imports)]
                    use ::pilota::{thrift::TLengthProtocolExt, Buf};


            let mut var_127 = Some(::pilota::Bytes::from_static("".as_bytes()));let mut var_1136 = None;let mut var_128 = Some(E1::B);let mut var_300 = Some(E1::C);let mut _unknown_fields = ::pilota::LinkedBytes::new();

            let mut __pilota_decoding_field_id = None;

            __protocol.read_struct_begin()?;
            if let ::std::result::Result::Err(mut err) = (|| {
                    loop {

                let mut __pilota_offset = 0;
            let __pilota_begin_ptr = __protocol.buf().chunk().as_ptr();
                let field_ident = __protocol.read_field_begin()?;
                if field_ident.field_type == ::pilota::thrift::TType::Stop {
                    __pilota_offset += __protocol.field_stop_len();
                    break;
                } else {
                    __pilota_offset += __protocol.field_begin_len(field_ident.field_type, field_ident.id);
                }
                __pilota_decoding_field_id = field_ident.id;
                match field_ident.id {
                    Some(127) if field_ident.field_type == ::pilota::thrift::TType::Binary  => {
                    var_127 = Some(__protocol.read_bytes()?);

                },Some(1136) if field_ident.field_type == ::pilota::thrift::TType::I32  => {
                    var_1136 = Some(__protocol.read_i32()?);

                },Some(128) if field_ident.field_type == ::pilota::thrift::TType::I32  => {
                    var_128 = Some(::pilota::thrift::Message::decode(__protocol)?);

                },Some(300) if field_ident.field_type == ::pilota::thrift::TType::I32  => {
                    var_300 = Some(::pilota::thrift::Message::decode(__protocol)?);

                },
                    _ => {
                        __pilota_offset += __protocol.skip(field_ident.field_type)?;
                        _unknown_fields.push_back(__protocol.get_bytes(Some(__pilota_begin_ptr), __pilota_offset)?);
                    },
                }

                __protocol.read_field_end()?;
                __pilota_offset += __protocol.field_end_len();

            };
                    ::std::result::Result::Ok::<_, ::pilota::thrift::ThriftException>(())
                })() {
                if let Some(field_id) = __pilota_decoding_field_id {
                    err.prepend_msg(&format!("decode struct `Df9` field(#{}) failed, caused by: ", field_id));
                }
                return ::std::result::Result::Err(err);
            };
            __protocol.read_struct_end()?;





            let data = Self {
                d1: var_127,plain: var_1136,d2: var_128,d3: var_300, _unknown_fields
            };
            ::std::result::Result::Ok(data)

                }

                fn decode_async<'a, T: ::pilota::thrift::TAsyncInputProtocol>(
            __protocol: &'a mut T,
        ) -> ::std::pin::Pin<::std::boxed::Box<dyn ::std::future::Future<Output = ::std::result::Result<Self, ::pilota::thrift::ThriftException>> + Send + 'a>> {
            ::std::boxed::Box::pin(async move {


            let mut var_127 = Some(::pilota::Bytes::from_static("".as_bytes()));let mut var_1136 = None;let mut var_128 = Some(E1::B);let mut var_300 = Some(E1::C);

            let mut __pilota_decoding_field_id = None;

            __protocol.read_struct_begin().await?;
            if let ::std::result::Result::Err(mut err) = async {
                    loop {


                let field_ident = __protocol.read_field_begin().await?;
                if field_ident.field_type == ::pilota::thrift::TType::Stop {

                    break;
                } else {

                }
                __pilota_decoding_field_id = field_ident.id;
                match field_ident.id {
                    Some(127) if field_ident.field_type == ::pilota::thrift::TType::Binary  => {
                    var_127 = Some(__protocol.read_bytes().await?);

                },Some(1136) if field_ident.field_type == ::pilota::thrift::TType::I32  => {
                    var_1136 = Some(__protocol.read_i32().await?);

                },Some(128) if field_ident.field_type == ::pilota::thrift::TType::I32  => {
                    var_128 = Some(<E1 as ::pilota::thrift::Message>::decode_async(__protocol).await?);

                },Some(300) if field_ident.field_type == ::pilota::thrift::TType::I32  => {
                    var_300 = Some(<E1 as ::pilota::thrift::Message>::decode_async(__protocol).await?);

                },
                    _ => {
                        __protocol.skip(field_ident.field_type).await?;

                    },
                }

                __protocol.read_field_end().await?;


            };
                    ::std::result::Result::Ok::<_, ::pilota::thrift::ThriftException>(())
                }.await {
                if let Some(field_id) = __pilota_decoding_field_id {
                    err.prepend_msg(&format!("decode struct `Df9` field(#{}) failed, caused by: ", field_id));
                }
                return ::std::result::Result::Err(err);
            };
            __protocol.read_struct_end().await?;





            let data = Self {
                d1: var_127,plain: var_1136,d2: var_128,d3: var_300, _unknown_fields: ::pilota::LinkedBytes::new()
            };
            ::std::result::Result::Ok(data)

            })
        }

                fn size<T: ::pilota::thrift::TLengthProtocol>(&self, __protocol: &mut T) -> usize {
                    #[allow(unused_imports)]
                    use ::pilota::thrift::TLengthProtocolExt;
                    __protocol.struct_begin_len(&::pilota::thrift::TStructIdentifier {
                    name: "Df9",
                }) + self.d1.as_ref().map_or(0, |value| __protocol.bytes_field_len(Some(127), value)) +self.plain.as_ref().map_or(0, |value| __protocol.i32_field_len(Some(1136), *value)) +self.d2.as_ref().map_or(0, |value| __protocol.i32_field_len(Some(128), (value).inner())) +self.d3.as_ref().map_or(0, |value| __protocol.i32_field_len(Some(300), (value).inner())) +self._unknown_fields.size() + __protocol.field_stop_len() + __protocol.struct_end_len()
                }
            }
                                impl ::std::default::Default for Df64 {
                                    fn default() -> Self {
                                        Df64 {
                                            d1: ::std::vec![true,false],
plain: ::std::default::Default::default(),
d2: ::std::vec![E1::A,E1::C],
d3: ::std::vec![::std::vec![1i32],::std::vec![2i32,3i32],::std::vec![]],
_unknown_fields: ::pilota::LinkedBytes::new()
                                        }
                                    }
                                }
                            #[derive(PartialOrd)]
#[derive(Hash, Eq, Ord)]
#[derive(Debug)]#[derive(Clone, PartialEq)]
                pub struct Df64 {

                        pub d1: ::std::vec::Vec<bool>,

                        pub plain: ::std::option::Option<i32>,

                        pub d2: ::std::vec::Vec<E1>,

                        pub d3: ::std::vec::Vec<::std::vec::Vec<i32>>,pub _unknown_fields: ::pilota::LinkedBytes,
                }
            impl ::pilota::thrift::Message for Df64 {
                fn encode<T: ::pilota::thrift::TOutputProtocol>(
                    &self,
                    __protocol: &mut T,
                ) -> ::std::result::Result<(),::pilota::thrift::ThriftException> {
                    #[allow(unused_imports)]
                    use ::pilota::thrift::TOutputProtocolExt;
                    let struct_ident =::pilota::thrift::TStructIdentifier {
                    name: "Df64",
                };

                __protocol.write_struct_begin(&struct_ident)?;
                __protocol.write_list_field(1, ::pilota::thrift::TType::Bool, &&self.d1, |__protocol, val| {
                        __protocol.write_bool(*val)?;
                        ::std::result::Result::Ok(())
                    })?;if let Some(value) = self.plain.as_ref() {
                        __protocol.write_i32_field(1065, *value)?;
                    }__protocol.write_list_field(2, ::pilota::thrift::TType::I32, &&self.d2, |__protocol, val| {
                        __protocol.write_struct(val)?;
                        ::std::result::Result::Ok(())
                    })?;__protocol.write_list_field(3, ::pilota::thrift::TType::List, &&self.d3, |__protocol, val| {
                        __protocol.write_list(::pilota::thrift::TType::I32, &val, |__protocol, val| {
                        __protocol.write_i32(*val)?;
                        ::std::result::Result::Ok(())
                    })?;
                        ::std::result::Result::Ok(())
                    })?;for bytes in self._unknown_fields.list.iter() {
                                __protocol.write_bytes_without_len(bytes.clone());
                            }
                __protocol.write_field_stop()?;
                __protocol.write_struct_end()?;
                ::std::result::Result::Ok(())

                }

                fn decode<T: ::pilota::thrift::TInputProtocol>(
                    __protocol: &mut T,
                ) -> ::std::result::Result<Self,::pilota::thrift::ThriftException>  {
                    #[allow(unused_imports)]
                    use ::pilota::{thrift::TLengthProtocolExt, Buf};


            let mut var_1 = None;let mut var_1065 = None;let mut var_2 = None;let mut var_3 = None;let mut _unknown_fields = ::pilota::LinkedBytes::new();

            let mut __pilota_decoding_field_id = None;

            __protocol.read_struct_begin()?;
            if let ::std::result::Result::Err(mut err) = (|| {
                    loop {

                let mut __pilota_offset = 0;
            let __pilota_begin_ptr = __protocol.buf().chunk().as_ptr();
                let field_ident = __protocol.read_field_begin()?;
                if field_ident.field_type == ::pilota::thrift::TType::Stop {
                    __pilota_offset += __protocol.field_stop_len();
                    break;
                } else {
                    __pilota_offset += __protocol.field_begin_len(field_ident.field_type, field_ident.id);
                }
                __pilota_decoding_field_id = field_ident.id;
                match field_ident.id {
                    Some(1) if field_ident.field_type == ::pilota::thrift::TType::List  => {
                    var_1 = Some(unsafe {
                            let list_ident = __protocol.read_list_begin()?;
                            let mut val: ::std::vec::Vec<bool> = ::std::vec::Vec::with_capacity(list_ident.size);
                            for i in 0..list_ident.size {
                                val.as_mut_ptr().offset(i as isize).write(__protocol.read_bool()?);
                            };
                            val.set_len(list_ident.size);
                            __protocol.read_list_end()?;
                            val
                        });

                },Some(1065) if field_ident.field_type == ::pilota::thrift::TType::I32  => {
                    var_1065 = Some(__protocol.read_i32()?);

                },Some(2) if field_ident.field_type == ::pilota::thrift::TType::List  => {
                    var_2 = Some(unsafe {
                            let list_ident = __protocol.read_list_begin()?;
                            let mut val: ::std::vec::Vec<E1> = ::std::vec::Vec::with_capacity(list_ident.size);
                            for i in 0..list_ident.size {
                                val.as_mut_ptr().offset(i as isize).write(::pilota::thrift::Message::decode(__protocol)?);
                            };
                            val.set_len(list_ident.size);
                            __protocol.read_list_end()?;
                            val
                        });

                },Some(3) if field_ident.field_type == ::pilota::thrift::TType::List  => {
                    var_3 = Some(unsafe {
                            let list_ident = __protocol.read_list_begin()?;
                            let mut val: ::std::vec::Vec<::std::vec::Vec<i32>> = ::std::vec::Vec::with_capacity(list_ident.size);
                            for i in 0..list_ident.size {
                                val.as_mut_ptr().offset(i as isize).write(unsafe {
                            let list_ident = __protocol.read_list_begin()?;
                            let mut val: ::std::vec::Vec<i32> = ::std::vec::Vec::with_capacity(list_ident.size);
                            for i in 0..list_ident.size {
                                val.as_mut_ptr().offset(i as isize).write(__protocol.read_i32()?);
                            };
                            val.set_len(list_ident.size);
                            __protocol.read_list_end()?;
                            val
                        });
                            };
                            val.set_len(list_ident.size);
                            __protocol.read_list_end()?;
                            val
                        });

                },
                    _ => {
                        __pilota_offset += __protocol.skip(field_ident.field_type)?;
                        _unknown_fields.push_back(__protocol.get_bytes(Some(__pilota_begin_ptr), __pilota_offset)?);
                    },
                }

                __protocol.read_field_end()?;
                __pilota_offset += __protocol.field_end_len();

            };
                    ::std::result::Result::Ok::<_, ::pilota::thrift::ThriftException>(())
                })() {
                if let Some(field_id) = __pilota_decoding_field_id {
                    err.prepend_msg(&format!("decode struct `Df64` field(#{}) failed, caused by: ", field_id));
                }
                return ::std::result::Result::Err(err);
            };
            __protocol.read_struct_end()?;



            let var_1 = var_1.unwrap_or_else(|| ::std::vec![true,false]);
let var_2 = var_2.unwrap_or_else(|| ::std::vec![E1::A,E1::C]);
let var_3 = var_3.unwrap_or_else(|| ::std::vec![::std::vec![1i32],::std::vec![2i32,3i32],::std::vec![]]);

            let data = Self {
                d1: var_1,plain: var_1065,d2: var_2,d3: var_3, _unknown_fields
            };
            ::std::result::Result::Ok(data)

                }

                fn decode_async<'a, T: ::pilota::thrift::TAsyncInputProtocol>(
            __protocol: &'a mut T,
        ) -> ::std::pin::Pin<::std::boxed::Box<dyn ::std::future::Future<Output = ::std::result::Result<Self, ::pilota::thrift::ThriftException>> + Send + 'a>> {
            ::std::boxed::Box::pin(async move {


            let mut var_1 = None;let mut var_1065 = None;let mut var_2 = None;let mut var_3 = None;

            let mut __pilota_decoding_field_id = None;

            __protocol.read_struct_begin().await?;
            if let ::std::result::Result::Err(mut err) = async {
                    loop {


                let field_ident = __protocol.read_field_begin().await?;
                if field_ident.field_type == ::pilota::thrift::TType::Stop {

                    break;
                } else {

                }
                __pilota_decoding_field_id = field_ident.id;
                match field_ident.id {
                    Some(1) if field_ident.field_type == ::pilota::thrift::TType::List  => {
                    var_1 = Some({
                            let list_ident = __protocol.read_list_begin().await?;
                            let mut val = ::std::vec::Vec::with_capacity(list_ident.size);
                            for _ in 0..list_ident.size {
                                val.push(__protocol.read_bool().await?);
                            };
                            __protocol.read_list_end().await?;
                            val
                        });

                },Some(1065) if field_ident.field_type == ::pilota::thrift::TType::I32  => {
                    var_1065 = Some(__protocol.read_i32().await?);

                },Some(2) if field_ident.field_type == ::pilota::thrift::TType::List  => {
                    var_2 = Some({
                            let list_ident = __protocol.read_list_begin().await?;
                            let mut val = ::std::vec::Vec::with_capacity(list_ident.size);
                            for _ in 0..list_ident.size {
                                val.push(<E1 as ::pilota::thrift::Message>::decode_async(__protocol).await?);
                            };
                            __protocol.read_list_end().await?;
                            val
                        });

                },Some(3) if field_ident.field_type == ::pilota::thrift::TType::List  => {
                    var_3 = Some({
                            let list_ident = __protocol.read_list_begin().await?;
                            let mut val = ::std::vec::Vec::with_capacity(list_ident.size);
                            for _ in 0..list_ident.size {
                                val.push({
                            let list_ident = __protocol.read_list_begin().await?;
                            let mut val = ::std::vec::Vec::with_capacity(list_ident.size);
                            for _ in 0..list_ident.size {
                                val.push(__protocol.read_i32().await?);
                            };
                            __protocol.read_list_end().await?;
                            val
                        });
                            };
                            __protocol.read_list_end().await?;
                            val
                        });

                },
                    _ => {
                        __protocol.skip(field_ident.field_type).await?;

                    },
                }

                __protocol.read_field_end().await?;


            };
                    ::std::result::Result::Ok::<_, ::pilota::thrift::ThriftException>(())
                }.await {
                if let Some(field_id) = __pilota_decoding_field_id {
                    err.prepend_msg(&format!("decode struct `Df64` field(#{}) failed, caused by: ", field_id));
                }
                return ::std::result::Result::Err(err);
            };
            __protocol.read_struct_end().await?;



            let var_1 = var_1.unwrap_or_else(|| ::std::vec![true,false]);
let var_2 = var_2.unwrap_or_else(|| ::std::vec![E1::A,E1::C]);
let var_3 = var_3.unwrap_or_else(|| ::std::vec![::std::vec![1i32],::std::vec![2i32,3i32],::std::vec![]]);

            let data = Self {
                d1: var_1,plain: var_1065,d2: var_2,d3: var_3, _unknown_fields: ::pilota::LinkedBytes::new()
            };
            ::std::result::Result::Ok(data)

            })
        }

                fn size<T: ::pilota::thrift::TLengthProtocol>(&self, __protocol: &mut T) -> usize {
                    #[allow(unused_imports)]
                    use ::pilota::thrift::TLengthProtocolExt;
                    __protocol.struct_begin_len(&::pilota::thrift::TStructIdentifier {
                    name: "Df64",
                }) + __protocol.list_field_len(Some(1), ::pilota::thrift::TType::Bool, &self.d1, |__protocol, el| {
                        __protocol.bool_len(*el)
                    }) +self.plain.as_ref().map_or(0, |value| __protocol.i32_field_len(Some(1065), *value)) +__protocol.list_field_len(Some(2), ::pilota::thrift::TType::I32, &self.d2, |__protocol, el| {
                        __protocol.struct_len(el)
                    }) +__protocol.list_field_len(Some(3), ::pilota::thrift::TType::List, &self.d3, |__protocol, el| {
                        __protocol.list_len(::pilota::thrift::TType::I32, el, |__protocol, el| {
                        __protocol.i32_len(*el)
                    })
                    }) +self._unknown_fields.size() + __protocol.field_stop_len() + __protocol.struct_end_len()
                }
            }#[derive(PartialOrd)]
#[derive(Hash, Eq, Ord)]
#[derive(Debug)]
#[derive(Default)]
            #[derive(Clone, PartialEq)]
            pub struct TdEnum(pub E1);

            impl ::std::ops::Deref for TdEnum {
                type Target = E1;

                fn deref(&self) -> &Self::Target {
                    &self.0
                }
            }

            impl From<E1> for TdEnum {
                fn from(v: E1) -> Self {
                    Self(v)
                }
            }


            impl ::pilota::thrift::Message for TdEnum {
                fn encode<T: ::pilota::thrift::TOutputProtocol>(
                    &self,
                    __protocol: &mut T,
                ) -> ::std::result::Result<(),::pilota::thrift::ThriftException> {
                    #[allow(unused_imports)]
                    use ::pilota::thrift::TOutputProtocolExt;
                    __protocol.write_struct((&**self))?;
                ::std::result::Result::Ok(())
                }

                fn decode<T: ::pilota::thrift::TInputProtocol>(
                    __protocol: &mut T,
                ) -> ::std::result::Result<Self,::pilota::thrift::ThriftException>  {
                    #[allow(unused_imports)]
                    use ::pilota::{thrift::TLengthProtocolExt, Buf};
                    ::std::result::Result::Ok(TdEnum(::pilota::thrift::Message::decode(__protocol)?))
                }

                fn decode_async<'a, T: ::pilota::thrift::TAsyncInputProtocol>(
            __protocol: &'a mut T,
        ) -> ::std::pin::Pin<::std::boxed::Box<dyn ::std::future::Future<Output = ::std::result::Result<Self, ::pilota::thrift::ThriftException>> + Send + 'a>> {
            ::std::boxed::Box::pin(async move {
                ::std::result::Result::Ok(TdEnum(<E1 as ::pilota::thrift::Message>::decode_async(__protocol).await?))
            })
        }

                fn size<T: ::pilota::thrift::TLengthProtocol>(&self, __protocol: &mut T) -> usize {
                    #[allow(unused_imports)]
                    use ::pilota::thrift::TLengthProtocolExt;
                    __protocol.struct_len(&**self)
                }
            }
                                impl ::std::default::Default for Df40 {
                                    fn default() -> Self {
                                        Df40 {
                                            d1: Some(::std::vec![true,false]),
plain: ::std::default::Default::default(),
d2: Some(::std::vec![E1::A,E1::C]),
d3: Some(::std::vec![::std::vec![1i32],::std::vec![2i32,3i32],::std::vec![]]),
_unknown_fields: ::pilota::LinkedBytes::new()
                                        }
                                    }
                                }
                            #[derive(PartialOrd)]
#[derive(Hash, Eq, Ord)]
#[derive(Debug)]#[derive(Clone, PartialEq)]
                pub struct Df40 {

                        pub d1: ::std::option::Option<::std::vec::Vec<bool>>,

                        pub plain: ::std::option::Option<i32>,

                        pub d2: ::std::option::Option<::std::vec::Vec<E1>>,

                        pub d3: ::std::option::Option<::std::vec::Vec<::std::vec::Vec<i32>>>,pub _unknown_fields: ::pilota::LinkedBytes,
                }
            impl ::pilota::thrift::Message for Df40 {
                fn encode<T: ::pilota::thrift::TOutputProtocol>(
                    &self,
                    __protocol: &mut T,
                ) -> ::std::result::Result<(),::pilota::thrift::ThriftException> {
                    #[allow(unused_imports)]
                    use ::pilota::thrift::TOutputProtocolExt;
                    let struct_ident =::pilota::thrift::TStructIdentifier {
                    name: "Df40",
                };

                __protocol.write_struct_begin(&struct_ident)?;
                if let Some(value) = self.d1.as_ref() {
                        __protocol.write_list_field(3, ::pilota::thrift::TType::Bool, &value, |__protocol, val| {
                        __protocol.write_bool(*val)?;
                        ::std::result::Result::Ok(())
                    })?;
                    }if let Some(value) = self.plain.as_ref() {
                        __protocol.write_i32_field(1043, *value)?;
                    }if let Some(value) = self.d2.as_ref() {
                        __protocol.write_list_field(4, ::pilota::thrift::TType::I32, &value, |__protocol, val| {
                        __protocol.write_struct(val)?;
                        ::std::result::Result::Ok(())
                    })?;
                    }if let Some(value) = self.d3.as_ref() {
                        __protocol.write_list_field(17, ::pilota::thrift::TType::List, &value, |__protocol, val| {
                        __protocol.write_list(::pilota::thrift::TType::I32, &val, |__protocol, val| {
                        __protocol.write_i32(*val)?;
                        ::std::result::Result::Ok(())
                    })?;
                        ::std::result::Result::Ok(())
                    })?;
                    }for bytes in self._unknown_fields.list.iter() {
                                __protocol.write_bytes_without_len(bytes.clone());
                            }
                __protocol.write_field_stop()?;
                __protocol.write_struct_end()?;
                ::std::result::Result::Ok(())

                }

                fn decode<T: ::pilota::thrift::TInputProtocol>(
                    __protocol: &mut T,
                ) -> ::std::result::Result<Self,::pilota::thrift::ThriftException>  {
                    #[allow(unused_imports)]
                    use ::pilota::{thrift::TLengthProtocolExt, Buf};


            let mut var_3 = None;let mut var_1043 = None;let mut var_4 = None;let mut var_17 = None;let mut _unknown_fields = ::pilota::LinkedBytes::new();

            let mut __pilota_decoding_field_id = None;

            __protocol.read_struct_begin()?;
            if let ::std::result::Result::Err(mut err) = (|| {
                    loop {

                let mut __pilota_offset = 0;
            let __pilota_begin_ptr = __protocol.buf().chunk().as_ptr();
                let field_ident = __protocol.read_field_begin()?;
                if field_ident.field_type == ::pilota::thrift::TType::Stop {
                    __pilota_offset += __protocol.field_stop_len();
                    break;
                } else {
                    __pilota_offset += __protocol.field_begin_len(field_ident.field_type, field_ident.id);
                }
                __pilota_decoding_field_id = field_ident.id;
                match field_ident.id {
                    Some(3) if field_ident.field_type == ::pilota::thrift::TType::List  => {
                    var_3 = Some(unsafe {
                            let list_ident = __protocol.read_list_begin()?;
                            let mut val: ::std::vec::Vec<bool> = ::std::vec::Vec::with_capacity(list_ident.size);
                            for i in 0..list_ident.size {
                                val.as_mut_ptr().offset(i as isize).write(__protocol.read_bool()?);
                            };
                            val.set_len(list_ident.size);
                            __protocol.read_list_end()?;
                            val
                        });

                },Some(1043) if field_ident.field_type == ::pilota::thrift::TType::I32  => {
                    var_1043 = Some(__protocol.read_i32()?);

                },Some(4) if field_ident.field_type == ::pilota::thrift::TType::List  => {
                    var_4 = Some(unsafe {
                            let list_ident = __protocol.read_list_begin()?;
                            let mut val: ::std::vec::Vec<E1> = ::std::vec::Vec::with_capacity(list_ident.size);
                            for i in 0..list_ident.size {
                                val.as_mut_ptr().offset(i as isize).write(::pilota::thrift::Message::decode(__protocol)?);
                            };
                            val.set_len(list_ident.size);
                            __protocol.read_list_end()?;
                            val
                        });

                },Some(17) if field_ident.field_type == ::pilota::thrift::TType::List  => {
                    var_17 = Some(unsafe {
                            let list_ident = __protocol.read_list_begin()?;
                            let mut val: ::std::vec::Vec<::std::vec::Vec<i32>> = ::std::vec::Vec::with_capacity(list_ident.size);
                            for i in 0..list_ident.size {
                                val.as_mut_ptr().offset(i as isize).write(unsafe {
                            let list_ident = __protocol.read_list_begin()?;
                            let mut val: ::std::vec::Vec<i32> = ::std::vec::Vec::with_capacity(list_ident.size);
                            for i in 0..list_ident.size {
                                val.as_mut_ptr().offset(i as isize).write(__protocol.read_i32()?);
                            };
                            val.set_len(list_ident.size);
                            __protocol.read_list_end()?;
                            val
                        });
                            };
                            val.set_len(list_ident.size);
                            __protocol.read_list_end()?;
                            val
                        });

                },
                    _ => {
                        __pilota_offset += __protocol.skip(field_ident.field_type)?;
                        _unknown_fields.push_back(__protocol.get_bytes(Some(__pilota_begin_ptr), __pilota_offset)?);
                    },
                }

                __protocol.read_field_end()?;
                __pilota_offset += __protocol.field_end_len();

            };
                    ::std::result::Result::Ok::<_, ::pilota::thrift::ThriftException>(())
                })() {
                if let Some(field_id) = __pilota_decoding_field_id {
                    err.prepend_msg(&format!("decode struct `Df40` field(#{}) failed, caused by: ", field_id));
                }
                return ::std::result::Result::Err(err);
            };
            __protocol.read_struct_end()?;



            if var_3.is_none() {
                                var_3 = Some(::std::vec![true,false]);
                            }
if var_4.is_none() {
                                var_4 = Some(::std::vec![E1::A,E1::C]);
                            }
if var_17.is_none() {
                                var_17 = Some(::std::vec![::std::vec![1i32],::std::vec![2i32,3i32],::std::vec![]]);
                            }

            let data = Self {
                d1: var_3,plain: var_1043,d2: var_4,d3: var_17, _unknown_fields
            };
            ::std::result::Result::Ok(data)

                }

                fn decode_async<'a, T: ::pilota::thrift::TAsyncInputProtocol>(
            __protocol: &'a mut T,
        ) -> ::std::pin::Pin<::std::boxed::Box<dyn ::std::future::Future<Output = ::std::result::Result<Self, ::pilota::thrift::ThriftException>> + Send + 'a>> {
            ::std::boxed::Box::pin(async move {


            let mut var_3 = None;let mut var_1043 = None;let mut var_4 = None;let mut var_17 = None;

            let mut __pilota_decoding_field_id = None;

            __protocol.read_struct_begin().await?;
            if let ::std::result::Result::Err(mut err) = async {
                    loop {


                let field_ident = __protocol.read_field_begin().await?;
                if field_ident.field_type == ::pilota::thrift::TType::Stop {

                    break;
                } else {

                }
                __pilota_decoding_field_id = field_ident.id;
                match field_ident.id {
                    Some(3) if field_ident.field_type == ::pilota::thrift::TType::List  => {
                    var_3 = Some({
                            let list_ident = __protocol.read_list_begin().await?;
                            let mut val = ::std::vec::Vec::with_capacity(list_ident.size);
                            for _ in 0..list_ident.size {
                                val.push(__protocol.read_bool().await?);
                            };
                            __protocol.read_list_end().await?;
                            val
                        });

                },Some(1043) if field_ident.field_type == ::pilota::thrift::TType::I32  => {
                    var_1043 = Some(__protocol.read_i32().await?);

                },Some(4) if field_ident.field_type == ::pilota::thrift::TType::List  => {
                    var_4 = Some({
                            let list_ident = __protocol.read_list_begin().await?;
                            let mut val = ::std::vec::Vec::with_capacity(list_ident.size);
                            for _ in 0..list_ident.size {
                                val.push(<E1 as ::pilota::thrift::Message>::decode_async(__protocol).await?);
                            };
                            __protocol.read_list_end().await?;
                            val
                        });

                },Some(17) if field_ident.field_type == ::pilota::thrift::TType::List  => {
                    var_17 = Some({
                            let list_ident = __protocol.read_list_begin().await?;
                            let mut val = ::std::vec::Vec::with_capacity(list_ident.size);
                            for _ in 0..list_ident.size {
                                val.push({
                            let list_ident = __protocol.read_list_begin().await?;
                            let mut val = ::std::vec::Vec::with_capacity(list_ident.size);
                            for _ in 0..list_ident.size {
                                val.push(__protocol.read_i32().await?);
                            };
                            __protocol.read_list_end().await?;
                            val
                        });
                            };
                            __protocol.read_list_end().await?;
                            val
                        });

                },
                    _ => {
                        __protocol.skip(field_ident.field_type).await?;

                    },
                }

                __protocol.read_field_end().await?;


            };
                    ::std::result::Result::Ok::<_, ::pilota::thrift::ThriftException>(())
                }.await {
                if let Some(field_id) = __pilota_decoding_field_id {
                    err.prepend_msg(&format!("decode struct `Df40` field(#{}) failed, caused by: ", field_id));
                }
                return ::std::result::Result::Err(err);
            };
            __protocol.read_struct_end().await?;



            if var_3.is_none() {
                                var_3 = Some(::std::vec![true,false]);
                            }
if var_4.is_none() {
                                var_4 = Some(::std::vec![E1::A,E1::C]);
                            }
if var_17.is_none() {
                                var_17 = Some(::std::vec![::std::vec![1i32],::std::vec![2i32,3i32],::std::vec![]]);
                            }

            let data = Self {
                d1: var_3,plain: var_1043,d2: var_4,d3: var_17, _unknown_fields: ::pilota::LinkedBytes::new()
            };
            ::std::result::Result::Ok(data)

            })
        }

                fn size<T: ::pilota::thrift::TLengthProtocol>(&self, __protocol: &mut T) -> usize {
                    #[allow(unused_imports)]
                    use ::pilota::thrift::TLengthProtocolExt;
                    __protocol.struct_begin_len(&::pilota::thrift::TStructIdentifier {
                    name: "Df40",
                }) + self.d1.as_ref().map_or(0, |value| __protocol.list_field_len(Some(3), ::pilota::thrift::TType::Bool, value, |__protocol, el| {
                        __protocol.bool_len(*el)
                    })) +self.plain.as_ref().map_or(0, |value| __protocol.i32_field_len(Some(1043), *value)) +self.d2.as_ref().map_or(0, |value| __protocol.list_field_len(Some(4), ::pilota::thrift::TType::I32, value, |__protocol, el| {
                        __protocol.struct_len(el)
                    })) +self.d3.as_ref().map_or(0, |value| __protocol.list_field_len(Some(17), ::pilota::thrift::TType::List, value, |__protocol, el| {
                        __protocol.list_len(::pilota::thrift::TType::I32, el, |__protocol, el| {
                        __protocol.i32_len(*el)
                    })
                    })) +self._unknown_fields.size() + __protocol.field_stop_len() + __protocol.struct_end_len()
                }
            }
                                impl ::std::default::Default for Df16 {
                                    fn default() -> Self {
                                        Df16 {
                                            d1: Some(::std::vec![true,false]),
plain: ::std::default::Default::default(),
d2: Some(::std::vec![E1::A,E1::C]),
d3: Some(::std::vec![::std::vec![1i32],::std::vec![2i32,3i32],::std::vec![]]),
_unknown_fields: ::pilota::LinkedBytes::new()
                                        }
                                    }
                                }
                            #[derive(PartialOrd)]
#[derive(Hash, Eq, Ord)]
#[derive(Debug)]#[derive(Clone, PartialEq)]
                pub struct Df16 {

                        pub d1: ::std::option::Option<::std::vec::Vec<bool>>,

                        pub plain: ::std::option::Option<i32>,

                        pub d2: ::std::option::Option<::std::vec::Vec<E1>>,

                        pub d3: ::std::option::Option<::std::vec::Vec<::std::vec::Vec<i32>>>,pub _unknown_fields: ::pilota::LinkedBytes,
                }
            impl ::pilota::thrift::Message for Df16 {
                fn encode<T: ::pilota::thrift::TOutputProtocol>(
                    &self,
                    __protocol: &mut T,
                ) -> ::std::result::Result<(),::pilota::thrift::ThriftException> {
                    #[allow(unused_imports)]
                    use ::pilota::thrift::TOutputProtocolExt;
                    let struct_ident =::pilota::thrift::TStructIdentifier {
                    name: "Df16",
                };

                __protocol.write_struct_begin(&struct_ident)?;
                if let Some(value) = self.d1.as_ref() {
                        __protocol.write_list_field(1, ::pilota::thrift::TType::Bool, &value, |__protocol, val| {
                        __protocol.write_bool(*val)?;
                        ::std::result::Result::Ok(())
                    })?;
                    }if let Some(value) = self.plain.as_ref() {
                        __protocol.write_i32_field(1017, *value)?;
                    }if let Some(value) = self.d2.as_ref() {
                        __protocol.write_list_field(2, ::pilota::thrift::TType::I32, &value, |__protocol, val| {
                        __protocol.write_struct(val)?;
                        ::std::result::Result::Ok(())
                    })?;
                    }if let Some(value) = self.d3.as_ref() {
                        __protocol.write_list_field(32767, ::pilota::thrift::TType::List, &value, |__protocol, val| {
                        __protocol.write_list(::pilota::thrift::TType::I32, &val, |__protocol, val| {
                        __protocol.write_i32(*val)?;
                        ::std::result::Result::Ok(())
                    })?;
                        ::std::result::Result::Ok(())
                    })?;
                    }for bytes in self._unknown_fields.list.iter() {
                                __protocol.write_bytes_without_len(bytes.clone());
                            }
                __protocol.write_field_stop()?;
                __protocol.write_struct_end()?;
                ::std::result::Result::Ok(())

                }

                fn decode<T: ::pilota::thrift::TInputProtocol>(
                    __protocol: &mut T,
                ) -> ::std::result::Result<Self,::pilota::thrift::ThriftException>  {
                    #[allow(unused_imports)]
                    use ::pilota::{thrift::TLengthProtocolExt, Buf};


            let mut var_1 = None;let mut var_1017 = None;let mut var_2 = None;let mut var_32767 = None;let mut _unknown_fields = ::pilota::LinkedBytes::new();

            let mut __pilota_decoding_field_id = None;

            __protocol.read_struct_begin()?;
            if let ::std::result::Result::Err(mut err) = (|| {
                    loop {

                let mut __pilota_offset = 0;
            let __pilota_begin_ptr = __protocol.buf().chunk().as_ptr();
                let field_ident = __protocol.read_field_begin()?;
                if field_ident.field_type == ::pilota::thrift::TType::Stop {
                    __pilota_offset += __protocol.field_stop_len();
                    break;
                } else {
                    __pilota_offset += __protocol.field_begin_len(field_ident.field_type, field_ident.id);
                }
                __pilota_decoding_field_id = field_ident.id;
                match field_ident.id {
                    Some(1) if field_ident.field_type == ::pilota::thrift::TType::List  => {
                    var_1 = Some(unsafe {
                            let list_ident = __protocol.read_list_begin()?;
                            let mut val: ::std::vec::Vec<bool> = ::std::vec::Vec::with_capacity(list_ident.size);
                            for i in 0..list_ident.size {
                                val.as_mut_ptr().offset(i as isize).write(__protocol.read_bool()?);
                            };
                            val.set_len(list_ident.size);
                            __protocol.read_list_end()?;
                            val
                        });

                },Some(1017) if field_ident.field_type == ::pilota::thrift::TType::I32  => {
                    var_1017 = Some(__protocol.read_i32()?);

                },Some(2) if field_ident.field_type == ::pilota::thrift::TType::List  => {
                    var_2 = Some(unsafe {
                            let list_ident = __protocol.read_list_begin()?;
                            let mut val: ::std::vec::Vec<E1> = ::std::vec::Vec::with_capacity(list_ident.size);
                            for i in 0..list_ident.size {
                                val.as_mut_ptr().offset(i as isize).write(::pilota::thrift::Message::decode(__protocol)?);
                            };
                            val.set_len(list_ident.size);
                            __protocol.read_list_end()?;
                            val
                        });

                },Some(32767) if field_ident.field_type == ::pilota::thrift::TType::List  => {
                    var_32767 = Some(unsafe {
                            let list_ident = __protocol.read_list_begin()?;
                            let mut val: ::std::vec::Vec<::std::vec::Vec<i32>> = ::std::vec::Vec::with_capacity(list_ident.size);
                            for i in 0..list_ident.size {
                                val.as_mut_ptr().offset(i as isize).write(unsafe {
                            let list_ident = __protocol.read_list_begin()?;
                            let mut val: ::std::vec::Vec<i32> = ::std::vec::Vec::with_capacity(list_ident.size);
                            for i in 0..list_ident.size {
                                val.as_mut_ptr().offset(i as isize).write(__protocol.read_i32()?);
                            };
                            val.set_len(list_ident.size);
                            __protocol.read_list_end()?;
                            val
                        });
                            };
                            val.set_len(list_ident.size);
                            __protocol.read_list_end()?;
                            val
                        });

                },
                    _ => {
                        __pilota_offset += __protocol.skip(field_ident.field_type)?;
                        _unknown_fields.push_back(__protocol.get_bytes(Some(__pilota_begin_ptr), __pilota_offset)?);
                    },
                }

                __protocol.read_field_end()?;
                __pilota_offset += __protocol.field_end_len();

            };
                    ::std::result::Result::Ok::<_, ::pilota::thrift::ThriftException>(())
                })() {
                if let Some(field_id) = __pilota_decoding_field_id {
                    err.prepend_msg(&format!("decode struct `Df16` field(#{}) failed, caused by: ", field_id));
                }
                return ::std::result::Result::Err(err);
            };
            __protocol.read_struct_end()?;



            if var_1.is_none() {
                                var_1 = Some(::std::vec![true,false]);
                            }
if var_2.is_none() {
                                var_2 = Some(::std::vec![E1::A,E1::C]);
                            }
if var_32767.is_none() {
                                var_32767 = Some(::std::vec![::std::vec![1i32],::std::vec![2i32,3i32],::std::vec![]]);
                            }

            let data = Self {
                d1: var_1,plain: var_1017,d2: var_2,d3: var_32767, _unknown_fields
            };
            ::std::result::Result::Ok(data)

                }

                fn decode_async<'a, T: ::pilota::thrift::TAsyncInputProtocol>(
            __protocol: &'a mut T,
        ) -> ::std::pin::Pin<::std::boxed::Box<dyn ::std::future::Future<Output = ::std::result::Result<Self, ::pilota::thrift::ThriftException>> + Send + 'a>> {
            ::std::boxed::Box::pin(async move {


            let mut var_1 = None;let mut var_1017 = None;let mut var_2 = None;let mut var_32767 = None;

            let mut __pilota_decoding_field_id = None;

            __protocol.read_struct_begin().await?;
            if let ::std::result::Result::Err(mut err) = async {
                    loop {


                let field_ident = __protocol.read_field_begin().await?;
                if field_ident.field_type == ::pilota::thrift::TType::Stop {

                    break;
                } else {

                }
                __pilota_decoding_field_id = field_ident.id;
                match field_ident.id {
                    Some(1) if field_ident.field_type == ::pilota::thrift::TType::List  => {
                    var_1 = Some({
                            let list_ident = __protocol.read_list_begin().await?;
                            let mut val = ::std::vec::Vec::with_capacity(list_ident.size);
                            for _ in 0..list_ident.size {
                                val.push(__protocol.read_bool().await?);
                            };
                            __protocol.read_list_end().await?;
                            val
                        });

                },Some(1017) if field_ident.field_type == ::pilota::thrift::TType::I32  => {
                    var_1017 = Some(__protocol.read_i32().await?);

                },Some(2) if field_ident.field_type == ::pilota::thrift::TType::List  => {
                    var_2 = Some({
                            let list_ident = __protocol.read_list_begin().await?;
                            let mut val = ::std::vec::Vec::with_capacity(list_ident.size);
                            for _ in 0..list_ident.size {
                                val.push(<E1 as ::pilota::thrift::Message>::decode_async(__protocol).await?);
                            };
                            __protocol.read_list_end().await?;
                            val
                        });

                },Some(32767) if field_ident.field_type == ::pilota::thrift::TType::List  => {
                    var_32767 = Some({
                            let list_ident = __protocol.read_list_begin().await?;
                            let mut val = ::std::vec::Vec::with_capacity(list_ident.size);
                            for _ in 0..list_ident.size {
                                val.push({
                            let list_ident = __protocol.read_list_begin().await?;
                            let mut val = ::std::vec::Vec::with_capacity(list_ident.size);
                            for _ in 0..list_ident.size {
                                val.push(__protocol.read_i32().await?);
                            };
                            __protocol.read_list_end().await?;
                            val
                        });
                            };
                            __protocol.read_list_end().await?;
                            val
                        });

                },
                    _ => {
                        __protocol.skip(field_ident.field_type).await?;

                    },
                }

                __protocol.read_field_end().await?;


            };
                    ::std::result::Result::Ok::<_, ::pilota::thrift::ThriftException>(())
                }.await {
                if let Some(field_id) = __pilota_decoding_field_id {
                    err.prepend_msg(&format!("decode struct `Df16` field(#{}) failed, caused by: ", field_id));
                }
                return ::std::result::Result::Err(err);
            };
            __protocol.read_struct_end().await?;



            if var_1.is_none() {
                                var_1 = Some(::std::vec![true,false]);
                            }
if var_2.is_none() {
                                var_2 = Some(::std::vec![E1::A,E1::C]);
                            }
if var_32767.is_none() {
                                var_32767 = Some(::std::vec![::std::vec![1i32],::std::vec![2i32,3i32],::std::vec![]]);
                            }

            let data = Self {
                d1: var_1,plain: var_1017,d2: var_2,d3: var_32767, _unknown_fields: ::pilota::LinkedBytes::new()
            };
            ::std::result::Result::Ok(data)

            })
        }

                fn size<T: ::pilota::thrift::TLengthProtocol>(&self, __protocol: &mut T) -> usize {
                    #[allow(unused_imports)]
                    use ::pilota::thrift::TLengthProtocolExt;
                    __protocol.struct_begin_len(&::pilota::thrift::TStructIdentifier {
                    name: "Df16",
                }) + self.d1.as_ref().map_or(0, |value| __protocol.list_field_len(Some(1), ::pilota::thrift::TType::Bool, value, |__protocol, el| {
                        __protocol.bool_len(*el)
                    })) +self.plain.as_ref().map_or(0, |value| __protocol.i32_field_len(Some(1017), *value)) +self.d2.as_ref().map_or(0, |value| __protocol.list_field_len(Some(2), ::pilota::thrift::TType::I32, value, |__protocol, el| {
                        __protocol.struct_len(el)
                    })) +self.d3.as_ref().map_or(0, |value| __protocol.list_field_len(Some(32767), ::pilota::thrift::TType::List, value, |__protocol, el| {
                        __protocol.list_len(::pilota::thrift::TType::I32, el, |__protocol, el| {
                        __protocol.i32_len(*el)
                    })
                    })) +self._unknown_fields.size() + __protocol.field_stop_len() + __protocol.struct_end_len()
                }
            }
                                impl ::std::default::Default for Df71 {
                                    fn default() -> Self {
                                        Df71 {
                                            d1: ::std::vec![::std::vec![1i32],::std::vec![1i32]],
plain: ::std::default::Default::default(),
d2: {
                    let mut map = ::pilota::AHashMap::with_capacity(1);
                    map.insert(::pilota::FastStr::from_static_str("o"), {
                    let mut map = ::pilota::AHashMap::with_capacity(1);
                    map.insert(::pilota::FastStr::from_static_str("i"), 9i32);
                    map
                });
                    map
                },
d3: ::std::vec![{
                    let mut map = ::pilota::AHashMap::with_capacity(1);
                    map.insert(::pilota::FastStr::from_static_str("a"), 1i32);
                    map
                },{
                    let mut map = ::pilota::AHashMap::with_capacity(0);

                    map
                }],
_unknown_fields: ::pilota::LinkedBytes::new()
                                        }
                                    }
                                }
                            #[derive(Debug)]#[derive(Clone, PartialEq)]
                pub struct Df71 {

                        pub d1: ::std::vec::Vec<::std::vec::Vec<i32>>,

                        pub plain: ::std::option::Option<i32>,

                        pub d2: ::pilota::AHashMap<::pilota::FastStr, ::pilota::AHashMap<::pilota::FastStr, i32>>,

                        pub d3: ::std::vec::Vec<::pilota::AHashMap<::pilota::FastStr, i32>>,pub _unknown_fields: ::pilota::LinkedBytes,
                }
            impl ::pilota::thrift::Message for Df71 {
                fn encode<T: ::pilota::thrift::TOutputProtocol>(
                    &self,
                    __protocol: &mut T,
                ) -> ::std::result::Result<(),::pilota::thrift::ThriftException> {
                    #[allow(unused_imports)]
                    use ::pilota::thrift::TOutputProtocolExt;
                    let struct_ident =::pilota::thrift::TStructIdentifier {
                    name: "Df71",
                };

                __protocol.write_struct_begin(&struct_ident)?;
                __protocol.write_list_field(1, ::pilota::thrift::TType::List, &&self.d1, |__protocol, val| {
                        __protocol.write_list(::pilota::thrift::TType::I32, &val, |__protocol, val| {
                        __protocol.write_i32(*val)?;
                        ::std::result::Result::Ok(())
                    })?;
                        ::std::result::Result::Ok(())
                    })?;if let Some(value) = self.plain.as_ref() {
                        __protocol.write_i32_field(1072, *value)?;
                    }__protocol.write_map_field(15, ::pilota::thrift::TType::Binary, ::pilota::thrift::TType::Map, &&self.d2, |__protocol, key| {
                __protocol.write_faststr((key).clone())?;
                ::std::result::Result::Ok(())
            }, |__protocol, val| {
                __protocol.write_map(::pilota::thrift::TType::Binary, ::pilota::thrift::TType::I32, &val, |__protocol, key| {
                __protocol.write_faststr((key).clone())?;
                ::std::result::Result::Ok(())
            }, |__protocol, val| {
                __protocol.write_i32(*val)?;
                ::std::result::Result::Ok(())
            })?;
                ::std::result::Result::Ok(())
            })?;__protocol.write_list_field(16, ::pilota::thrift::TType::Map, &&self.d3, |__protocol, val| {
                        __protocol.write_map(::pilota::thrift::TType::Binary, ::pilota::thrift::TType::I32, &val, |__protocol, key| {
                __protocol.write_faststr((key).clone())?;
                ::std::result::Result::Ok(())
            }, |__protocol, val| {
                __protocol.write_i32(*val)?;
                ::std::result::Result::Ok(())
            })?;
                        ::std::result::Result::Ok(())
                    })?;for bytes in self._unknown_fields.list.iter() {
                                __protocol.write_bytes_without_len(bytes.clone());
                            }
                __protocol.write_field_stop()?;
                __protocol.write_struct_end()?;
                ::std::result::Result::Ok(())

                }

                fn decode<T: ::pilota::thrift::TInputProtocol>(
                    __protocol: &mut T,
                ) -> ::std::result::Result<Self,::pilota::thrift::ThriftException>  {
                    #[allow(unused_imports)]
                    use ::pilota::{thrift::TLengthProtocolExt, Buf};


            let mut var_1 = None;let mut var_1072 = None;let mut var_15 = None;let mut var_16 = None;let mut _unknown_fields = ::pilota::LinkedBytes::new();

            let mut __pilota_decoding_field_id = None;

            __protocol.read_struct_begin()?;
            if let ::std::result::Result::Err(mut err) = (|| {
                    loop {

                let mut __pilota_offset = 0;
            let __pilota_begin_ptr = __protocol.buf().chunk().as_ptr();
                let field_ident = __protocol.read_field_begin()?;
                if field_ident.field_type == ::pilota::thrift::TType::Stop {
                    __pilota_offset += __protocol.field_stop_len();
                    break;
                } else {
                    __pilota_offset += __protocol.field_begin_len(field_ident.field_type, field_ident.id);
                }
                __pilota_decoding_field_id = field_ident.id;
                match field_ident.id {
                    Some(1) if field_ident.field_type == ::pilota::thrift::TType::List  => {
                    var_1 = Some(unsafe {
                            let list_ident = __protocol.read_list_begin()?;
                            let mut val: ::std::vec::Vec<::std::vec::Vec<i32>> = ::std::vec::Vec::with_capacity(list_ident.size);
                            for i in 0..list_ident.size {
                                val.as_mut_ptr().offset(i as isize).write(unsafe {
                            let list_ident = __protocol.read_list_begin()?;
                            let mut val: ::std::vec::Vec<i32> = ::std::vec::Vec::with_capacity(list_ident.size);
                            for i in 0..list_ident.size {
                                val.as_mut_ptr().offset(i as isize).write(__protocol.read_i32()?);
                            };
                            val.set_len(list_ident.size);
                            __protocol.read_list_end()?;
                            val
                        });
                            };
                            val.set_len(list_ident.size);
                            __protocol.read_list_end()?;
                            val
                        });

                },Some(1072) if field_ident.field_type == ::pilota::thrift::TType::I32  => {
                    var_1072 = Some(__protocol.read_i32()?);

                },Some(15) if field_ident.field_type == ::pilota::thrift::TType::Map  => {
                    var_15 = Some({
                        let map_ident = __protocol.read_map_begin()?;
                        let mut val = ::pilota::AHashMap::with_capacity(map_ident.size);
                        for _ in 0..map_ident.size {
                            val.insert(__protocol.read_faststr()?, {
                        let map_ident = __protocol.read_map_begin()?;
                        let mut val = ::pilota::AHashMap::with_capacity(map_ident.size);
                        for _ in 0..map_ident.size {
                            val.insert(__protocol.read_faststr()?, __protocol.read_i32()?);
                        }
                        __protocol.read_map_end()?;
                        val
                    });
                        }
                        __protocol.read_map_end()?;
                        val
                    });

                },Some(16) if field_ident.field_type == ::pilota::thrift::TType::List  => {
                    var_16 = Some(unsafe {
                            let list_ident = __protocol.read_list_begin()?;
                            let mut val: ::std::vec::Vec<::pilota::AHashMap<::pilota::FastStr, i32>> = ::std::vec::Vec::with_capacity(list_ident.size);
                            for i in 0..list_ident.size {
                                val.as_mut_ptr().offset(i as isize).write({
                        let map_ident = __protocol.read_map_begin()?;
                        let mut val = ::pilota::AHashMap::with_capacity(map_ident.size);
                        for _ in 0..map_ident.size {
                            val.insert(__protocol.read_faststr()?, __protocol.read_i32()?);
                        }
                        __protocol.read_map_end()?;
                        val
                    });
                            };
                            val.set_len(list_ident.size);
                            __protocol.read_list_end()?;
                            val
                        });

                },
                    _ => {
                        __pilota_offset += __protocol.skip(field_ident.field_type)?;
                        _unknown_fields.push_back(__protocol.get_bytes(Some(__pilota_begin_ptr), __pilota_offset)?);
                    },
                }

                __protocol.read_field_end()?;
                __pilota_offset += __protocol.field_end_len();

            };
                    ::std::result::Result::Ok::<_, ::pilota::thrift::ThriftException>(())
                })() {
                if let Some(field_id) = __pilota_decoding_field_id {
                    err.prepend_msg(&format!("decode struct `Df71` field(#{}) failed, caused by: ", field_id));
                }
                return ::std::result::Result::Err(err);
            };
            __protocol.read_struct_end()?;



            let var_1 = var_1.unwrap_or_else(|| ::std::vec![::std::vec![1i32],::std::vec![1i32]]);
let var_15 = var_15.unwrap_or_else(|| {
                    let mut map = ::pilota::AHashMap::with_capacity(1);
                    map.insert(::pilota::FastStr::from_static_str("o"), {
                    let mut map = ::pilota::AHashMap::with_capacity(1);
                    map.insert(::pilota::FastStr::from_static_str("i"), 9i32);
                    map
                });
                    map
                });
let var_16 = var_16.unwrap_or_else(|| ::std::vec![{
                    let mut map = ::pilota::AHashMap::with_capacity(1);
                    map.insert(::pilota::FastStr::from_static_str("a"), 1i32);
                    map
                },{
                    let mut map = ::pilota::AHashMap::with_capacity(0);

                    map
                }]);

            let data = Self {
                d1: var_1,plain: var_1072,d2: var_15,d3: var_16, _unknown_fields
            };
            ::std::result::Result::Ok(data)

                }

                fn decode_async<'a, T: ::pilota::thrift::TAsyncInputProtocol>(
            __protocol: &'a mut T,
        ) -> ::std::pin::Pin<::std::boxed::Box<dyn ::std::future::Future<Output = ::std::result::Result<Self, ::pilota::thrift::ThriftException>> + Send + 'a>> {
            ::std::boxed::Box::pin(async move {


            let mut var_1 = None;let mut var_1072 = None;let mut var_15 = None;let mut var_16 = None;

            let mut __pilota_decoding_field_id = None;

            __protocol.read_struct_begin().await?;
            if let ::std::result::Result::Err(mut err) = async {
                    loop {


                let field_ident = __protocol.read_field_begin().await?;
                if field_ident.field_type == ::pilota::thrift::TType::Stop {

                    break;
                } else {

                }
                __pilota_decoding_field_id = field_ident.id;
                match field_ident.id {
                    Some(1) if field_ident.field_type == ::pilota::thrift::TType::List  => {
                    var_1 = Some({
                            let list_ident = __protocol.read_list_begin().await?;
                            let mut val = ::std::vec::Vec::with_capacity(list_ident.size);
                            for _ in 0..list_ident.size {
                                val.push({
                            let list_ident = __protocol.read_list_begin().await?;
                            let mut val = ::std::vec::Vec::with_capacity(list_ident.size);
                            for _ in 0..list_ident.size {
                                val.push(__protocol.read_i32().await?);
                            };
                            __protocol.read_list_end().await?;
                            val
                        });
                            };
                            __protocol.read_list_end().await?;
                            val
                        });

                },Some(1072) if field_ident.field_type == ::pilota::thrift::TType::I32  => {
                    var_1072 = Some(__protocol.read_i32().await?);

                },Some(15) if field_ident.field_type == ::pilota::thrift::TType::Map  => {
                    var_15 = Some({
                        let map_ident = __protocol.read_map_begin().await?;
                        let mut val = ::pilota::AHashMap::with_capacity(map_ident.size);
                        for _ in 0..map_ident.size {
                            val.insert(__protocol.read_faststr().await?, {
                        let map_ident = __protocol.read_map_begin().await?;
                        let mut val = ::pilota::AHashMap::with_capacity(map_ident.size);
                        for _ in 0..map_ident.size {
                            val.insert(__protocol.read_faststr().await?, __protocol.read_i32().await?);
                        }
                        __protocol.read_map_end().await?;
                        val
                    });
                        }
                        __protocol.read_map_end().await?;
                        val
                    });

                },Some(16) if field_ident.field_type == ::pilota::thrift::TType::List  => {
                    var_16 = Some({
                            let list_ident = __protocol.read_list_begin().await?;
                            let mut val = ::std::vec::Vec::with_capacity(list_ident.size);
                            for _ in 0..list_ident.size {
                                val.push({
                        let map_ident = __protocol.read_map_begin().await?;
                        let mut val = ::pilota::AHashMap::with_capacity(map_ident.size);
                        for _ in 0..map_ident.size {
                            val.insert(__protocol.read_faststr().await?, __protocol.read_i32().await?);
                        }
                        __protocol.read_map_end().await?;
                        val
                    });
                            };
                            __protocol.read_list_end().await?;
                            val
                        });

                },
                    _ => {
                        __protocol.skip(field_ident.field_type).await?;

                    },
                }

                __protocol.read_field_end().await?;


            };
                    ::std::result::Result::Ok::<_, ::pilota::thrift::ThriftException>(())
                }.await {
                if let Some(field_id) = __pilota_decoding_field_id {
                    err.prepend_msg(&format!("decode struct `Df71` field(#{}) failed, caused by: ", field_id));
                }
                return ::std::result::Result::Err(err);
            };
            __protocol.read_struct_end().await?;



            let var_1 = var_1.unwrap_or_else(|| ::std::vec![::std::vec![1i32],::std::vec![1i32]]);
let var_15 = var_15.unwrap_or_else(|| {
                    let mut map = ::pilota::AHashMap::with_capacity(1);
                    map.insert(::pilota::FastStr::from_static_str("o"), {
                    let mut map = ::pilota::AHashMap::with_capacity(1);
                    map.insert(::pilota::FastStr::from_static_str("i"), 9i32);
                    map
                });
                    map
                });
let var_16 = var_16.unwrap_or_else(|| ::std::vec![{
                    let mut map = ::pilota::AHashMap::with_capacity(1);
                    map.insert(::pilota::FastStr::from_static_str("a"), 1i32);
                    map
                },{
                    let mut map = ::pilota::AHashMap::with_capacity(0);

                    map
                }]);

            let data = Self {
                d1: var_1,plain: var_1072,d2: var_15,d3: var_16, _unknown_fields: ::pilota::LinkedBytes::new()
            };
            ::std::result::Result::Ok(data)

            })
        }

                fn size<T: ::pilota::thrift::TLengthProtocol>(&self, __protocol: &mut T) -> usize {
                    #[allow(unused_imports)]
                    use ::pilota::thrift::TLengthProtocolExt;
                    __protocol.struct_begin_len(&::pilota::thrift::TStructIdentifier {
                    name: "Df71",
                }) + __protocol.list_field_len(Some(1), ::pilota::thrift::TType::List, &self.d1, |__protocol, el| {
                        __protocol.list_len(::pilota::thrift::TType::I32, el, |__protocol, el| {
                        __protocol.i32_len(*el)
                    })
                    }) +self.plain.as_ref().map_or(0, |value| __protocol.i32_field_len(Some(1072), *value)) +__protocol.map_field_len(Some(15), ::pilota::thrift::TType::Binary, ::pilota::thrift::TType::Map, &self.d2, |__protocol, key| {
                __protocol.faststr_len(key)
            }, |__protocol, val| {
                __protocol.map_len(::pilota::thrift::TType::Binary, ::pilota::thrift::TType::I32, val, |__protocol, key| {
                __protocol.faststr_len(key)
            }, |__protocol, val| {
                __protocol.i32_len(*val)
            })
            }) +__protocol.list_field_len(Some(16), ::pilota::thrift::TType::Map, &self.d3, |__protocol, el| {
                        __protocol.map_len(::pilota::thrift::TType::Binary, ::pilota::thrift::TType::I32, el, |__protocol, key| {
                __protocol.faststr_len(key)
            }, |__protocol, val| {
                __protocol.i32_len(*val)
            })
                    }) +self._unknown_fields.size() + __protocol.field_stop_len() + __protocol.struct_end_len()
                }
            }
                                impl ::std::default::Default for Df47 {
                                    fn default() -> Self {
                                        Df47 {
                                            d1: Some(::std::vec![::std::vec![1i32],::std::vec![1i32]]),
plain: ::std::default::Default::default(),
d2: Some({
                    let mut map = ::pilota::AHashMap::with_capacity(1);
                    map.insert(::pilota::FastStr::from_static_str("o"), {
                    let mut map = ::pilota::AHashMap::with_capacity(1);
                    map.insert(::pilota::FastStr::from_static_str("i"), 9i32);
                    map
                });
                    map
                }),
d3: Some(::std::vec![{
                    let mut map = ::pilota::AHashMap::with_capacity(1);
                    map.insert(::pilota::FastStr::from_static_str("a"), 1i32);
                    map
                },{
                    let mut map = ::pilota::AHashMap::with_capacity(0);

                    map
                }]),
_unknown_fields: ::pilota::LinkedBytes::new()
                                        }
                                    }
                                }
                            #[derive(Debug)]#[derive(Clone, PartialEq)]
                pub struct Df47 {

                        pub d1: ::std::option::Option<::std::vec::Vec<::std::vec::Vec<i32>>>,

                        pub plain: ::std::option::Option<i32>,

                        pub d2: ::std::option::Option<::pilota::AHashMap<::pilota::FastStr, ::pilota::AHashMap<::pilota::FastStr, i32>>>,

                        pub d3: ::std::option::Option<::std::vec::Vec<::pilota::AHashMap<::pilota::FastStr, i32>>>,pub _unknown_fields: ::pilota::LinkedBytes,
                }
            impl ::pilota::thrift::Message for Df47 {
                fn encode<T: ::pilota::thrift::TOutputProtocol>(
                    &self,
                    __protocol: &mut T,
                ) -> ::std::result::Result<(),::pilota::thrift::ThriftException> {
                    #[allow(unused_imports)]
                    use ::pilota::thrift::TOutputProtocolExt;
                    let struct_ident =::pilota::thrift::TStructIdentifier {
                    name: "Df47",
                };

                __protocol.write_struct_begin(&struct_ident)?;
                if let Some(value) = self.d1.as_ref() {
                        __protocol.write_list_field(1, ::pilota::thrift::TType::List, &value, |__protocol, val| {
                        __protocol.write_list(::pilota::thrift::TType::I32, &val, |__protocol, val| {
                        __protocol.write_i32(*val)?;
                        ::std::result::Result::Ok(())
                    })?;
                        ::std::result::Result::Ok(())
                    })?;
                    }if let Some(value) = self.plain.as_ref() {
                        __protocol.write_i32_field(1048, *value)?;
                    }if let Some(value) = self.d2.as_ref() {
                        __protocol.write_map_field(2, ::pilota::thrift::TType::Binary, ::pilota::thrift::TType::Map, &value, |__protocol, key| {
                __protocol.write_faststr((key).clone())?;
                ::std::result::Result::Ok(())
            }, |__protocol, val| {
                __protocol.write_map(::pilota::thrift::TType::Binary, ::pilota::thrift::TType::I32, &val, |__protocol, key| {
                __protocol.write_faststr((key).clone())?;
                ::std::result::Result::Ok(())
            }, |__protocol, val| {
                __protocol.write_i32(*val)?;
                ::std::result::Result::Ok(())
            })?;
                ::std::result::Result::Ok(())
            })?;
                    }if let Some(value) = self.d3.as_ref() {
                        __protocol.write_list_field(3, ::pilota::thrift::TType::Map, &value, |__protocol, val| {
                        __protocol.write_map(::pilota::thrift::TType::Binary, ::pilota::thrift::TType::I32, &val, |__protocol, key| {
                __protocol.write_faststr((key).clone())?;
                ::std::result::Result::Ok(())
            }, |__protocol, val| {
                __protocol.write_i32(*val)?;
                ::std::result::Result::Ok(())
            })?;
                        ::std::result::Result::Ok(())
                    })?;
                    }for bytes in self._unknown_fields.list.iter() {
                                __protocol.write_bytes_without_len(bytes.clone());
                            }
                __protocol.write_field_stop()?;
                __protocol.write_struct_end()?;
                ::std::result::Result::Ok(())

                }

                fn decode<T: ::pilota::thrift::TInputProtocol>(
                    __protocol: &mut T,
                ) -> ::std::result::Result<Self,::pilota::thrift::ThriftException>  {
                    #[allow(unused_imports)]
                    use ::pilota::{thrift::TLengthProtocolExt, Buf};


            let mut var_1 = None;let mut var_1048 = None;let mut var_2 = None;let mut var_3 = None;let mut _unknown_fields = ::pilota::LinkedBytes::new();

            let mut __pilota_decoding_field_id = None;

            __protocol.read_struct_begin()?;
            if let ::std::result::Result::Err(mut err) = (|| {
                    loop {

                let mut __pilota_offset = 0;
            let __pilota_begin_ptr = __protocol.buf().chunk().as_ptr();
                let field_ident = __protocol.read_field_begin()?;
                if field_ident.field_type == ::pilota::thrift::TType::Stop {
                    __pilota_offset += __protocol.field_stop_len();
                    break;
                } else {
                    __pilota_offset += __protocol.field_begin_len(field_ident.field_type, field_ident.id);
                }
                __pilota_decoding_field_id = field_ident.id;
                match field_ident.id {
                    Some(1) if field_ident.field_type == ::pilota::thrift::TType::List  => {
                    var_1 = Some(unsafe {
                            let list_ident = __protocol.read_list_begin()?;
                            let mut val: ::std::vec::Vec<::std::vec::Vec<i32>> = ::std::vec::Vec::with_capacity(list_ident.size);
                            for i in 0..list_ident.size {
                                val.as_mut_ptr().offset(i as isize).write(unsafe {
                            let list_ident = __protocol.read_list_begin()?;
                            let mut val: ::std::vec::Vec<i32> = ::std::vec::Vec::with_capacity(list_ident.size);
                            for i in 0..list_ident.size {
                                val.as_mut_ptr().offset(i as isize).write(__protocol.read_i32()?);
                            };
                            val.set_len(list_ident.size);
                            __protocol.read_list_end()?;
                            val
                        });
                            };
                            val.set_len(list_ident.size);
                            __protocol.read_list_end()?;
                            val
                        });

                },Some(1048) if field_ident.field_type == ::pilota::thrift::TType::I32  => {
                    var_1048 = Some(__protocol.read_i32()?);

                },Some(2) if field_ident.field_type == ::pilota::thrift::TType::Map  => {
                    var_2 = Some({
                        let map_ident = __protocol.read_map_begin()?;
                        let mut val = ::pilota::AHashMap::with_capacity(map_ident.size);
                        for _ in 0..map_ident.size {
                            val.insert(__protocol.read_faststr()?, {
                        let map_ident = __protocol.read_map_begin()?;
                        let mut val = ::pilota::AHashMap::with_capacity(map_ident.size);
                        for _ in 0..map_ident.size {
                            val.insert(__protocol.read_faststr()?, __protocol.read_i32()?);
                        }
                        __protocol.read_map_end()?;
                        val
                    });
                        }
                        __protocol.read_map_end()?;
                        val
                    });

                },Some(3) if field_ident.field_type == ::pilota::thrift::TType::List  => {
                    var_3 = Some(unsafe {
                            let list_ident = __protocol.read_list_begin()?;
                            let mut val: ::std::vec::Vec<::pilota::AHashMap<::pilota::FastStr, i32>> = ::std::vec::Vec::with_capacity(list_ident.size);
                            for i in 0..list_ident.size {
                                val.as_mut_ptr().offset(i as isize).write({
                        let map_ident = __protocol.read_map_begin()?;
                        let mut val = ::pilota::AHashMap::with_capacity(map_ident.size);
                        for _ in 0..map_ident.size {
                            val.insert(__protocol.read_faststr()?, __protocol.read_i32()?);
                        }
                        __protocol.read_map_end()?;
                        val
                    });
                            };
                            val.set_len(list_ident.size);
                            __protocol.read_list_end()?;
                            val
                        });

                },
                    _ => {
                        __pilota_offset += __protocol.skip(field_ident.field_type)?;
                        _unknown_fields.push_back(__protocol.get_bytes(Some(__pilota_begin_ptr), __pilota_offset)?);
                    },
                }

                __protocol.read_field_end()?;
                __pilota_offset += __protocol.field_end_len();

            };
                    ::std::result::Result::Ok::<_, ::pilota::thrift::ThriftException>(())
                })() {
                if let Some(field_id) = __pilota_decoding_field_id {
                    err.prepend_msg(&format!("decode struct `Df47` field(#{}) failed, caused by: ", field_id));
                }
                return ::std::result::Result::Err(err);
            };
            __protocol.read_struct_end()?;



            if var_1.is_none() {
                                var_1 = Some(::std::vec![::std::vec![1i32],::std::vec![1i32]]);
                            }
if var_2.is_none() {
                                var_2 = Some({
                    let mut map = ::pilota::AHashMap::with_capacity(1);
                    map.insert(::pilota::FastStr::from_static_str("o"), {
                    let mut map = ::pilota::AHashMap::with_capacity(1);
                    map.insert(::pilota::FastStr::from_static_str("i"), 9i32);
                    map
                });
                    map
                });
                            }
if var_3.is_none() {
                                var_3 = Some(::std::vec![{
                    let mut map = ::pilota::AHashMap::with_capacity(1);
                    map.insert(::pilota::FastStr::from_static_str("a"), 1i32);
                    map
                },{
                    let mut map = ::pilota::AHashMap::with_capacity(0);

                    map
                }]);
                            }

            let data = Self {
                d1: var_1,plain: var_1048,d2: var_2,d3: var_3, _unknown_fields
            };
            ::std::result::Result::Ok(data)

                }

                fn decode_async<'a, T: ::pilota::thrift::TAsyncInputProtocol>(
            __protocol: &'a mut T,
        ) -> ::std::pin::Pin<::std::boxed::Box<dyn ::std::future::Future<Output = ::std::result::Result<Self, ::pilota::thrift::ThriftException>> + Send + 'a>> {
            ::std::boxed::Box::pin(async move {


            let mut var_1 = None;let mut var_1048 = None;let mut var_2 = None;let mut var_3 = None;

            let mut __pilota_decoding_field_id = None;

            __protocol.read_struct_begin().await?;
            if let ::std::result::Result::Err(mut err) = async {
                    loop {


                let field_ident = __protocol.read_field_begin().await?;
                if field_ident.field_type == ::pilota::thrift::TType::Stop {

                    break;
                } else {

                }
                __pilota_decoding_field_id = field_ident.id;
                match field_ident.id {
                    Some(1) if field_ident.field_type == ::pilota::thrift::TType::List  => {
                    var_1 = Some({
                            let list_ident = __protocol.read_list_begin().await?;
                            let mut val = ::std::vec::Vec::with_capacity(list_ident.size);
                            for _ in 0..list_ident.size {
                                val.push({
                            let list_ident = __protocol.read_list_begin().await?;
                            let mut val = ::std::vec::Vec::with_capacity(list_ident.size);
                            for _ in 0..list_ident.size {
                                val.push(__protocol.read_i32().await?);
                            };
                            __protocol.read_list_end().await?;
                            val
                        });
                            };
                            __protocol.read_list_end().await?;
                            val
                        });

                },Some(1048) if field_ident.field_type == ::pilota::thrift::TType::I32  => {
                    var_1048 = Some(__protocol.read_i32().await?);

                },Some(2) if field_ident.field_type == ::pilota::thrift::TType::Map  => {
                    var_2 = Some({
                        let map_ident = __protocol.read_map_begin().await?;
                        let mut val = ::pilota::AHashMap::with_capacity(map_ident.size);
                        for _ in 0..map_ident.size {
                            val.insert(__protocol.read_faststr().await?, {
                        let map_ident = __protocol.read_map_begin().await?;
                        let mut val = ::pilota::AHashMap::with_capacity(map_ident.size);
                        for _ in 0..map_ident.size {
                            val.insert(__protocol.read_faststr().await?, __protocol.read_i32().await?);
                        }
                        __protocol.read_map_end().await?;
                        val
                    });
                        }
                        __protocol.read_map_end().await?;
                        val
                    });

                },Some(3) if field_ident.field_type == ::pilota::thrift::TType::List  => {
                    var_3 = Some({
                            let list_ident = __protocol.read_list_begin().await?;
                            let mut val = ::std::vec::Vec::with_capacity(list_ident.size);
                            for _ in 0..list_ident.size {
                                val.push({
                        let map_ident = __protocol.read_map_begin().await?;
                        let mut val = ::pilota::AHashMap::with_capacity(map_ident.size);
                        for _ in 0..map_ident.size {
                            val.insert(__protocol.read_faststr().await?, __protocol.read_i32().await?);
                        }
                        __protocol.read_map_end().await?;
                        val
                    });
                            };
                            __protocol.read_list_end().await?;
                            val
                        });

                },
                    _ => {
                        __protocol.skip(field_ident.field_type).await?;

                    },
                }

                __protocol.read_field_end().await?;


            };
                    ::std::result::Result::Ok::<_, ::pilota::thrift::ThriftException>(())
                }.await {
                if let Some(field_id) = __pilota_decoding_field_id {
                    err.prepend_msg(&format!("decode struct `Df47` field(#{}) failed, caused by: ", field_id));
                }
                return ::std::result::Result::Err(err);
            };
            __protocol.read_struct_end().await?;



            if var_1.is_none() {
                                var_1 = Some(::std::vec![::std::vec![1i32],::std::vec![1i32]]);
                            }
if var_2.is_none() {
                                var_2 = Some({
                    let mut map = ::pilota::AHashMap::with_capacity(1);
                    map.insert(::pilota::FastStr::from_static_str("o"), {
                    let mut map = ::pilota::AHashMap::with_capacity(1);
                    map.insert(::pilota::FastStr::from_static_str("i"), 9i32);
                    map
                });
                    map
                });
                            }
if var_3.is_none() {
                                var_3 = Some(::std::vec![{
                    let mut map = ::pilota::AHashMap::with_capacity(1);
                    map.insert(::pilota::FastStr::from_static_str("a"), 1i32);
                    map
                },{
                    let mut map = ::pilota::AHashMap::with_capacity(0);

                    map
                }]);
                            }

            let data = Self {
                d1: var_1,plain: var_1048,d2: var_2,d3: var_3, _unknown_fields: ::pilota::LinkedBytes::new()
            };
            ::std::result::Result::Ok(data)

            })
        }

                fn size<T: ::pilota::thrift::TLengthProtocol>(&self, __protocol: &mut T) -> usize {
                    #[allow(unused_imports)]
                    use ::pilota::thrift::TLengthProtocolExt;
                    __protocol.struct_begin_len(&::pilota::thrift::TStructIdentifier {
                    name: "Df47",
                }) + self.d1.as_ref().map_or(0, |value| __protocol.list_field_len(Some(1), ::pilota::thrift::TType::List, value, |__protocol, el| {
                        __protocol.list_len(::pilota::thrift::TType::I32, el, |__protocol, el| {
                        __protocol.i32_len(*el)
                    })
                    })) +self.plain.as_ref().map_or(0, |value| __protocol.i32_field_len(Some(1048), *value)) +self.d2.as_ref().map_or(0, |value| __protocol.map_field_len(Some(2), ::pilota::thrift::TType::Binary, ::pilota::thrift::TType::Map, value, |__protocol, key| {
                __protocol.faststr_len(key)
            }, |__protocol, val| {
                __protocol.map_len(::pilota::thrift::TType::Binary, ::pilota::thrift::TType::I32, val, |__protocol, key| {
                __protocol.faststr_len(key)
            }, |__protocol, val| {
                __protocol.i32_len(*val)
            })
            })) +self.d3.as_ref().map_or(0, |value| __protocol.list_field_len(Some(3), ::pilota::thrift::TType::Map, value, |__protocol, el| {
                        __protocol.map_len(::pilota::thrift::TType::Binary, ::pilota::thrift::TType::I32, el, |__protocol, key| {
                __protocol.faststr_len(key)
            }, |__protocol, val| {
                __protocol.i32_len(*val)
            })
                    })) +self._unknown_fields.size() + __protocol.field_stop_len() + __protocol.struct_end_len()
                }
            }
                                impl ::std::default::Default for Df23 {
                                    fn default() -> Self {
                                        Df23 {
                                            d1: Some(::std::vec![::std::vec![1i32],::std::vec![1i32]]),
plain: ::std::default::Default::default(),
d2: Some({
                    let mut map = ::pilota::AHashMap::with_capacity(1);
                    map.insert(::pilota::FastStr::from_static_str("o"), {
                    let mut map = ::pilota::AHashMap::with_capacity(1);
                    map.insert(::pilota::FastStr::from_static_str("i"), 9i32);
                    map
                });
                    map
                }),
d3: Some(::std::vec![{
                    let mut map = ::pilota::AHashMap::with_capacity(1);
                    map.insert(::pilota::FastStr::from_static_str("a"), 1i32);
                    map
                },{
                    let mut map = ::pilota::AHashMap::with_capacity(0);

                    map
                }]),
_unknown_fields: ::pilota::LinkedBytes::new()
                                        }
                                    }
                                }
                            #[derive(Debug)]#[derive(Clone, PartialEq)]
                pub struct Df23 {

                        pub d1: ::std::option::Option<::std::vec::Vec<::std::vec::Vec<i32>>>,

                        pub plain: ::std::option::Option<i32>,

                        pub d2: ::std::option::Option<::pilota::AHashMap<::pilota::FastStr, ::pilota::AHashMap<::pilota::FastStr, i32>>>,

                        pub d3: ::std::option::Option<::std::vec::Vec<::pilota::AHashMap<::pilota::FastStr, i32>>>,pub _unknown_fields: ::pilota::LinkedBytes,
                }
            impl ::pilota::thrift::Message for Df23 {
                fn encode<T: ::pilota::thrift::TOutputProtocol>(
                    &self,
                    __protocol: &mut T,
                ) -> ::std::result::Result<(),::pilota::thrift::ThriftException> {
                    #[allow(unused_imports)]
                    use ::pilota::thrift::TOutputProtocolExt;
                    let struct_ident =::pilota::thrift::TStructIdentifier {
                    name: "Df23",
                };

                __protocol.write_struct_begin(&struct_ident)?;
                if let Some(value) = self.d1.as_ref() {
                        __protocol.write_list_field(3, ::pilota::thrift::TType::List, &value, |__protocol, val| {
                        __protocol.write_list(::pilota::thrift::TType::I32, &val, |__protocol, val| {
                        __protocol.write_i32(*val)?;
                        ::std::result::Result::Ok(())
                    })?;
                        ::std::result::Result::Ok(())
                    })?;
                    }if let Some(value) = self.plain.as_ref() {
                        __protocol.write_i32_field(1026, *value)?;
                    }if let Some(value) = self.d2.as_ref() {
                        __protocol.write_map_field(4, ::pilota::thrift::TType::Binary, ::pilota::thrift::TType::Map, &value, |__protocol, key| {
                __protocol.write_faststr((key).clone())?;
                ::std::result::Result::Ok(())
            }, |__protocol, val| {
                __protocol.write_map(::pilota::thrift::TType::Binary, ::pilota::thrift::TType::I32, &val, |__protocol, key| {
                __protocol.write_faststr((key).clone())?;
                ::std::result::Result::Ok(())
            }, |__protocol, val| {
                __protocol.write_i32(*val)?;
                ::std::result::Result::Ok(())
            })?;
                ::std::result::Result::Ok(())
            })?;
                    }if let Some(value) = self.d3.as_ref() {
                        __protocol.write_list_field(17, ::pilota::thrift::TType::Map, &value, |__protocol, val| {
                        __protocol.write_map(::pilota::thrift::TType::Binary, ::pilota::thrift::TType::I32, &val, |__protocol, key| {
                __protocol.write_faststr((key).clone())?;
                ::std::result::Result::Ok(())
            }, |__protocol, val| {
                __protocol.write_i32(*val)?;
                ::std::result::Result::Ok(())
            })?;
                        ::std::result::Result::Ok(())
                    })?;
                    }for bytes in self._unknown_fields.list.iter() {
                                __protocol.write_bytes_without_len(bytes.clone());
                            }
                __protocol.write_field_stop()?;
                __protocol.write_struct_end()?;
                ::std::result::Result::Ok(())

                }

                fn decode<T: ::pilota::thrift::TInputProtocol>(
                    __protocol: &mut T,
                ) -> ::std::result::Result<Self,::pilota::thrift::ThriftException>  {
                    #[allow(unused_imports)]
                    use ::pilota::{thrift::TLengthProtocolExt, Buf};


            let mut var_3 = None;let mut var_1026 = None;let mut var_4 = None;let mut var_17 = None;let mut _unknown_fields = ::pilota::LinkedBytes::new();

            let mut __pilota_decoding_field_id = None;

            __protocol.read_struct_begin()?;
            if let ::std::result::Result::Err(mut err) = (|| {
                    loop {

                let mut __pilota_offset = 0;
            let __pilota_begin_ptr = __protocol.buf().chunk().as_ptr();
                let field_ident = __protocol.read_field_begin()?;
                if field_ident.field_type == ::pilota::thrift::TType::Stop {
                    __pilota_offset += __protocol.field_stop_len();
                    break;
                } else {
                    __pilota_offset += __protocol.field_begin_len(field_ident.field_type, field_ident.id);
                }
                __pilota_decoding_field_id = field_ident.id;
                match field_ident.id {
                    Some(3) if field_ident.field_type == ::pilota::thrift::TType::List  => {
                    var_3 = Some(unsafe {
                            let list_ident = __protocol.read_list_begin()?;
                            let mut val: ::std::vec::Vec<::std::vec::Vec<i32>> = ::std::vec::Vec::with_capacity(list_ident.size);
                            for i in 0..list_ident.size {
                                val.as_mut_ptr().offset(i as isize).write(unsafe {
                            let list_ident = __protocol.read_list_begin()?;
                            let mut val: ::std::vec::Vec<i32> = ::std::vec::Vec::with_capacity(list_ident.size);
                            for i in 0..list_ident.size {
                                val.as_mut_ptr().offset(i as isize).write(__protocol.read_i32()?);
                            };
                            val.set_len(list_ident.size);
                            __protocol.read_list_end()?;
                            val
                        });
                            };
                            val.set_len(list_ident.size);
                            __protocol.read_list_end()?;
                            val
                        });

                },Some(1026) if field_ident.field_type == ::pilota::thrift::TType::I32  => {
                    var_1026 = Some(__protocol.read_i32()?);

                },Some(4) if field_ident.field_type == ::pilota::thrift::TType::Map  => {
                    var_4 = Some({
                        let map_ident = __protocol.read_map_begin()?;
                        let mut val = ::pilota::AHashMap::with_capacity(map_ident.size);
                        for _ in 0..map_ident.size {
                            val.insert(__protocol.read_faststr()?, {
                        let map_ident = __protocol.read_map_begin()?;
                        let mut val = ::pilota::AHashMap::with_capacity(map_ident.size);
                        for _ in 0..map_ident.size {
                            val.insert(__protocol.read_faststr()?, __protocol.read_i32()?);
                        }
                        __protocol.read_map_end()?;
                        val
                    });
                        }
                        __protocol.read_map_end()?;
                        val
                    });

                },Some(17) if field_ident.field_type == ::pilota::thrift::TType::List  => {
                    var_17 = Some(unsafe {
                            let list_ident = __protocol.read_list_begin()?;
                            let mut val: ::std::vec::Vec<::pilota::AHashMap<::pilota::FastStr, i32>> = ::std::vec::Vec::with_capacity(list_ident.size);
                            for i in 0..list_ident.size {
                                val.as_mut_ptr().offset(i as isize).write({
                        let map_ident = __protocol.read_map_begin()?;
                        let mut val = ::pilota::AHashMap::with_capacity(map_ident.size);
                        for _ in 0..map_ident.size {
                            val.insert(__protocol.read_faststr()?, __protocol.read_i32()?);
                        }
                        __protocol.read_map_end()?;
                        val
                    });
                            };
                            val.set_len(list_ident.size);
                            __protocol.read_list_end()?;
                            val
                        });

                },
                    _ => {
                        __pilota_offset += __protocol.skip(field_ident.field_type)?;
                        _unknown_fields.push_back(__protocol.get_bytes(Some(__pilota_begin_ptr), __pilota_offset)?);
                    },
                }

                __protocol.read_field_end()?;
                __pilota_offset += __protocol.field_end_len();

            };
                    ::std::result::Result::Ok::<_, ::pilota::thrift::ThriftException>(())
                })() {
                if let Some(field_id) = __pilota_decoding_field_id {
                    err.prepend_msg(&format!("decode struct `Df23` field(#{}) failed, caused by: ", field_id));
                }
                return ::std::result::Result::Err(err);
            };
            __protocol.read_struct_end()?;



            if var_3.is_none() {
                                var_3 = Some(::std::vec![::std::vec![1i32],::std::vec![1i32]]);
                            }
if var_4.is_none() {
                                var_4 = Some({
                    let mut map = ::pilota::AHashMap::with_capacity(1);
                    map.insert(::pilota::FastStr::from_static_str("o"), {
                    let mut map = ::pilota::AHashMap::with_capacity(1);
                    map.insert(::pilota::FastStr::from_static_str("i"), 9i32);
                    map
                });
                    map
                });
                            }
if var_17.is_none() {
                                var_17 = Some(::std::vec![{
                    let mut map = ::pilota::AHashMap::with_capacity(1);
                    map.insert(::pilota::FastStr::from_static_str("a"), 1i32);
                    map
                },{
                    let mut map = ::pilota::AHashMap::with_capacity(0);

                    map
                }]);
                            }

            let data = Self {
                d1: var_3,plain: var_1026,d2: var_4,d3: var_17, _unknown_fields
            };
            ::std::result::Result::Ok(data)

                }

                fn decode_async<'a, T: ::pilota::thrift::TAsyncInputProtocol>(
            __protocol: &'a mut T,
        ) -> ::std::pin::Pin<::std::boxed::Box<dyn ::std::future::Future<Output = ::std::result::Result<Self, ::pilota::thrift::ThriftException>> + Send + 'a>> {
            ::std::boxed::Box::pin(async move {


            let mut var_3 = None;let mut var_1026 = None;let mut var_4 = None;let mut var_17 = None;

            let mut __pilota_decoding_field_id = None;

            __protocol.read_struct_begin().await?;
            if let ::std::result::Result::Err(mut err) = async {
                    loop {


                let field_ident = __protocol.read_field_begin().await?;
                if field_ident.field_type == ::pilota::thrift::TType::Stop {

                    break;
                } else {

                }
                __pilota_decoding_field_id = field_ident.id;
                match field_ident.id {
                    Some(3) if field_ident.field_type == ::pilota::thrift::TType::List  => {
                    var_3 = Some({
                            let list_ident = __protocol.read_list_begin().await?;
                            let mut val = ::std::vec::Vec::with_capacity(list_ident.size);
                            for _ in 0..list_ident.size {
                                val.push({
                            let list_ident = __protocol.read_list_begin().await?;
                            let mut val = ::std::vec::Vec::with_capacity(list_ident.size);
                            for _ in 0..list_ident.size {
                                val.push(__protocol.read_i32().await?);
                            };
                            __protocol.read_list_end().await?;
                            val
                        });
                            };
                            __protocol.read_list_end().await?;
                            val
                        });

                },Some(1026) if field_ident.field_type == ::pilota::thrift::TType::I32  => {
                    var_1026 = Some(__protocol.read_i32().await?);

                },Some(4) if field_ident.field_type == ::pilota::thrift::TType::Map  => {
                    var_4 = Some({
                        let map_ident = __protocol.read_map_begin().await?;
                        let mut val = ::pilota::AHashMap::with_capacity(map_ident.size);
                        for _ in 0..map_ident.size {
                            val.insert(__protocol.read_faststr().await?, {
                        let map_ident = __protocol.read_map_begin().await?;
                        let mut val = ::pilota::AHashMap::with_capacity(map_ident.size);
                        for _ in 0..map_ident.size {
                            val.insert(__protocol.read_faststr().await?, __protocol.read_i32().await?);
                        }
                        __protocol.read_map_end().await?;
                        val
                    });
                        }
                        __protocol.read_map_end().await?;
                        val
                    });

                },Some(17) if field_ident.field_type == ::pilota::thrift::TType::List  => {
                    var_17 = Some({
                            let list_ident = __protocol.read_list_begin().await?;
                            let mut val = ::std::vec::Vec::with_capacity(list_ident.size);
                            for _ in 0..list_ident.size {
                                val.push({
                        let map_ident = __protocol.read_map_begin().await?;
                        let mut val = ::pilota::AHashMap::with_capacity(map_ident.size);
                        for _ in 0..map_ident.size {
                            val.insert(__protocol.read_faststr().await?, __protocol.read_i32().await?);
                        }
                        __protocol.read_map_end().await?;
                        val
                    });
                            };
                            __protocol.read_list_end().await?;
                            val
                        });

                },
                    _ => {
                        __protocol.skip(field_ident.field_type).await?;

                    },
                }

                __protocol.read_field_end().await?;


            };
                    ::std::result::Result::Ok::<_, ::pilota::thrift::ThriftException>(())
                }.await {
                if let Some(field_id) = __pilota_decoding_field_id {
                    err.prepend_msg(&format!("decode struct `Df23` field(#{}) failed, caused by: ", field_id));
                }
                return ::std::result::Result::Err(err);
            };
            __protocol.read_struct_end().await?;



            if var_3.is_none() {
                                var_3 = Some(::std::vec![::std::vec![1i32],::std::vec![1i32]]);
                            }
if var_4.is_none() {
                                var_4 = Some({
                    let mut map = ::pilota::AHashMap::with_capacity(1);
                    map.insert(::pilota::FastStr::from_static_str("o"), {
                    let mut map = ::pilota::AHashMap::with_capacity(1);
                    map.insert(::pilota::FastStr::from_static_str("i"), 9i32);
                    map
                });
                    map
                });
                            }
if var_17.is_none() {
                                var_17 = Some(::std::vec![{
                    let mut map = ::pilota::AHashMap::with_capacity(1);
                    map.insert(::pilota::FastStr::from_static_str("a"), 1i32);
                    map
                },{
                    let mut map = ::pilota::AHashMap::with_capacity(0);

                    map
                }]);
                            }

            let data = Self {
                d1: var_3,plain: var_1026,d2: var_4,d3: var_17, _unknown_fields: ::pilota::LinkedBytes::new()
            };
            ::std::result::Result::Ok(data)

            })
        }

                fn size<T: ::pilota::thrift::TLengthProtocol>(&self, __protocol: &mut T) -> usize {
                    #[allow(unused_imports)]
                    use ::pilota::thrift::TLengthProtocolExt;
                    __protocol.struct_begin_len(&::pilota::thrift::TStructIdentifier {
                    name: "Df23",
                }) + self.d1.as_ref().map_or(0, |value| __protocol.list_field_len(Some(3), ::pilota::thrift::TType::List, value, |__protocol, el| {
                        __protocol.list_len(::pilota::thrift::TType::I32, el, |__protocol, el| {
                        __protocol.i32_len(*el)
                    })
                    })) +self.plain.as_ref().map_or(0, |value| __protocol.i32_field_len(Some(1026), *value)) +self.d2.as_ref().map_or(0, |value| __protocol.map_field_len(Some(4), ::pilota::thrift::TType::Binary, ::pilota::thrift::TType::Map, value, |__protocol, key| {
                __protocol.faststr_len(key)
            }, |__protocol, val| {
                __protocol.map_len(::pilota::thrift::TType::Binary, ::pilota::thrift::TType::I32, val, |__protocol, key| {
                __protocol.faststr_len(key)
            }, |__protocol, val| {
                __protocol.i32_len(*val)
            })
            })) +self.d3.as_ref().map_or(0, |value| __protocol.list_field_len(Some(17), ::pilota::thrift::TType::Map, value, |__protocol, el| {
                        __protocol.map_len(::pilota::thrift::TType::Binary, ::pilota::thrift::TType::I32, el, |__protocol, key| {
                __protocol.faststr_len(key)
            }, |__protocol, val| {
                __protocol.i32_len(*val)
            })
                    })) +self._unknown_fields.size() + __protocol.field_stop_len() + __protocol.struct_end_len()
                }
            }
                                impl ::std::default::Default for DfReq {
                                    fn default() -> Self {
                                        DfReq {
                                            first: Some(11i32),
must: ::std::default::Default::default(),
tags: Some(::std::vec![::pilota::FastStr::from_static_str("t")]),
_unknown_fields: ::pilota::LinkedBytes::new()
                                        }
                                    }
                                }
                            #[derive(PartialOrd)]
#[derive(Hash, Eq, Ord)]
#[derive(Debug)]#[derive(Clone, PartialEq)]
                pub struct DfReq {

                        pub first: ::std::option::Option<i32>,

                        pub must: ::pilota::FastStr,

                        pub tags: ::std::option::Option<::std::vec::Vec<::pilota::FastStr>>,pub _unknown_fields: ::pilota::LinkedBytes,
                }
            impl ::pilota::thrift::Message for DfReq {
                fn encode<T: ::pilota::thrift::TOutputProtocol>(
                    &self,
                    __protocol: &mut T,
                ) -> ::std::result::Result<(),::pilota::thrift::ThriftException> {
                    #[allow(unused_imports)]
                    use ::pilota::thrift::TOutputProtocolExt;
                    let struct_ident =::pilota::thrift::TStructIdentifier {
                    name: "DfReq",
                };

                __protocol.write_struct_begin(&struct_ident)?;
                if let Some(value) = self.first.as_ref() {
                        __protocol.write_i32_field(1, *value)?;
                    }__protocol.write_faststr_field(2, (&self.must).clone())?;if let Some(value) = self.tags.as_ref() {
                        __protocol.write_list_field(3, ::pilota::thrift::TType::Binary, &value, |__protocol, val| {
                        __protocol.write_faststr((val).clone())?;
                        ::std::result::Result::Ok(())
                    })?;
                    }for bytes in self._unknown_fields.list.iter() {
                                __protocol.write_bytes_without_len(bytes.clone());
                            }
                __protocol.write_field_stop()?;
                __protocol.write_struct_end()?;
                ::std::result::Result::Ok(())

                }

                fn decode<T: ::pilota::thrift::TInputProtocol>(
                    __protocol: &mut T,
                ) -> ::std::result::Result<Self,::pilota::thrift::ThriftException>  {
                    #[allow(unused_imports)]
                    use ::pilota::{thrift::TLengthProtocolExt, Buf};


            let mut var_1 = Some(11i32);let mut var_2 = None;let mut var_3 = None;let mut _unknown_fields = ::pilota::LinkedBytes::new();

            let mut __pilota_decoding_field_id = None;

            __protocol.read_struct_begin()?;
            if let ::std::result::Result::Err(mut err) = (|| {
                    loop {

                let mut __pilota_offset = 0;
            let __pilota_begin_ptr = __protocol.buf().chunk().as_ptr();
                let field_ident = __protocol.read_field_begin()?;
                if field_ident.field_type == ::pilota::thrift::TType::Stop {
                    __pilota_offset += __protocol.field_stop_len();
                    break;
                } else {
                    __pilota_offset += __protocol.field_begin_len(field_ident.field_type, field_ident.id);
                }
                __pilota_decoding_field_id = field_ident.id;
                match field_ident.id {
                    Some(1) if field_ident.field_type == ::pilota::thrift::TType::I32  => {
                    var_1 = Some(__protocol.read_i32()?);

                },Some(2) if field_ident.field_type == ::pilota::thrift::TType::Binary  => {
                    var_2 = Some(__protocol.read_faststr()?);

                },Some(3) if field_ident.field_type == ::pilota::thrift::TType::List  => {
                    var_3 = Some(unsafe {
                            let list_ident = __protocol.read_list_begin()?;
                            let mut val: ::std::vec::Vec<::pilota::FastStr> = ::std::vec::Vec::with_capacity(list_ident.size);
                            for i in 0..list_ident.size {
                                val.as_mut_ptr().offset(i as isize).write(__protocol.read_faststr()?);
                            };
                            val.set_len(list_ident.size);
                            __protocol.read_list_end()?;
                            val
                        });

                },
                    _ => {
                        __pilota_offset += __protocol.skip(field_ident.field_type)?;
                        _unknown_fields.push_back(__protocol.get_bytes(Some(__pilota_begin_ptr), __pilota_offset)?);
                    },
                }

                __protocol.read_field_end()?;
                __pilota_offset += __protocol.field_end_len();

            };
                    ::std::result::Result::Ok::<_, ::pilota::thrift::ThriftException>(())
                })() {
                if let Some(field_id) = __pilota_decoding_field_id {
                    err.prepend_msg(&format!("decode struct `DfReq` field(#{}) failed, caused by: ", field_id));
                }
                return ::std::result::Result::Err(err);
            };
            __protocol.read_struct_end()?;

            let Some(var_2) = var_2 else {
                return ::std::result::Result::Err(
                    ::pilota::thrift::new_protocol_exception(
                        ::pilota::thrift::ProtocolExceptionKind::InvalidData,
                            "field must is required".to_string()
                    )
                )
            };

            if var_3.is_none() {
                                var_3 = Some(::std::vec![::pilota::FastStr::from_static_str("t")]);
                            }

            let data = Self {
                first: var_1,must: var_2,tags: var_3, _unknown_fields
            };
            ::std::result::Result::Ok(data)

                }

                fn decode_async<'a, T: ::pilota::thrift::TAsyncInputProtocol>(
            __protocol: &'a mut T,
        ) -> ::std::pin::Pin<::std::boxed::Box<dyn ::std::future::Future<Output = ::std::result::Result<Self, ::pilota::thrift::ThriftException>> + Send + 'a>> {
            ::std::boxed::Box::pin(async move {


            let mut var_1 = Some(11i32);let mut var_2 = None;let mut var_3 = None;

            let mut __pilota_decoding_field_id = None;

            __protocol.read_struct_begin().await?;
            if let ::std::result::Result::Err(mut err) = async {
                    loop {


                let field_ident = __protocol.read_field_begin().await?;
                if field_ident.field_type == ::pilota::thrift::TType::Stop {

                    break;
                } else {

                }
                __pilota_decoding_field_id = field_ident.id;
                match field_ident.id {
                    Some(1) if field_ident.field_type == ::pilota::thrift::TType::I32  => {
                    var_1 = Some(__protocol.read_i32().await?);

                },Some(2) if field_ident.field_type == ::pilota::thrift::TType::Binary  => {
                    var_2 = Some(__protocol.read_faststr().await?);

                },Some(3) if field_ident.field_type == ::pilota::thrift::TType::List  => {
                    var_3 = Some({
                            let list_ident = __protocol.read_list_begin().await?;
                            let mut val = ::std::vec::Vec::with_capacity(list_ident.size);
                            for _ in 0..list_ident.size {
                                val.push(__protocol.read_faststr().await?);
                            };
                            __protocol.read_list_end().await?;
                            val
                        });

                },
                    _ => {
                        __protocol.skip(field_ident.field_type).await?;

                    },
                }

                __protocol.read_field_end().await?;


            };
                    ::std::result::Result::Ok::<_, ::pilota::thrift::ThriftException>(())
                }.await {
                if let Some(field_id) = __pilota_decoding_field_id {
                    err.prepend_msg(&format!("decode struct `DfReq` field(#{}) failed, caused by: ", field_id));
                }
                return ::std::result::Result::Err(err);
            };
            __protocol.read_struct_end().await?;

            let Some(var_2) = var_2 else {
                return ::std::result::Result::Err(
                    ::pilota::thrift::new_protocol_exception(
                        ::pilota::thrift::ProtocolExceptionKind::InvalidData,
                            "field must is required".to_string()
                    )
                )
            };

            if var_3.is_none() {
                                var_3 = Some(::std::vec![::pilota::FastStr::from_static_str("t")]);
                            }

            let data = Self {
                first: var_1,must: var_2,tags: var_3, _unknown_fields: ::pilota::LinkedBytes::new()
            };
            ::std::result::Result::Ok(data)

            })
        }

                fn size<T: ::pilota::thrift::TLengthProtocol>(&self, __protocol: &mut T) -> usize {
                    #[allow(unused_imports)]
                    use ::pilota::thrift::TLengthProtocolExt;
                    __protocol.struct_begin_len(&::pilota::thrift::TStructIdentifier {
                    name: "DfReq",
                }) + self.first.as_ref().map_or(0, |value| __protocol.i32_field_len(Some(1), *value)) +__protocol.faststr_field_len(Some(2), &self.must) +self.tags.as_ref().map_or(0, |value| __protocol.list_field_len(Some(3), ::pilota::thrift::TType::Binary, value, |__protocol, el| {
                        __protocol.faststr_len(el)
                    })) +self._unknown_fields.size() + __protocol.field_stop_len() + __protocol.struct_end_len()
                }
            }#[derive(PartialOrd)]
#[derive(Hash, Eq, Ord)]
#[derive(Debug)]
#[derive(Default)]#[derive(Clone, PartialEq)]
                pub struct MutB {

                        pub a: ::std::option::Option<::std::boxed::Box<MutA>>,

                        pub y: ::std::option::Option<bool>,pub _unknown_fields: ::pilota::LinkedBytes,
                }
            impl ::pilota::thrift::Message for MutB {
                fn encode<T: ::pilota::thrift::TOutputProtocol>(
                    &self,
                    __protocol: &mut T,
                ) -> ::std::result::Result<(),::pilota::thrift::ThriftException> {
                    #[allow(unused_imports)]
                    use ::pilota::thrift::TOutputProtocolExt;
                    let struct_ident =::pilota::thrift::TStructIdentifier {
                    name: "MutB",
                };

                __protocol.write_struct_begin(&struct_ident)?;
                if let Some(value) = self.a.as_ref() {
                        __protocol.write_struct_field(1, value, ::pilota::thrift::TType::Struct)?;
                    }if let Some(value) = self.y.as_ref() {
                        __protocol.write_bool_field(3, *value)?;
                    }for bytes in self._unknown_fields.list.iter() {
                                __protocol.write_bytes_without_len(bytes.clone());
                            }
                __protocol.write_field_stop()?;
                __protocol.write_struct_end()?;
                ::std::result::Result::Ok(())

                }

                fn decode<T: ::pilota::thrift::TInputProtocol>(
                    __protocol: &mut T,
                ) -> ::std::result::Result<Self,::pilota::thrift::ThriftException>  {
                    #[allow(unused_imports)]
                    use ::pilota::{thrift::TLengthProtocolExt, Buf};


            let mut var_1 = None;let mut var_3 = None;let mut _unknown_fields = ::pilota::LinkedBytes::new();

            let mut __pilota_decoding_field_id = None;

            __protocol.read_struct_begin()?;
            if let ::std::result::Result::Err(mut err) = (|| {
                    loop {

                let mut __pilota_offset = 0;
            let __pilota_begin_ptr = __protocol.buf().chunk().as_ptr();
                let field_ident = __protocol.read_field_begin()?;
                if field_ident.field_type == ::pilota::thrift::TType::Stop {
                    __pilota_offset += __protocol.field_stop_len();
                    break;
                } else {
                    __pilota_offset += __protocol.field_begin_len(field_ident.field_type, field_ident.id);
                }
                __pilota_decoding_field_id = field_ident.id;
                match field_ident.id {
                    Some(1) if field_ident.field_type == ::pilota::thrift::TType::Struct  => {
                    var_1 = Some(::std::boxed::Box::new(::pilota::thrift::Message::decode(__protocol)?));

                },Some(3) if field_ident.field_type == ::pilota::thrift::TType::Bool  => {
                    var_3 = Some(__protocol.read_bool()?);

                },
                    _ => {
                        __pilota_offset += __protocol.skip(field_ident.field_type)?;
                        _unknown_fields.push_back(__protocol.get_bytes(Some(__pilota_begin_ptr), __pilota_offset)?);
                    },
                }

                __protocol.read_field_end()?;
                __pilota_offset += __protocol.field_end_len();

            };
                    ::std::result::Result::Ok::<_, ::pilota::thrift::ThriftException>(())
                })() {
                if let Some(field_id) = __pilota_decoding_field_id {
                    err.prepend_msg(&format!("decode struct `MutB` field(#{}) failed, caused by: ", field_id));
                }
                return ::std::result::Result::Err(err);
            };
            __protocol.read_struct_end()?;





            let data = Self {
                a: var_1,y: var_3, _unknown_fields
            };
            ::std::result::Result::Ok(data)

                }

                fn decode_async<'a, T: ::pilota::thrift::TAsyncInputProtocol>(
            __protocol: &'a mut T,
        ) -> ::std::pin::Pin<::std::boxed::Box<dyn ::std::future::Future<Output = ::std::result::Result<Self, ::pilota::thrift::ThriftException>> + Send + 'a>> {
            ::std::boxed::Box::pin(async move {


            let mut var_1 = None;let mut var_3 = None;

            let mut __pilota_decoding_field_id = None;

            __protocol.read_struct_begin().await?;
            if let ::std::result::Result::Err(mut err) = async {
                    loop {


                let field_ident = __protocol.read_field_begin().await?;
                if field_ident.field_type == ::pilota::thrift::TType::Stop {

                    break;
                } else {

                }
                __pilota_decoding_field_id = field_ident.id;
                match field_ident.id {
                    Some(1) if field_ident.field_type == ::pilota::thrift::TType::Struct  => {
                    var_1 = Some(::std::boxed::Box::new(<MutA as ::pilota::thrift::Message>::decode_async(__protocol).await?));

                },Some(3) if field_ident.field_type == ::pilota::thrift::TType::Bool  => {
                    var_3 = Some(__protocol.read_bool().await?);

                },
                    _ => {
                        __protocol.skip(field_ident.field_type).await?;

                    },
                }

                __protocol.read_field_end().await?;


            };
                    ::std::result::Result::Ok::<_, ::pilota::thrift::ThriftException>(())
                }.await {
                if let Some(field_id) = __pilota_decoding_field_id {
                    err.prepend_msg(&format!("decode struct `MutB` field(#{}) failed, caused by: ", field_id));
                }
                return ::std::result::Result::Err(err);
            };
            __protocol.read_struct_end().await?;





            let data = Self {
                a: var_1,y: var_3, _unknown_fields: ::pilota::LinkedBytes::new()
            };
            ::std::result::Result::Ok(data)

            })
        }

                fn size<T: ::pilota::thrift::TLengthProtocol>(&self, __protocol: &mut T) -> usize {
                    #[allow(unused_imports)]
                    use ::pilota::thrift::TLengthProtocolExt;
                    __protocol.struct_begin_len(&::pilota::thrift::TStructIdentifier {
                    name: "MutB",
                }) + self.a.as_ref().map_or(0, |value| __protocol.struct_field_len(Some(1), value)) +self.y.as_ref().map_or(0, |value| __protocol.bool_field_len(Some(3), *value)) +self._unknown_fields.size() + __protocol.field_stop_len() + __protocol.struct_end_len()
                }
            }
                                impl ::std::default::Default for Df54 {
                                    fn default() -> Self {
                                        Df54 {
                                            d1: 2f64,
plain: ::std::default::Default::default(),
d2: 16777217f64,
d3: 123456789f64,
_unknown_fields: ::pilota::LinkedBytes::new()
                                        }
                                    }
                                }
                            #[derive(PartialOrd)]
#[derive(Debug)]#[derive(Clone, PartialEq)]
                pub struct Df54 {

                        pub d1: f64,

                        pub plain: ::std::option::Option<i32>,

                        pub d2: f64,

                        pub d3: f64,pub _unknown_fields: ::pilota::LinkedBytes,
                }
            impl ::pilota::thrift::Message for Df54 {
                fn encode<T: ::pilota::thrift::TOutputProtocol>(
                    &self,
                    __protocol: &mut T,
                ) -> ::std::result::Result<(),::pilota::thrift::ThriftException> {
                    #[allow(unused_imports)]
                    use ::pilota::thrift::TOutputProtocolExt;
                    let struct_ident =::pilota::thrift::TStructIdentifier {
                    name: "Df54",
                };

                __protocol.write_struct_begin(&struct_ident)?;
                __protocol.write_double_field(5, *&self.d1)?;if let Some(value) = self.plain.as_ref() {
                        __protocol.write_i32_field(1059, *value)?;
                    }__protocol.write_double_field(20, *&self.d2)?;__protocol.write_double_field(21, *&self.d3)?;for bytes in self._unknown_fields.list.iter() {
                                __protocol.write_bytes_without_len(bytes.clone());
                            }
                __protocol.write_field_stop()?;
                __protocol.write_struct_end()?;
                ::std::result::Result::Ok(())

                }

                fn decode<T: ::pilota::thrift::TInputProtocol>(
                    __protocol: &mut T,
                ) -> ::std::result::Result<Self,::pilota::thrift::ThriftException>  {
                    #[allow(unused_imports)]
                    use ::pilota::{thrift::TLengthProtocolExt, Buf};


            let mut var_5 = 2f64;let mut var_1059 = None;let mut var_20 = 16777217f64;let mut var_21 = 123456789f64;let mut _unknown_fields = ::pilota::LinkedBytes::new();

            let mut __pilota_decoding_field_id = None;

            __protocol.read_struct_begin()?;
            if let ::std::result::Result::Err(mut err) = (|| {
                    loop {

                let mut __pilota_offset = 0;
            let __pilota_begin_ptr = __protocol.buf().chunk().as_ptr();
                let field_ident = __protocol.read_field_begin()?;
                if field_ident.field_type == ::pilota::thrift::TType::Stop {
                    __pilota_offset += __protocol.field_stop_len();
                    break;
                } else {
                    __pilota_offset += __protocol.field_begin_len(field_ident.field_type, field_ident.id);
                }
                __pilota_decoding_field_id = field_ident.id;
                match field_ident.id {
                    Some(5) if field_ident.field_type == ::pilota::thrift::TType::Double  => {
                    var_5 = __protocol.read_double()?;

                },Some(1059) if field_ident.field_type == ::pilota::thrift::TType::I32  => {
                    var_1059 = Some(__protocol.read_i32()?);

                },Some(20) if field_ident.field_type == ::pilota::thrift::TType::Double  => {
                    var_20 = __protocol.read_double()?;

                },Some(21) if field_ident.field_type == ::pilota::thrift::TType::Double  => {
                    var_21 = __protocol.read_double()?;

                },
                    _ => {
                        __pilota_offset += __protocol.skip(field_ident.field_type)?;
                        _unknown_fields.push_back(__protocol.get_bytes(Some(__pilota_begin_ptr), __pilota_offset)?);
                    },
                }

                __protocol.read_field_end()?;
                __pilota_offset += __protocol.field_end_len();

            };
                    ::std::result::Result::Ok::<_, ::pilota::thrift::ThriftException>(())
                })() {
                if let Some(field_id) = __pilota_decoding_field_id {
                    err.prepend_msg(&format!("decode struct `Df54` field(#{}) failed, caused by: ", field_id));
                }
                return ::std::result::Result::Err(err);
            };
            __protocol.read_struct_end()?;





            let data = Self {
                d1: var_5,plain: var_1059,d2: var_20,d3: var_21, _unknown_fields
            };
            ::std::result::Result::Ok(data)

                }

                fn decode_async<'a, T: ::pilota::thrift::TAsyncInputProtocol>(
            __protocol: &'a mut T,
        ) -> ::std::pin::Pin<::std::boxed::Box<dyn ::std::future::Future<Output = ::std::result::Result<Self, ::pilota::thrift::ThriftException>> + Send + 'a>> {
            ::std::boxed::Box::pin(async move {


            let mut var_5 = 2f64;let mut var_1059 = None;let mut var_20 = 16777217f64;let mut var_21 = 123456789f64;

            let mut __pilota_decoding_field_id = None;

            __protocol.read_struct_begin().await?;
            if let ::std::result::Result::Err(mut err) = async {
                    loop {


                let field_ident = __protocol.read_field_begin().await?;
                if field_ident.field_type == ::pilota::thrift::TType::Stop {

                    break;
                } else {

                }
                __pilota_decoding_field_id = field_ident.id;
                match field_ident.id {
                    Some(5) if field_ident.field_type == ::pilota::thrift::TType::Double  => {
                    var_5 = __protocol.read_double().await?;

                },Some(1059) if field_ident.field_type == ::pilota::thrift::TType::I32  => {
                    var_1059 = Some(__protocol.read_i32().await?);

                },Some(20) if field_ident.field_type == ::pilota::thrift::TType::Double  => {
                    var_20 = __protocol.read_double().await?;

                },Some(21) if field_ident.field_type == ::pilota::thrift::TType::Double  => {
                    var_21 = __protocol.read_double().await?;

                },
                    _ => {
                        __protocol.skip(field_ident.field_type).await?;

                    },
                }

                __protocol.read_field_end().await?;


            };
                    ::std::result::Result::Ok::<_, ::pilota::thrift::ThriftException>(())
                }.await {
                if let Some(field_id) = __pilota_decoding_field_id {
                    err.prepend_msg(&format!("decode struct `Df54` field(#{}) failed, caused by: ", field_id));
                }
                return ::std::result::Result::Err(err);
            };
            __protocol.read_struct_end().await?;





            let data = Self {
                d1: var_5,plain: var_1059,d2: var_20,d3: var_21, _unknown_fields: ::pilota::LinkedBytes::new()
            };
            ::std::result::Result::Ok(data)

            })
        }

                fn size<T: ::pilota::thrift::TLengthProtocol>(&self, __protocol: &mut T) -> usize {
                    #[allow(unused_imports)]
                    use ::pilota::thrift::TLengthProtocolExt;
                    __protocol.struct_begin_len(&::pilota::thrift::TStructIdentifier {
                    name: "Df54",
                }) + __protocol.double_field_len(Some(5), *&self.d1)  +self.plain.as_ref().map_or(0, |value| __protocol.i32_field_len(Some(1059), *value)) +__protocol.double_field_len(Some(20), *&self.d2)  +__protocol.double_field_len(Some(21), *&self.d3)  +self._unknown_fields.size() + __protocol.field_stop_len() + __protocol.struct_end_len()
                }
            }
                                impl ::std::default::Default for Df30 {
                                    fn default() -> Self {
                                        Df30 {
                                            d1: Some(2f64),
plain: ::std::default::Default::default(),
d2: Some(16777217f64),
d3: Some(123456789f64),
_unknown_fields: ::pilota::LinkedBytes::new()
                                        }
                                    }
                                }
                            #[derive(PartialOrd)]
#[derive(Debug)]#[derive(Clone, PartialEq)]
                pub struct Df30 {

                        pub d1: ::std::option::Option<f64>,

                        pub plain: ::std::option::Option<i32>,

                        pub d2: ::std::option::Option<f64>,

                        pub d3: ::std::option::Option<f64>,pub _unknown_fields: ::pilota::LinkedBytes,
                }
            impl ::pilota::thrift::Message for Df30 {
                fn encode<T: ::pilota::thrift::TOutputProtocol>(
                    &self,
                    __protocol: &mut T,
                ) -> ::std::result::Result<(),::pilota::thrift::ThriftException> {
                    #[allow(unused_imports)]
                    use ::pilota::thrift::TOutputProtocolExt;
                    let struct_ident =::pilota::thrift::TStructIdentifier {
                    name: "Df30",
                };

                __protocol.write_struct_begin(&struct_ident)?;
                if let Some(value) = self.d1.as_ref() {
                        __protocol.write_double_field(1, *value)?;
                    }if let Some(value) = self.plain.as_ref() {
                        __protocol.write_i32_field(1031, *value)?;
                    }if let Some(value) = self.d2.as_ref() {
                        __protocol.write_double_field(15, *value)?;
                    }if let Some(value) = self.d3.as_ref() {
                        __protocol.write_double_field(16, *value)?;
                    }for bytes in self._unknown_fields.list.iter() {
                                __protocol.write_bytes_without_len(bytes.clone());
                            }
                __protocol.write_field_stop()?;
                __protocol.write_struct_end()?;
                ::std::result::Result::Ok(())

                }

                fn decode<T: ::pilota::thrift::TInputProtocol>(
                    __protocol: &mut T,
                ) -> ::std::result::Result<Self,::pilota::thrift::ThriftException>  {
                    #[allow(unused_imports)]
                    use ::pilota::{thrift::TLengthProtocolExt, Buf};


            let mut var_1 = Some(2f64);let mut var_1031 = None;let mut var_15 = Some(16777217f64);let mut var_16 = Some(123456789f64);let mut _unknown_fields = ::pilota::LinkedBytes::new();

            let mut __pilota_decoding_field_id = None;

            __protocol.read_struct_begin()?;
            if let ::std::result::Result::Err(mut err) = (|| {
                    loop {

                let mut __pilota_offset = 0;
            let __pilota_begin_ptr = __protocol.buf().chunk().as_ptr();
                let field_ident = __protocol.read_field_begin()?;
                if field_ident.field_type == ::pilota::thrift::TType::Stop {
                    __pilota_offset += __protocol.field_stop_len();
                    break;
                } else {
                    __pilota_offset += __protocol.field_begin_len(field_ident.field_type, field_ident.id);
                }
                __pilota_decoding_field_id = field_ident.id;
                match field_ident.id {
                    Some(1) if field_ident.field_type == ::pilota::thrift::TType::Double  => {
                    var_1 = Some(__protocol.read_double()?);

                },Some(1031) if field_ident.field_type == ::pilota::thrift::TType::I32  => {
                    var_1031 = Some(__protocol.read_i32()?);

                },Some(15) if field_ident.field_type == ::pilota::thrift::TType::Double  => {
                    var_15 = Some(__protocol.read_double()?);

                },Some(16) if field_ident.field_type == ::pilota::thrift::TType::Double  => {
                    var_16 = Some(__protocol.read_double()?);

                },
                    _ => {
                        __pilota_offset += __protocol.skip(field_ident.field_type)?;
                        _unknown_fields.push_back(__protocol.get_bytes(Some(__pilota_begin_ptr), __pilota_offset)?);
                    },
                }

                __protocol.read_field_end()?;
                __pilota_offset += __protocol.field_end_len();

            };
                    ::std::result::Result::Ok::<_, ::pilota::thrift::ThriftException>(())
                })() {
                if let Some(field_id) = __pilota_decoding_field_id {
                    err.prepend_msg(&format!("decode struct `Df30` field(#{}) failed, caused by: ", field_id));
                }
                return ::std::result::Result::Err(err);
            };
            __protocol.read_struct_end()?;





            let data = Self {
                d1: var_1,plain: var_1031,d2: var_15,d3: var_16, _unknown_fields
            };
            ::std::result::Result::Ok(data)

                }

                fn decode_async<'a, T: ::pilota::thrift::TAsyncInputProtocol>(
            __protocol: &'a mut T,
        ) -> ::std::pin::Pin<::std::boxed::Box<dyn ::std::future::Future<Output = ::std::result::Result<Self, ::pilota::thrift::ThriftException>> + Send + 'a>> {
            ::std::boxed::Box::pin(async move {


            let mut var_1 = Some(2f64);let mut var_1031 = None;let mut var_15 = Some(16777217f64);let mut var_16 = Some(123456789f64);

            let mut __pilota_decoding_field_id = None;

            __protocol.read_struct_begin().await?;
            if let ::std::result::Result::Err(mut err) = async {
                    loop {


                let field_ident = __protocol.read_field_begin().await?;
                if field_ident.field_type == ::pilota::thrift::TType::Stop {

                    break;
                } else {

                }
                __pilota_decoding_field_id = field_ident.id;
                match field_ident.id {
                    Some(1) if field_ident.field_type == ::pilota::thrift::TType::Double  => {
                    var_1 = Some(__protocol.read_double().await?);

                },Some(1031) if field_ident.field_type == ::pilota::thrift::TType::I32  => {
                    var_1031 = Some(__protocol.read_i32().await?);

                },Some(15) if field_ident.field_type == ::pilota::thrift::TType::Double  => {
                    var_15 = Some(__protocol.read_double().await?);

                },Some(16) if field_ident.field_type == ::pilota::thrift::TType::Double  => {
                    var_16 = Some(__protocol.read_double().await?);

                },
                    _ => {
                        __protocol.skip(field_ident.field_type).await?;

                    },
                }

                __protocol.read_field_end().await?;


            };
                    ::std::result::Result::Ok::<_, ::pilota::thrift::ThriftException>(())
                }.await {
                if let Some(field_id) = __pilota_decoding_field_id {
                    err.prepend_msg(&format!("decode struct `Df30` field(#{}) failed, caused by: ", field_id));
                }
                return ::std::result::Result::Err(err);
            };
            __protocol.read_struct_end().await?;





            let data = Self {
                d1: var_1,plain: var_1031,d2: var_15,d3: var_16, _unknown_fields: ::pilota::LinkedBytes::new()
            };
            ::std::result::Result::Ok(data)

            })
        }

                fn size<T: ::pilota::thrift::TLengthProtocol>(&self, __protocol: &mut T) -> usize {
                    #[allow(unused_imports)]
                    use ::pilota::thrift::TLengthProtocolExt;
                    __protocol.struct_begin_len(&::pilota::thrift::TStructIdentifier {
                    name: "Df30",
                }) + self.d1.as_ref().map_or(0, |value| __protocol.double_field_len(Some(1), *value) ) +self.plain.as_ref().map_or(0, |value| __protocol.i32_field_len(Some(1031), *value)) +self.d2.as_ref().map_or(0, |value| __protocol.double_field_len(Some(15), *value) ) +self.d3.as_ref().map_or(0, |value| __protocol.double_field_len(Some(16), *value) ) +self._unknown_fields.size() + __protocol.field_stop_len() + __protocol.struct_end_len()
                }
            }
                                impl ::std::default::Default for Df6 {
                                    fn default() -> Self {
                                        Df6 {
                                            d1: Some(2f64),
plain: ::std::default::Default::default(),
d2: Some(16777217f64),
d3: Some(123456789f64),
_unknown_fields: ::pilota::LinkedBytes::new()
                                        }
                                    }
                                }
                            #[derive(PartialOrd)]
#[derive(Debug)]#[derive(Clone, PartialEq)]
                pub struct Df6 {

                        pub d1: ::std::option::Option<f64>,

                        pub plain: ::std::option::Option<i32>,

                        pub d2: ::std::option::Option<f64>,

                        pub d3: ::std::option::Option<f64>,pub _unknown_fields: ::pilota::LinkedBytes,
                }
            impl ::pilota::thrift::Message for Df6 {
                fn encode<T: ::pilota::thrift::TOutputProtocol>(
                    &self,
                    __protocol: &mut T,
                ) -> ::std::result::Result<(),::pilota::thrift::ThriftException> {
                    #[allow(unused_imports)]
                    use ::pilota::thrift::TOutputProtocolExt;
                    let struct_ident =::pilota::thrift::TStructIdentifier {
                    name: "Df6",
                };

                __protocol.write_struct_begin(&struct_ident)?;
                if let Some(value) = self.d1.as_ref() {
                        __protocol.write_double_field(1, *value)?;
                    }if let Some(value) = self.plain.as_ref() {
                        __protocol.write_i32_field(1007, *value)?;
                    }if let Some(value) = self.d2.as_ref() {
                        __protocol.write_double_field(2, *value)?;
                    }if let Some(value) = self.d3.as_ref() {
                        __protocol.write_double_field(3, *value)?;
                    }for bytes in self._unknown_fields.list.iter() {
                                __protocol.write_bytes_without_len(bytes.clone());
                            }
                __protocol.write_field_stop()?;
                __protocol.write_struct_end()?;
                ::std::result::Result::Ok(())

                }

                fn decode<T: ::pilota::thrift::TInputProtocol>(
                    __protocol: &mut T,
                ) -> ::std::result::Result<Self,::pilota::thrift::ThriftException>  {
                    #[allow(unused_imports)]
                    use ::pilota::{thrift::TLengthProtocolExt, Buf};


            let mut var_1 = Some(2f64);let mut var_1007 = None;let mut var_2 = Some(16777217f64);let mut var_3 = Some(123456789f64);let mut _unknown_fields = ::pilota::LinkedBytes::new();

            let mut __pilota_decoding_field_id = None;

            __protocol.read_struct_begin()?;
            if let ::std::result::Result::Err(mut err) = (|| {
                    loop {

                let mut __pilota_offset = 0;
            let __pilota_begin_ptr = __protocol.buf().chunk().as_ptr();
                let field_ident = __protocol.read_field_begin()?;
                if field_ident.field_type == ::pilota::thrift::TType::Stop {
                    __pilota_offset += __protocol.field_stop_len();
                    break;
                } else {
                    __pilota_offset += __protocol.field_begin_len(field_ident.field_type, field_ident.id);
                }
                __pilota_decoding_field_id = field_ident.id;
                match field_ident.id {
                    Some(1) if field_ident.field_type == ::pilota::thrift::TType::Double  => {
                    var_1 = Some(__protocol.read_double()?);

                },Some(1007) if field_ident.field_type == ::pilota::thrift::TType::I32  => {
                    var_1007 = Some(__protocol.read_i32()?);

                },Some(2) if field_ident.field_type == ::pilota::thrift::TType::Double  => {
                    var_2 = Some(__protocol.read_double()?);

                },Some(3) if field_ident.field_type == ::pilota::thrift::TType::Double  => {
                    var_3 = Some(__protocol.read_double()?);

                },
                    _ => {
                        __pilota_offset += __protocol.skip(field_ident.field_type)?;
                        _unknown_fields.push_back(__protocol.get_bytes(Some(__pilota_begin_ptr), __pilota_offset)?);
                    },
                }

                __protocol.read_field_end()?;
                __pilota_offset += __protocol.field_end_len();

            };
                    ::std::result::Result::Ok::<_, ::pilota::thrift::ThriftException>(())
                })() {
                if let Some(field_id) = __pilota_decoding_field_id {
                    err.prepend_msg(&format!("decode struct `Df6` field(#{}) failed, caused by: ", field_id));
                }
                return ::std::result::Result::Err(err);
            };
            __protocol.read_struct_end()?;





            let data = Self {
                d1: var_1,plain: var_1007,d2: var_2,d3: var_3, _unknown_fields
            };
            ::std::result::Result::Ok(data)

                }

                fn decode_async<'a, T: ::pilota::thrift::TAsyncInputProtocol>(
            __protocol: &'a mut T,
        ) -> ::std::pin::Pin<::std::boxed::Box<dyn ::std::future::Future<Output = ::std::result::Result<Self, ::pilota::thrift::ThriftException>> + Send + 'a>> {
            ::std::boxed::Box::pin(async move {


            let mut var_1 = Some(2f64);let mut var_1007 = None;let mut var_2 = Some(16777217f64);let mut var_3 = Some(123456789f64);

            let mut __pilota_decoding_field_id = None;

            __protocol.read_struct_begin().await?;
            if let ::std::result::Result::Err(mut err) = async {
                    loop {


                let field_ident = __protocol.read_field_begin().await?;
                if field_ident.field_type == ::pilota::thrift::TType::Stop {

                    break;
                } else {

                }
                __pilota_decoding_field_id = field_ident.id;
                match field_ident.id {
                    Some(1) if field_ident.field_type == ::pilota::thrift::TType::Double  => {
                    var_1 = Some(__protocol.read_double().await?);

                },Some(1007) if field_ident.field_type == ::pilota::thrift::TType::I32  => {
                    var_1007 = Some(__protocol.read_i32().await?);

                },Some(2) if field_ident.field_type == ::pilota::thrift::TType::Double  => {
                    var_2 = Some(__protocol.read_double().await?);

                },Some(3) if field_ident.field_type == ::pilota::thrift::TType::Double  => {
                    var_3 = Some(__protocol.read_double().await?);

                },
                    _ => {
                        __protocol.skip(field_ident.field_type).await?;

                    },
                }

                __protocol.read_field_end().await?;


            };
                    ::std::result::Result::Ok::<_, ::pilota::thrift::ThriftException>(())
                }.await {
                if let Some(field_id) = __pilota_decoding_field_id {
                    err.prepend_msg(&format!("decode struct `Df6` field(#{}) failed, caused by: ", field_id));
                }
                return ::std::result::Result::Err(err);
            };
            __protocol.read_struct_end().await?;





            let data = Self {
                d1: var_1,plain: var_1007,d2: var_2,d3: var_3, _unknown_fields: ::pilota::LinkedBytes::new()
            };
            ::std::result::Result::Ok(data)

            })
        }

                fn size<T: ::pilota::thrift::TLengthProtocol>(&self, __protocol: &mut T) -> usize {
                    #[allow(unused_imports)]
                    use ::pilota::thrift::TLengthProtocolExt;
                    __protocol.struct_begin_len(&::pilota::thrift::TStructIdentifier {
                    name: "Df6",
                }) + self.d1.as_ref().map_or(0, |value| __protocol.double_field_len(Some(1), *value) ) +self.plain.as_ref().map_or(0, |value| __protocol.i32_field_len(Some(1007), *value)) +self.d2.as_ref().map_or(0, |value| __protocol.double_field_len(Some(2), *value) ) +self.d3.as_ref().map_or(0, |value| __protocol.double_field_len(Some(3), *value) ) +self._unknown_fields.size() + __protocol.field_stop_len() + __protocol.struct_end_len()
                }
            }
                                impl ::std::default::Default for Df61 {
                                    fn default() -> Self {
                                        Df61 {
                                            d1: ::pilota::FastStr::from_static_str("back\\slash"),
plain: ::std::default::Default::default(),
d2: ::std::vec![::pilota::FastStr::from_static_str("a\nb"),::pilota::FastStr::from_static_str("c")],
d3: TdList(::std::vec![::pilota::FastStr::from_static_str("p"),::pilota::FastStr::from_static_str("q")]),
_unknown_fields: ::pilota::LinkedBytes::new()
                                        }
                                    }
                                }
                            #[derive(PartialOrd)]
#[derive(Hash, Eq, Ord)]
#[derive(Debug)]#[derive(Clone, PartialEq)]
                pub struct Df61 {

                        pub d1: ::pilota::FastStr,

                        pub plain: ::std::option::Option<i32>,

                        pub d2: ::std::vec::Vec<::pilota::FastStr>,

                        pub d3: TdList,pub _unknown_fields: ::pilota::LinkedBytes,
                }
            impl ::pilota::thrift::Message for Df61 {
                fn encode<T: ::pilota::thrift::TOutputProtocol>(
                    &self,
                    __protocol: &mut T,
                ) -> ::std::result::Result<(),::pilota::thrift::ThriftException> {
                    #[allow(unused_imports)]
                    use ::pilota::thrift::TOutputProtocolExt;
                    let struct_ident =::pilota::thrift::TStructIdentifier {
                    name: "Df61",
                };

                __protocol.write_struct_begin(&struct_ident)?;
                __protocol.write_faststr_field(127, (&self.d1).clone())?;if let Some(value) = self.plain.as_ref() {
                        __protocol.write_i32_field(1188, *value)?;
                    }__protocol.write_list_field(128, ::pilota::thrift::TType::Binary, &&self.d2, |__protocol, val| {
                        __protocol.write_faststr((val).clone())?;
                        ::std::result::Result::Ok(())
                    })?;__protocol.write_struct_field(300, &self.d3, ::pilota::thrift::TType::List)?;for bytes in self._unknown_fields.list.iter() {
                                __protocol.write_bytes_without_len(bytes.clone());
                            }
                __protocol.write_field_stop()?;
                __protocol.write_struct_end()?;
                ::std::result::Result::Ok(())

                }

                fn decode<T: ::pilota::thrift::TInputProtocol>(
                    __protocol: &mut T,
                ) -> ::std::result::Result<Self,::pilota::thrift::ThriftException>  {
                    #[allow(unused_imports)]
                    use ::pilota::{thrift::TLengthProtocolExt, Buf};


            let mut var_127 = ::pilota::FastStr::from_static_str("back\\slash");let mut var_1188 = None;let mut var_128 = None;let mut var_300 = None;let mut _unknown_fields = ::pilota::LinkedBytes::new();

            let mut __pilota_decoding_field_id = None;

            __protocol.read_struct_begin()?;
            if let ::std::result::Result::Err(mut err) = (|| {
                    loop {

                let mut __pilota_offset = 0;
            let __pilota_begin_ptr = __protocol.buf().chunk().as_ptr();
                let field_ident = __protocol.read_field_begin()?;
                if field_ident.field_type == ::pilota::thrift::TType::Stop {
                    __pilota_offset += __protocol.field_stop_len();
                    break;
                } else {
                    __pilota_offset += __protocol.field_begin_len(field_ident.field_type, field_ident.id);
                }
                __pilota_decoding_field_id = field_ident.id;
                match field_ident.id {
                    Some(127) if field_ident.field_type == ::pilota::thrift::TType::Binary  => {
                    var_127 = __protocol.read_faststr()?;

                },Some(1188) if field_ident.field_type == ::pilota::thrift::TType::I32  => {
                    var_1188 = Some(__protocol.read_i32()?);

                },Some(128) if field_ident.field_type == ::pilota::thrift::TType::List  => {
                    var_128 = Some(unsafe {
                            let list_ident = __protocol.read_list_begin()?;
                            let mut val: ::std::vec::Vec<::pilota::FastStr> = ::std::vec::Vec::with_capacity(list_ident.size);
                            for i in 0..list_ident.size {
                                val.as_mut_ptr().offset(i as isize).write(__protocol.read_faststr()?);
                            };
                            val.set_len(list_ident.size);
                            __protocol.read_list_end()?;
                            val
                        });

                },Some(300) if field_ident.field_type == ::pilota::thrift::TType::List  => {
                    var_300 = Some(::pilota::thrift::Message::decode(__protocol)?);

                },
                    _ => {
                        __pilota_offset += __protocol.skip(field_ident.field_type)?;
                        _unknown_fields.push_back(__protocol.get_bytes(Some(__pilota_begin_ptr), __pilota_offset)?);
                    },
                }

                __protocol.read_field_end()?;
                __pilota_offset += __protocol.field_end_len();

            };
                    ::std::result::Result::Ok::<_, ::pilota::thrift::ThriftException>(())
                })() {
                if let Some(field_id) = __pilota_decoding_field_id {
                    err.prepend_msg(&format!("decode struct `Df61` field(#{}) failed, caused by: ", field_id));
                }
                return ::std::result::Result::Err(err);
            };
            __protocol.read_struct_end()?;



            let var_128 = var_128.unwrap_or_else(|| ::std::vec![::pilota::FastStr::from_static_str("a\nb"),::pilota::FastStr::from_static_str("c")]);
let var_300 = var_300.unwrap_or_else(|| TdList(::std::vec![::pilota::FastStr::from_static_str("p"),::pilota::FastStr::from_static_str("q")]));

            let data = Self {
                d1: var_127,plain: var_1188,d2: var_128,d3: var_300, _unknown_fields
            };
            ::std::result::Result::Ok(data)

                }

                fn decode_async<'a, T: ::pilota::thrift::TAsyncInputProtocol>(
            __protocol: &'a mut T,
        ) -> ::std::pin::Pin<::std::boxed::Box<dyn ::std::future::Future<Output = ::std::result::Result<Self, ::pilota::thrift::ThriftException>> + Send + 'a>> {
            ::std::boxed::Box::pin(async move {


            let mut var_127 = ::pilota::FastStr::from_static_str("back\\slash");let mut var_1188 = None;let mut var_128 = None;let mut var_300 = None;

            let mut __pilota_decoding_field_id = None;

            __protocol.read_struct_begin().await?;
            if let ::std::result::Result::Err(mut err) = async {
                    loop {


                let field_ident = __protocol.read_field_begin().await?;
                if field_ident.field_type == ::pilota::thrift::TType::Stop {

                    break;
                } else {

                }
                __pilota_decoding_field_id = field_ident.id;
                match field_ident.id {
                    Some(127) if field_ident.field_type == ::pilota::thrift::TType::Binary  => {
                    var_127 = __protocol.read_faststr().await?;

                },Some(1188) if field_ident.field_type == ::pilota::thrift::TType::I32  => {
                    var_1188 = Some(__protocol.read_i32().await?);

                },Some(128) if field_ident.field_type == ::pilota::thrift::TType::List  => {
                    var_128 = Some({
                            let list_ident = __protocol.read_list_begin().await?;
                            let mut val = ::std::vec::Vec::with_capacity(list_ident.size);
                            for _ in 0..list_ident.size {
                                val.push(__protocol.read_faststr().await?);
                            };
                            __protocol.read_list_end().await?;
                            val
                        });

                },Some(300) if field_ident.field_type == ::pilota::thrift::TType::List  => {
                    var_300 = Some(<TdList as ::pilota::thrift::Message>::decode_async(__protocol).await?);

                },
                    _ => {
                        __protocol.skip(field_ident.field_type).await?;

                    },
                }

                __protocol.read_field_end().await?;


            };
                    ::std::result::Result::Ok::<_, ::pilota::thrift::ThriftException>(())
                }.await {
                if let Some(field_id) = __pilota_decoding_field_id {
                    err.prepend_msg(&format!("decode struct `Df61` field(#{}) failed, caused by: ", field_id));
                }
                return ::std::result::Result::Err(err);
            };
            __protocol.read_struct_end().await?;



            let var_128 = var_128.unwrap_or_else(|| ::std::vec![::pilota::FastStr::from_static_str("a\nb"),::pilota::FastStr::from_static_str("c")]);
let var_300 = var_300.unwrap_or_else(|| TdList(::std::vec![::pilota::FastStr::from_static_str("p"),::pilota::FastStr::from_static_str("q")]));

            let data = Self {
                d1: var_127,plain: var_1188,d2: var_128,d3: var_300, _unknown_fields: ::pilota::LinkedBytes::new()
            };
            ::std::result::Result::Ok(data)

            })
        }

                fn size<T: ::pilota::thrift::TLengthProtocol>(&self, __protocol: &mut T) -> usize {
                    #[allow(unused_imports)]
                    use ::pilota::thrift::TLengthProtocolExt;
                    __protocol.struct_begin_len(&::pilota::thrift::TStructIdentifier {
                    name: "Df61",
                }) + __protocol.faststr_field_len(Some(127), &self.d1) +self.plain.as_ref().map_or(0, |value| __protocol.i32_field_len(Some(1188), *value)) +__protocol.list_field_len(Some(128), ::pilota::thrift::TType::Binary, &self.d2, |__protocol, el| {
                        __protocol.faststr_len(el)
                    }) +__protocol.struct_field_len(Some(300), &self.d3) +self._unknown_fields.size() + __protocol.field_stop_len() + __protocol.struct_end_len()
                }
            }#[derive(PartialOrd)]
#[derive(Hash, Eq, Ord)]
#[derive(Debug)]
#[derive(Default)]
            #[derive(Clone, PartialEq)]
            pub struct TdI32(pub i32);

            impl ::std::ops::Deref for TdI32 {
                type Target = i32;

                fn deref(&self) -> &Self::Target {
                    &self.0
                }
            }

            impl From<i32> for TdI32 {
                fn from(v: i32) -> Self {
                    Self(v)
                }
            }


            impl ::pilota::thrift::Message for TdI32 {
                fn encode<T: ::pilota::thrift::TOutputProtocol>(
                    &self,
                    __protocol: &mut T,
                ) -> ::std::result::Result<(),::pilota::thrift::ThriftException> {
                    #[allow(unused_imports)]
                    use ::pilota::thrift::TOutputProtocolExt;
                    __protocol.write_i32(*(&**self))?;
                ::std::result::Result::Ok(())
                }

                fn decode<T: ::pilota::thrift::TInputProtocol>(
                    __protocol: &mut T,
                ) -> ::std::result::Result<Self,::pilota::thrift::ThriftException>  {
                    #[allow(unused_imports)]
                    use ::pilota::{thrift::TLengthProtocolExt, Buf};
                    ::std::result::Result::Ok(TdI32(__protocol.read_i32()?))
                }

                fn decode_async<'a, T: ::pilota::thrift::TAsyncInputProtocol>(
            __protocol: &'a mut T,
        ) -> ::std::pin::Pin<::std::boxed::Box<dyn ::std::future::Future<Output = ::std::result::Result<Self, ::pilota::thrift::ThriftException>> + Send + 'a>> {
            ::std::boxed::Box::pin(async move {
                ::std::result::Result::Ok(TdI32(__protocol.read_i32().await?))
            })
        }

                fn size<T: ::pilota::thrift::TLengthProtocol>(&self, __protocol: &mut T) -> usize {
                    #[allow(unused_imports)]
                    use ::pilota::thrift::TLengthProtocolExt;
                    __protocol.i32_len(*&**self)
                }
            }
                                impl ::std::default::Default for Df37 {
                                    fn default() -> Self {
                                        Df37 {
                                            d1: Some(::pilota::FastStr::from_static_str("back\\slash")),
plain: ::std::default::Default::default(),
d2: Some(::std::vec![::pilota::FastStr::from_static_str("a\nb"),::pilota::FastStr::from_static_str("c")]),
d3: Some(TdList(::std::vec![::pilota::FastStr::from_static_str("p"),::pilota::FastStr::from_static_str("q")])),
_unknown_fields: ::pilota::LinkedBytes::new()
                                        }
                                    }
                                }
                            #[derive(PartialOrd)]
#[derive(Hash, Eq, Ord)]
#[derive(Debug)]#[derive(Clone, PartialEq)]
                pub struct Df37 {

                        pub d1: ::std::option::Option<::pilota::FastStr>,

                        pub plain: ::std::option::Option<i32>,

                        pub d2: ::std::option::Option<::std::vec::Vec<::pilota::FastStr>>,

                        pub d3: ::std::option::Option<TdList>,pub _unknown_fields: ::pilota::LinkedBytes,
                }
            impl ::pilota::thrift::Message for Df37 {
                fn encode<T: ::pilota::thrift::TOutputProtocol>(
                    &self,
                    __protocol: &mut T,
                ) -> ::std::result::Result<(),::pilota::thrift::ThriftException> {
                    #[allow(unused_imports)]
                    use ::pilota::thrift::TOutputProtocolExt;
                    let struct_ident =::pilota::thrift::TStructIdentifier {
                    name: "Df37",
                };

                __protocol.write_struct_begin(&struct_ident)?;
                if let Some(value) = self.d1.as_ref() {
                        __protocol.write_faststr_field(5, (value).clone())?;
                    }if let Some(value) = self.plain.as_ref() {
                        __protocol.write_i32_field(1042, *value)?;
                    }if let Some(value) = self.d2.as_ref() {
                        __protocol.write_list_field(20, ::pilota::thrift::TType::Binary, &value, |__protocol, val| {
                        __protocol.write_faststr((val).clone())?;
                        ::std::result::Result::Ok(())
                    })?;
                    }if let Some(value) = self.d3.as_ref() {
                        __protocol.write_struct_field(21, value, ::pilota::thrift::TType::List)?;
                    }for bytes in self._unknown_fields.list.iter() {
                                __protocol.write_bytes_without_len(bytes.clone());
                            }
                __protocol.write_field_stop()?;
                __protocol.write_struct_end()?;
                ::std::result::Result::Ok(())

                }

                fn decode<T: ::pilota::thrift::TInputProtocol>(
                    __protocol: &mut T,
                ) -> ::std::result::Result<Self,::pilota::thrift::ThriftException>  {
                    #[allow(unused_imports)]
                    use ::pilota::{thrift::TLengthProtocolExt, Buf};


            let mut var_5 = Some(::pilota::FastStr::from_static_str("back\\slash"));let mut var_1042 = None;let mut var_20 = None;let mut var_21 = None;let mut _unknown_fields = ::pilota::LinkedBytes::new();

            let mut __pilota_decoding_field_id = None;

            __protocol.read_struct_begin()?;
            if let ::std::result::Result::Err(mut err) = (|| {
                    loop {

                let mut __pilota_offset = 0;
            let __pilota_begin_ptr = __protocol.buf().chunk().as_ptr();
                let field_ident = __protocol.read_field_begin()?;
                if field_ident.field_type == ::pilota::thrift::TType::Stop {
                    __pilota_offset += __protocol.field_stop_len();
                    break;
                } else {
                    __pilota_offset += __protocol.field_begin_len(field_ident.field_type, field_ident.id);
                }
                __pilota_decoding_field_id = field_ident.id;
                match field_ident.id {
                    Some(5) if field_ident.field_type == ::pilota::thrift::TType::Binary  => {
                    var_5 = Some(__protocol.read_faststr()?);

                },Some(1042) if field_ident.field_type == ::pilota::thrift::TType::I32  => {
                    var_1042 = Some(__protocol.read_i32()?);

                },Some(20) if field_ident.field_type == ::pilota::thrift::TType::List  => {
                    var_20 = Some(unsafe {
                            let list_ident = __protocol.read_list_begin()?;
                            let mut val: ::std::vec::Vec<::pilota::FastStr> = ::std::vec::Vec::with_capacity(list_ident.size);
                            for i in 0..list_ident.size {
                                val.as_mut_ptr().offset(i as isize).write(__protocol.read_faststr()?);
                            };
                            val.set_len(list_ident.size);
                            __protocol.read_list_end()?;
                            val
                        });

                },Some(21) if field_ident.field_type == ::pilota::thrift::TType::List  => {
                    var_21 = Some(::pilota::thrift::Message::decode(__protocol)?);

                },
                    _ => {
                        __pilota_offset += __protocol.skip(field_ident.field_type)?;
                        _unknown_fields.push_back(__protocol.get_bytes(Some(__pilota_begin_ptr), __pilota_offset)?);
                    },
                }

                __protocol.read_field_end()?;
                __pilota_offset += __protocol.field_end_len();

            };
                    ::std::result::Result::Ok::<_, ::pilota::thrift::ThriftException>(())
                })() {
                if let Some(field_id) = __pilota_decoding_field_id {
                    err.prepend_msg(&format!("decode struct `Df37` field(#{}) failed, caused by: ", field_id));
                }
                return ::std::result::Result::Err(err);
            };
            __protocol.read_struct_end()?;



            if var_20.is_none() {
                                var_20 = Some(::std::vec![::pilota::FastStr::from_static_str("a\nb"),::pilota::FastStr::from_static_str("c")]);
                            }
if var_21.is_none() {
                                var_21 = Some(TdList(::std::vec![::pilota::FastStr::from_static_str("p"),::pilota::FastStr::from_static_str("q")]));
                            }

            let data = Self {
                d1: var_5,plain: var_1042,d2: var_20,d3: var_21, _unknown_fields
            };
            ::std::result::Result::Ok(data)

                }

                fn decode_async<'a, T: ::pilota::thrift::TAsyncInputProtocol>(
            __protocol: &'a mut T,
        ) -> ::std::pin::Pin<::std::boxed::Box<dyn ::std::future::Future<Output = ::std::result::Result<Self, ::pilota::thrift::ThriftException>> + Send + 'a>> {
            ::std::boxed::Box::pin(async move {


            let mut var_5 = Some(::pilota::FastStr::from_static_str("back\\slash"));let mut var_1042 = None;let mut var_20 = None;let mut var_21 = None;

            let mut __pilota_decoding_field_id = None;

            __protocol.read_struct_begin().await?;
            if let ::std::result::Result::Err(mut err) = async {
                    loop {


                let field_ident = __protocol.read_field_begin().await?;
                if field_ident.field_type == ::pilota::thrift::TType::Stop {

                    break;
                } else {

                }
                __pilota_decoding_field_id = field_ident.id;
                match field_ident.id {
                    Some(5) if field_ident.field_type == ::pilota::thrift::TType::Binary  => {
                    var_5 = Some(__protocol.read_faststr().await?);

                },Some(1042) if field_ident.field_type == ::pilota::thrift::TType::I32  => {
                    var_1042 = Some(__protocol.read_i32().await?);

                },Some(20) if field_ident.field_type == ::pilota::thrift::TType::List  => {
                    var_20 = Some({
                            let list_ident = __protocol.read_list_begin().await?;
                            let mut val = ::std::vec::Vec::with_capacity(list_ident.size);
                            for _ in 0..list_ident.size {
                                val.push(__protocol.read_faststr().await?);
                            };
                            __protocol.read_list_end().await?;
                            val
                        });

                },Some(21) if field_ident.field_type == ::pilota::thrift::TType::List  => {
                    var_21 = Some(<TdList as ::pilota::thrift::Message>::decode_async(__protocol).await?);

                },
                    _ => {
                        __protocol.skip(field_ident.field_type).await?;

                    },
                }

                __protocol.read_field_end().await?;


            };
                    ::std::result::Result::Ok::<_, ::pilota::thrift::ThriftException>(())
                }.await {
                if let Some(field_id) = __pilota_decoding_field_id {
                    err.prepend_msg(&format!("decode struct `Df37` field(#{}) failed, caused by: ", field_id));
                }
                return ::std::result::Result::Err(err);
            };
            __protocol.read_struct_end().await?;



            if var_20.is_none() {
                                var_20 = Some(::std::vec![::pilota::FastStr::from_static_str("a\nb"),::pilota::FastStr::from_static_str("c")]);
                            }
if var_21.is_none() {
                                var_21 = Some(TdList(::std::vec![::pilota::FastStr::from_static_str("p"),::pilota::FastStr::from_static_str("q")]));
                            }

            let data = Self {
                d1: var_5,plain: var_1042,d2: var_20,d3: var_21, _unknown_fields: ::pilota::LinkedBytes::new()
            };
            ::std::result::Result::Ok(data)

            })
        }

                fn size<T: ::pilota::thrift::TLengthProtocol>(&self, __protocol: &mut T) -> usize {
                    #[allow(unused_imports)]
                    use ::pilota::thrift::TLengthProtocolExt;
                    __protocol.struct_begin_len(&::pilota::thrift::TStructIdentifier {
                    name: "Df37",
                }) + self.d1.as_ref().map_or(0, |value| __protocol.faststr_field_len(Some(5), value)) +self.plain.as_ref().map_or(0, |value| __protocol.i32_field_len(Some(1042), *value)) +self.d2.as_ref().map_or(0, |value| __protocol.list_field_len(Some(20), ::pilota::thrift::TType::Binary, value, |__protocol, el| {
                        __protocol.faststr_len(el)
                    })) +self.d3.as_ref().map_or(0, |value| __protocol.struct_field_len(Some(21), value)) +self._unknown_fields.size() + __protocol.field_stop_len() + __protocol.struct_end_len()
                }
            }
                                impl ::std::default::Default for Df13 {
                                    fn default() -> Self {
                                        Df13 {
                                            d1: Some(::pilota::FastStr::from_static_str("back\\slash")),
plain: ::std::default::Default::default(),
d2: Some(::std::vec![::pilota::FastStr::from_static_str("a\nb"),::pilota::FastStr::from_static_str("c")]),
d3: Some(TdList(::std::vec![::pilota::FastStr::from_static_str("p"),::pilota::FastStr::from_static_str("q")])),
_unknown_fields: ::pilota::LinkedBytes::new()
                                        }
                                    }
                                }
                            #[derive(PartialOrd)]
#[derive(Hash, Eq, Ord)]
#[derive(Debug)]#[derive(Clone, PartialEq)]
                pub struct Df13 {

                        pub d1: ::std::option::Option<::pilota::FastStr>,

                        pub plain: ::std::option::Option<i32>,

                        pub d2: ::std::option::Option<::std::vec::Vec<::pilota::FastStr>>,

                        pub d3: ::std::option::Option<TdList>,pub _unknown_fields: ::pilota::LinkedBytes,
                }
            impl ::pilota::thrift::Message for Df13 {
                fn encode<T: ::pilota::thrift::TOutputProtocol>(
                    &self,
                    __protocol: &mut T,
                ) -> ::std::result::Result<(),::pilota::thrift::ThriftException> {
                    #[allow(unused_imports)]
                    use ::pilota::thrift::TOutputProtocolExt;
                    let struct_ident =::pilota::thrift::TStructIdentifier {
                    name: "Df13",
                };

                __protocol.write_struct_begin(&struct_ident)?;
                if let Some(value) = self.d1.as_ref() {
                        __protocol.write_faststr_field(1, (value).clone())?;
                    }if let Some(value) = self.plain.as_ref() {
                        __protocol.write_i32_field(1014, *value)?;
                    }if let Some(value) = self.d2.as_ref() {
                        __protocol.write_list_field(15, ::pilota::thrift::TType::Binary, &value, |__protocol, val| {
                        __protocol.write_faststr((val).clone())?;
                        ::std::result::Result::Ok(())
                    })?;
                    }if let Some(value) = self.d3.as_ref() {
                        __protocol.write_struct_field(16, value, ::pilota::thrift::TType::List)?;
                    }for bytes in self._unknown_fields.list.iter() {
                                __protocol.write_bytes_without_len(bytes.clone());
                            }
                __protocol.write_field_stop()?;
                __protocol.write_struct_end()?;
                ::std::result::Result::Ok(())

                }

                fn decode<T: ::pilota::thrift::TInputProtocol>(
                    __protocol: &mut T,
                ) -> ::std::result::Result<Self,::pilota::thrift::ThriftException>  {
                    #[allow(unused_imports)]
                    use ::pilota::{thrift::TLengthProtocolExt, Buf};


            let mut var_1 = Some(::pilota::FastStr::from_static_str("back\\slash"));let mut var_1014 = None;let mut var_15 = None;let mut var_16 = None;let mut _unknown_fields = ::pilota::LinkedBytes::new();

            let mut __pilota_decoding_field_id = None;

            __protocol.read_struct_begin()?;
            if let ::std::result::Result::Err(mut err) = (|| {
                    loop {

                let mut __pilota_offset = 0;
            let __pilota_begin_ptr = __protocol.buf().chunk().as_ptr();
                let field_ident = __protocol.read_field_begin()?;
                if field_ident.field_type == ::pilota::thrift::TType::Stop {
                    __pilota_offset += __protocol.field_stop_len();
                    break;
                } else {
                    __pilota_offset += __protocol.field_begin_len(field_ident.field_type, field_ident.id);
                }
                __pilota_decoding_field_id = field_ident.id;
                match field_ident.id {
                    Some(1) if field_ident.field_type == ::pilota::thrift::TType::Binary  => {
                    var_1 = Some(__protocol.read_faststr()?);

                },Some(1014) if field_ident.field_type == ::pilota::thrift::TType::I32  => {
                    var_1014 = Some(__protocol.read_i32()?);

                },Some(15) if field_ident.field_type == ::pilota::thrift::TType::List  => {
                    var_15 = Some(unsafe {
                            let list_ident = __protocol.read_list_begin()?;
                            let mut val: ::std::vec::Vec<::pilota::FastStr> = ::std::vec::Vec::with_capacity(list_ident.size);
                            for i in 0..list_ident.size {
                                val.as_mut_ptr().offset(i as isize).write(__protocol.read_faststr()?);
                            };
                            val.set_len(list_ident.size);
                            __protocol.read_list_end()?;
                            val
                        });

                },Some(16) if field_ident.field_type == ::pilota::thrift::TType::List  => {
                    var_16 = Some(::pilota::thrift::Message::decode(__protocol)?);

                },
                    _ => {
                        __pilota_offset += __protocol.skip(field_ident.field_type)?;
                        _unknown_fields.push_back(__protocol.get_bytes(Some(__pilota_begin_ptr), __pilota_offset)?);
                    },
                }

                __protocol.read_field_end()?;
                __pilota_offset += __protocol.field_end_len();

            };
                    ::std::result::Result::Ok::<_, ::pilota::thrift::ThriftException>(())
                })() {
                if let Some(field_id) = __pilota_decoding_field_id {
                    err.prepend_msg(&format!("decode struct `Df13` field(#{}) failed, caused by: ", field_id));
                }
                return ::std::result::Result::Err(err);
            };
            __protocol.read_struct_end()?;



            if var_15.is_none() {
                                var_15 = Some(::std::vec![::pilota::FastStr::from_static_str("a\nb"),::pilota::FastStr::from_static_str("c")]);
                            }
if var_16.is_none() {
                                var_16 = Some(TdList(::std::vec![::pilota::FastStr::from_static_str("p"),::pilota::FastStr::from_static_str("q")]));
                            }

            let data = Self {
                d1: var_1,plain: var_1014,d2: var_15,d3: var_16, _unknown_fields
            };
            ::std::result::Result::Ok(data)

                }

                fn decode_async<'a, T: ::pilota::thrift::TAsyncInputProtocol>(
            __protocol: &'a mut T,
        ) -> ::std::pin::Pin<::std::boxed::Box<dyn ::std::future::Future<Output = ::std::result::Result<Self, ::pilota::thrift::ThriftException>> + Send + 'a>> {
            ::std::boxed::Box::pin(async move {


            let mut var_1 = Some(::pilota::FastStr::from_static_str("back\\slash"));let mut var_1014 = None;let mut var_15 = None;let mut var_16 = None;

            let mut __pilota_decoding_field_id = None;

            __protocol.read_struct_begin().await?;
            if let ::std::result::Result::Err(mut err) = async {
                    loop {


                let field_ident = __protocol.read_field_begin().await?;
                if field_ident.field_type == ::pilota::thrift::TType::Stop {

                    break;
                } else {

                }
                __pilota_decoding_field_id = field_ident.id;
                match field_ident.id {
                    Some(1) if field_ident.field_type == ::pilota::thrift::TType::Binary  => {
                    var_1 = Some(__protocol.read_faststr().await?);

                },Some(1014) if field_ident.field_type == ::pilota::thrift::TType::I32  => {
                    var_1014 = Some(__protocol.read_i32().await?);

                },Some(15) if field_ident.field_type == ::pilota::thrift::TType::List  => {
                    var_15 = Some({
                            let list_ident = __protocol.read_list_begin().await?;
                            let mut val = ::std::vec::Vec::with_capacity(list_ident.size);
                            for _ in 0..list_ident.size {
                                val.push(__protocol.read_faststr().await?);
                            };
                            __protocol.read_list_end().await?;
                            val
                        });

                },Some(16) if field_ident.field_type == ::pilota::thrift::TType::List  => {
                    var_16 = Some(<TdList as ::pilota::thrift::Message>::decode_async(__protocol).await?);

                },
                    _ => {
                        __protocol.skip(field_ident.field_type).await?;

                    },
                }

                __protocol.read_field_end().await?;


            };
                    ::std::result::Result::Ok::<_, ::pilota::thrift::ThriftException>(())
                }.await {
                if let Some(field_id) = __pilota_decoding_field_id {
                    err.prepend_msg(&format!("decode struct `Df13` field(#{}) failed, caused by: ", field_id));
                }
                return ::std::result::Result::Err(err);
            };
            __protocol.read_struct_end().await?;



            if var_15.is_none() {
                                var_15 = Some(::std::vec![::pilota::FastStr::from_static_str("a\nb"),::pilota::FastStr::from_static_str("c")]);
                            }
if var_16.is_none() {
                                var_16 = Some(TdList(::std::vec![::pilota::FastStr::from_static_str("p"),::pilota::FastStr::from_static_str("q")]));
                            }

            let data = Self {
                d1: var_1,plain: var_1014,d2: var_15,d3: var_16, _unknown_fields: ::pilota::LinkedBytes::new()
            };
            ::std::result::Result::Ok(data)

            })
        }

                fn size<T: ::pilota::thrift::TLengthProtocol>(&self, __protocol: &mut T) -> usize {
                    #[allow(unused_imports)]
                    use ::pilota::thrift::TLengthProtocolExt;
                    __protocol.struct_begin_len(&::pilota::thrift::TStructIdentifier {
                    name: "Df13",
                }) + self.d1.as_ref().map_or(0, |value| __protocol.faststr_field_len(Some(1), value)) +self.plain.as_ref().map_or(0, |value| __protocol.i32_field_len(Some(1014), *value)) +self.d2.as_ref().map_or(0, |value| __protocol.list_field_len(Some(15), ::pilota::thrift::TType::Binary, value, |__protocol, el| {
                        __protocol.faststr_len(el)
                    })) +self.d3.as_ref().map_or(0, |value| __protocol.struct_field_len(Some(16), value)) +self._unknown_fields.size() + __protocol.field_stop_len() + __protocol.struct_end_len()
                }
            }
                                impl ::std::default::Default for Df68 {
                                    fn default() -> Self {
                                        Df68 {
                                            d1: ::pilota::AHashSet::from([::pilota::FastStr::from_static_str("x"),::pilota::FastStr::from_static_str("x")]),
plain: ::std::default::Default::default(),
d2: -1i8,
d3: -1i16,
_unknown_fields: ::pilota::LinkedBytes::new()
                                        }
                                    }
                                }
                            #[derive(Debug)]#[derive(Clone, PartialEq)]
                pub struct Df68 {

                        pub d1: ::pilota::AHashSet<::pilota::FastStr>,

                        pub plain: ::std::option::Option<i32>,

                        pub d2: i8,

                        pub d3: i16,pub _unknown_fields: ::pilota::LinkedBytes,
                }
            impl ::pilota::thrift::Message for Df68 {
                fn encode<T: ::pilota::thrift::TOutputProtocol>(
                    &self,
                    __protocol: &mut T,
                ) -> ::std::result::Result<(),::pilota::thrift::ThriftException> {
                    #[allow(unused_imports)]
                    use ::pilota::thrift::TOutputProtocolExt;
                    let struct_ident =::pilota::thrift::TStructIdentifier {
                    name: "Df68",
                };

                __protocol.write_struct_begin(&struct_ident)?;
                __protocol.write_set_field(1, ::pilota::thrift::TType::Binary, &&self.d1, |__protocol, val| {
                __protocol.write_faststr((val).clone())?;
                ::std::result::Result::Ok(())
            })?;if let Some(value) = self.plain.as_ref() {
                        __protocol.write_i32_field(1069, *value)?;
                    }__protocol.write_i8_field(2, *&self.d2)?;__protocol.write_i16_field(32767, *&self.d3)?;for bytes in self._unknown_fields.list.iter() {
                                __protocol.write_bytes_without_len(bytes.clone());
                            }
                __protocol.write_field_stop()?;
                __protocol.write_struct_end()?;
                ::std::result::Result::Ok(())

                }

                fn decode<T: ::pilota::thrift::TInputProtocol>(
                    __protocol: &mut T,
                ) -> ::std::result::Result<Self,::pilota::thrift::ThriftException>  {
                    #[allow(unused_imports)]
                    use ::pilota::{thrift::TLengthProtocolExt, Buf};


            let mut var_1 = None;let mut var_1069 = None;let mut var_2 = -1i8;let mut var_32767 = -1i16;let mut _unknown_fields = ::pilota::LinkedBytes::new();

            let mut __pilota_decoding_field_id = None;

            __protocol.read_struct_begin()?;
            if let ::std::result::Result::Err(mut err) = (|| {
                    loop {

                let mut __pilota_offset = 0;
            let __pilota_begin_ptr = __protocol.buf().chunk().as_ptr();
                let field_ident = __protocol.read_field_begin()?;
                if field_ident.field_type == ::pilota::thrift::TType::Stop {
                    __pilota_offset += __protocol.field_stop_len();
                    break;
                } else {
                    __pilota_offset += __protocol.field_begin_len(field_ident.field_type, field_ident.id);
                }
                __pilota_decoding_field_id = field_ident.id;
                match field_ident.id {
                    Some(1) if field_ident.field_type == ::pilota::thrift::TType::Set  => {
                    var_1 = Some({let list_ident = __protocol.read_set_begin()?;
                    let mut val = ::pilota::AHashSet::with_capacity(list_ident.size);
                    for _ in 0..list_ident.size {
                        val.insert(__protocol.read_faststr()?);
                    };
                    __protocol.read_set_end()?;
                    val});

                },Some(1069) if field_ident.field_type == ::pilota::thrift::TType::I32  => {
                    var_1069 = Some(__protocol.read_i32()?);

                },Some(2) if field_ident.field_type == ::pilota::thrift::TType::I8  => {
                    var_2 = __protocol.read_i8()?;

                },Some(32767) if field_ident.field_type == ::pilota::thrift::TType::I16  => {
                    var_32767 = __protocol.read_i16()?;

                },
                    _ => {
                        __pilota_offset += __protocol.skip(field_ident.field_type)?;
                        _unknown_fields.push_back(__protocol.get_bytes(Some(__pilota_begin_ptr), __pilota_offset)?);
                    },
                }

                __protocol.read_field_end()?;
                __pilota_offset += __protocol.field_end_len();

            };
                    ::std::result::Result::Ok::<_, ::pilota::thrift::ThriftException>(())
                })() {
                if let Some(field_id) = __pilota_decoding_field_id {
                    err.prepend_msg(&format!("decode struct `Df68` field(#{}) failed, caused by: ", field_id));
                }
                return ::std::result::Result::Err(err);
            };
            __protocol.read_struct_end()?;



            let var_1 = var_1.unwrap_or_else(|| ::pilota::AHashSet::from([::pilota::FastStr::from_static_str("x"),::pilota::FastStr::from_static_str("x")]));

            let data = Self {
                d1: var_1,plain: var_1069,d2: var_2,d3: var_32767, _unknown_fields
            };
            ::std::result::Result::Ok(data)

                }

                fn decode_async<'a, T: ::pilota::thrift::TAsyncInputProtocol>(
            __protocol: &'a mut T,
        ) -> ::std::pin::Pin<::std::boxed::Box<dyn ::std::future::Future<Output = ::std::result::Result<Self, ::pilota::thrift::ThriftException>> + Send + 'a>> {
            ::std::boxed::Box::pin(async move {


            let mut var_1 = None;let mut var_1069 = None;let mut var_2 = -1i8;let mut var_32767 = -1i16;

            let mut __pilota_decoding_field_id = None;

            __protocol.read_struct_begin().await?;
            if let ::std::result::Result::Err(mut err) = async {
                    loop {


                let field_ident = __protocol.read_field_begin().await?;
                if field_ident.field_type == ::pilota::thrift::TType::Stop {

                    break;
                } else {

                }
                __pilota_decoding_field_id = field_ident.id;
                match field_ident.id {
                    Some(1) if field_ident.field_type == ::pilota::thrift::TType::Set  => {
                    var_1 = Some({let list_ident = __protocol.read_set_begin().await?;
                    let mut val = ::pilota::AHashSet::with_capacity(list_ident.size);
                    for _ in 0..list_ident.size {
                        val.insert(__protocol.read_faststr().await?);
                    };
                    __protocol.read_set_end().await?;
                    val});

                },Some(1069) if field_ident.field_type == ::pilota::thrift::TType::I32  => {
                    var_1069 = Some(__protocol.read_i32().await?);

                },Some(2) if field_ident.field_type == ::pilota::thrift::TType::I8  => {
                    var_2 = __protocol.read_i8().await?;

                },Some(32767) if field_ident.field_type == ::pilota::thrift::TType::I16  => {
                    var_32767 = __protocol.read_i16().await?;

                },
                    _ => {
                        __protocol.skip(field_ident.field_type).await?;

                    },
                }

                __protocol.read_field_end().await?;


            };
                    ::std::result::Result::Ok::<_, ::pilota::thrift::ThriftException>(())
                }.await {
                if let Some(field_id) = __pilota_decoding_field_id {
                    err.prepend_msg(&format!("decode struct `Df68` field(#{}) failed, caused by: ", field_id));
                }
                return ::std::result::Result::Err(err);
            };
            __protocol.read_struct_end().await?;



            let var_1 = var_1.unwrap_or_else(|| ::pilota::AHashSet::from([::pilota::FastStr::from_static_str("x"),::pilota::FastStr::from_static_str("x")]));

            let data = Self {
                d1: var_1,plain: var_1069,d2: var_2,d3: var_32767, _unknown_fields: ::pilota::LinkedBytes::new()
            };
            ::std::result::Result::Ok(data)

            })
        }

                fn size<T: ::pilota::thrift::TLengthProtocol>(&self, __protocol: &mut T) -> usize {
                    #[allow(unused_imports)]
                    use ::pilota::thrift::TLengthProtocolExt;
                    __protocol.struct_begin_len(&::pilota::thrift::TStructIdentifier {
                    name: "Df68",
                }) + __protocol.set_field_len(Some(1), ::pilota::thrift::TType::Binary, &self.d1, |__protocol, el| {
                __protocol.faststr_len(el)
            }) +self.plain.as_ref().map_or(0, |value| __protocol.i32_field_len(Some(1069), *value)) +__protocol.i8_field_len(Some(2), *&self.d2) +__protocol.i16_field_len(Some(32767), *&self.d3) +self._unknown_fields.size() + __protocol.field_stop_len() + __protocol.struct_end_len()
                }
            }#[derive(PartialOrd)]
#[derive(Hash, Eq, Ord)]
#[derive(Debug)]
#[derive(Default)]#[derive(Clone, PartialEq)]
                pub struct Leaf1 {

                        pub a: i32,

                        pub s: ::std::option::Option<::pilota::FastStr>,

                        pub flag: ::std::option::Option<bool>,pub _unknown_fields: ::pilota::LinkedBytes,
                }
            impl ::pilota::thrift::Message for Leaf1 {
                fn encode<T: ::pilota::thrift::TOutputProtocol>(
                    &self,
                    __protocol: &mut T,
                ) -> ::std::result::Result<(),::pilota::thrift::ThriftException> {
                    #[allow(unused_imports)]
                    use ::pilota::thrift::TOutputProtocolExt;
                    let struct_ident =::pilota::thrift::TStructIdentifier {
                    name: "Leaf1",
                };

                __protocol.write_struct_begin(&struct_ident)?;
                __protocol.write_i32_field(1, *&self.a)?;if let Some(value) = self.s.as_ref() {
                        __protocol.write_faststr_field(2, (value).clone())?;
                    }if let Some(value) = self.flag.as_ref() {
                        __protocol.write_bool_field(3, *value)?;
                    }for bytes in self._unknown_fields.list.iter() {
                                __protocol.write_bytes_without_len(bytes.clone());
                            }
                __protocol.write_field_stop()?;
                __protocol.write_struct_end()?;
                ::std::result::Result::Ok(())

                }

                fn decode<T: ::pilota::thrift::TInputProtocol>(
                    __protocol: &mut T,
                ) -> ::std::result::Result<Self,::pilota::thrift::ThriftException>  {
                    #[allow(unused_imports)]
                    use ::pilota::{thrift::TLengthProtocolExt, Buf};


            let mut var_1 = None;let mut var_2 = None;let mut var_3 = None;let mut _unknown_fields = ::pilota::LinkedBytes::new();

            let mut __pilota_decoding_field_id = None;

            __protocol.read_struct_begin()?;
            if let ::std::result::Result::Err(mut err) = (|| {
                    loop {

                let mut __pilota_offset = 0;
            let __pilota_begin_ptr = __protocol.buf().chunk().as_ptr();
                let field_ident = __protocol.read_field_begin()?;
                if field_ident.field_type == ::pilota::thrift::TType::Stop {
                    __pilota_offset += __protocol.field_stop_len();
                    break;
                } else {
                    __pilota_offset += __protocol.field_begin_len(field_ident.field_type, field_ident.id);
                }
                __pilota_decoding_field_id = field_ident.id;
                match field_ident.id {
                    Some(1) if field_ident.field_type == ::pilota::thrift::TType::I32  => {
                    var_1 = Some(__protocol.read_i32()?);

                },Some(2) if field_ident.field_type == ::pilota::thrift::TType::Binary  => {
                    var_2 = Some(__protocol.read_faststr()?);

                },Some(3) if field_ident.field_type == ::pilota::thrift::TType::Bool  => {
                    var_3 = Some(__protocol.read_bool()?);

                },
                    _ => {
                        __pilota_offset += __protocol.skip(field_ident.field_type)?;
                        _unknown_fields.push_back(__protocol.get_bytes(Some(__pilota_begin_ptr), __pilota_offset)?);
                    },
                }

                __protocol.read_field_end()?;
                __pilota_offset += __protocol.field_end_len();

            };
                    ::std::result::Result::Ok::<_, ::pilota::thrift::ThriftException>(())
                })() {
                if let Some(field_id) = __pilota_decoding_field_id {
                    err.prepend_msg(&format!("decode struct `Leaf1` field(#{}) failed, caused by: ", field_id));
                }
                return ::std::result::Result::Err(err);
            };
            __protocol.read_struct_end()?;

            let Some(var_1) = var_1 else {
                return ::std::result::Result::Err(
                    ::pilota::thrift::new_protocol_exception(
                        ::pilota::thrift::ProtocolExceptionKind::InvalidData,
                            "field a is required".to_string()
                    )
                )
            };



            let data = Self {
                a: var_1,s: var_2,flag: var_3, _unknown_fields
            };
            ::std::result::Result::Ok(data)

                }

                fn decode_async<'a, T: ::pilota::thrift::TAsyncInputProtocol>(
            __protocol: &'a mut T,
        ) -> ::std::pin::Pin<::std::boxed::Box<dyn ::std::future::Future<Output = ::std::result::Result<Self, ::pilota::thrift::ThriftException>> + Send + 'a>> {
            ::std::boxed::Box::pin(async move {


            let mut var_1 = None;let mut var_2 = None;let mut var_3 = None;

            let mut __pilota_decoding_field_id = None;

            __protocol.read_struct_begin().await?;
            if let ::std::result::Result::Err(mut err) = async {
                    loop {


                let field_ident = __protocol.read_field_begin().await?;
                if field_ident.field_type == ::pilota::thrift::TType::Stop {

                    break;
                } else {

                }
                __pilota_decoding_field_id = field_ident.id;
                match field_ident.id {
                    Some(1) if field_ident.field_type == ::pilota::thrift::TType::I32  => {
                    var_1 = Some(__protocol.read_i32().await?);

                },Some(2) if field_ident.field_type == ::pilota::thrift::TType::Binary  => {
                    var_2 = Some(__protocol.read_faststr().await?);

                },Some(3) if field_ident.field_type == ::pilota::thrift::TType::Bool  => {
                    var_3 = Some(__protocol.read_bool().await?);

                },
                    _ => {
                        __protocol.skip(field_ident.field_type).await?;

                    },
                }

                __protocol.read_field_end().await?;


            };
                    ::std::result::Result::Ok::<_, ::pilota::thrift::ThriftException>(())
                }.await {
                if let Some(field_id) = __pilota_decoding_field_id {
                    err.prepend_msg(&format!("decode struct `Leaf1` field(#{}) failed, caused by: ", field_id));
                }
                return ::std::result::Result::Err(err);
            };
            __protocol.read_struct_end().await?;

            let Some(var_1) = var_1 else {
                return ::std::result::Result::Err(
                    ::pilota::thrift::new_protocol_exception(
                        ::pilota::thrift::ProtocolExceptionKind::InvalidData,
                            "field a is required".to_string()
                    )
                )
            };



            let data = Self {
                a: var_1,s: var_2,flag: var_3, _unknown_fields: ::pilota::LinkedBytes::new()
            };
            ::std::result::Result::Ok(data)

            })
        }

                fn size<T: ::pilota::thrift::TLengthProtocol>(&self, __protocol: &mut T) -> usize {
                    #[allow(unused_imports)]
                    use ::pilota::thrift::TLengthProtocolExt;
                    __protocol.struct_begin_len(&::pilota::thrift::TStructIdentifier {
                    name: "Leaf1",
                }) + __protocol.i32_field_len(Some(1), *&self.a) +self.s.as_ref().map_or(0, |value| __protocol.faststr_field_len(Some(2), value)) +self.flag.as_ref().map_or(0, |value| __protocol.bool_field_len(Some(3), *value)) +self._unknown_fields.size() + __protocol.field_stop_len() + __protocol.struct_end_len()
                }
            }
                                impl ::std::default::Default for Df44 {
                                    fn default() -> Self {
                                        Df44 {
                                            d1: Some(::pilota::AHashSet::from([::pilota::FastStr::from_static_str("x"),::pilota::FastStr::from_static_str("x")])),
plain: ::std::default::Default::default(),
d2: Some(-1i8),
d3: Some(-1i16),
_unknown_fields: ::pilota::LinkedBytes::new()
                                        }
                                    }
                                }
                            #[derive(Debug)]#[derive(Clone, PartialEq)]
                pub struct Df44 {

                        pub d1: ::std::option::Option<::pilota::AHashSet<::pilota::FastStr>>,

                        pub plain: ::std::option::Option<i32>,

                        pub d2: ::std::option::Option<i8>,

                        pub d3: ::std::option::Option<i16>,pub _unknown_fields: ::pilota::LinkedBytes,
                }
            impl ::pilota::thrift::Message for Df44 {
                fn encode<T: ::pilota::thrift::TOutputProtocol>(
                    &self,
                    __protocol: &mut T,
                ) -> ::std::result::Result<(),::pilota::thrift::ThriftException> {
                    #[allow(unused_imports)]
                    use ::pilota::thrift::TOutputProtocolExt;
                    let struct_ident =::pilota::thrift::TStructIdentifier {
                    name: "Df44",
                };

                __protocol.write_struct_begin(&struct_ident)?;
                if let Some(value) = self.d1.as_ref() {
                        __protocol.write_set_field(127, ::pilota::thrift::TType::Binary, &value, |__protocol, val| {
                __protocol.write_faststr((val).clone())?;
                ::std::result::Result::Ok(())
            })?;
                    }if let Some(value) = self.plain.as_ref() {
                        __protocol.write_i32_field(1171, *value)?;
                    }if let Some(value) = self.d2.as_ref() {
                        __protocol.write_i8_field(128, *value)?;
                    }if let Some(value) = self.d3.as_ref() {
                        __protocol.write_i16_field(300, *value)?;
                    }for bytes in self._unknown_fields.list.iter() {
                                __protocol.write_bytes_without_len(bytes.clone());
                            }
                __protocol.write_field_stop()?;
                __protocol.write_struct_end()?;
                ::std::result::Result::Ok(())

                }

                fn decode<T: ::pilota::thrift::TInputProtocol>(
                    __protocol: &mut T,
                ) -> ::std::result::Result<Self,::pilota::thrift::ThriftException>  {
                    #[allow(unused_imports)]
                    use ::pilota::{thrift::TLengthProtocolExt, Buf};


            let mut var_127 = None;let mut var_1171 = None;let mut var_128 = Some(-1i8);let mut var_300 = Some(-1i16);let mut _unknown_fields = ::pilota::LinkedBytes::new();

            let mut __pilota_decoding_field_id = None;

            __protocol.read_struct_begin()?;
            if let ::std::result::Result::Err(mut err) = (|| {
                    loop {

                let mut __pilota_offset = 0;
            let __pilota_begin_ptr = __protocol.buf().chunk().as_ptr();
                let field_ident = __protocol.read_field_begin()?;
                if field_ident.field_type == ::pilota::thrift::TType::Stop {
                    __pilota_offset += __protocol.field_stop_len();
                    break;
                } else {
                    __pilota_offset += __protocol.field_begin_len(field_ident.field_type, field_ident.id);
                }
                __pilota_decoding_field_id = field_ident.id;
                match field_ident.id {
                    Some(127) if field_ident.field_type == ::pilota::thrift::TType::Set  => {
                    var_127 = Some({let list_ident = __protocol.read_set_begin()?;
                    let mut val = ::pilota::AHashSet::with_capacity(list_ident.size);
                    for _ in 0..list_ident.size {
                        val.insert(__protocol.read_faststr()?);
                    };
                    __protocol.read_set_end()?;
                    val});

                },Some(1171) if field_ident.field_type == ::pilota::thrift::TType::I32  => {
                    var_1171 = Some(__protocol.read_i32()?);

                },Some(128) if field_ident.field_type == ::pilota::thrift::TType::I8  => {
                    var_128 = Some(__protocol.read_i8()?);

                },Some(300) if field_ident.field_type == ::pilota::thrift::TType::I16  => {
                    var_300 = Some(__protocol.read_i16()?);

                },
                    _ => {
                        __pilota_offset += __protocol.skip(field_ident.field_type)?;
                        _unknown_fields.push_back(__protocol.get_bytes(Some(__pilota_begin_ptr), __pilota_offset)?);
                    },
                }

                __protocol.read_field_end()?;
                __pilota_offset += __protocol.field_end_len();

            };
                    ::std::result::Result::Ok::<_, ::pilota::thrift::ThriftException>(())
                })() {
                if let Some(field_id) = __pilota_decoding_field_id {
                    err.prepend_msg(&format!("decode struct `Df44` field(#{}) failed, caused by: ", field_id));
                }
                return ::std::result::Result::Err(err);
            };
            __protocol.read_struct_end()?;



            if var_127.is_none() {
                                var_127 = Some(::pilota::AHashSet::from([::pilota::FastStr::from_static_str("x"),::pilota::FastStr::from_static_str("x")]));
                            }

            let data = Self {
                d1: var_127,plain: var_1171,d2: var_128,d3: var_300, _unknown_fields
            };
            ::std::result::Result::Ok(data)

                }

                fn decode_async<'a, T: ::pilota::thrift::TAsyncInputProtocol>(
            __protocol: &'a mut T,
        ) -> ::std::pin::Pin<::std::boxed::Box<dyn ::std::future::Future<Output = ::std::result::Result<Self, ::pilota::thrift::ThriftException>> + Send + 'a>> {
            ::std::boxed::Box::pin(async move {


            let mut var_127 = None;let mut var_1171 = None;let mut var_128 = Some(-1i8);let mut var_300 = Some(-1i16);

            let mut __pilota_decoding_field_id = None;

            __protocol.read_struct_begin().await?;
            if let ::std::result::Result::Err(mut err) = async {
                    loop {


                let field_ident = __protocol.read_field_begin().await?;
                if field_ident.field_type == ::pilota::thrift::TType::Stop {

                    break;
                } else {

                }
                __pilota_decoding_field_id = field_ident.id;
                match field_ident.id {
                    Some(127) if field_ident.field_type == ::pilota::thrift::TType::Set  => {
                    var_127 = Some({let list_ident = __protocol.read_set_begin().await?;
                    let mut val = ::pilota::AHashSet::with_capacity(list_ident.size);
                    for _ in 0..list_ident.size {
                        val.insert(__protocol.read_faststr().await?);
                    };
                    __protocol.read_set_end().await?;
                    val});

                },Some(1171) if field_ident.field_type == ::pilota::thrift::TType::I32  => {
                    var_1171 = Some(__protocol.read_i32().await?);

                },Some(128) if field_ident.field_type == ::pilota::thrift::TType::I8  => {
                    var_128 = Some(__protocol.read_i8().await?);

                },Some(300) if field_ident.field_type == ::pilota::thrift::TType::I16  => {
                    var_300 = Some(__protocol.read_i16().await?);

                },
                    _ => {
                        __protocol.skip(field_ident.field_type).await?;

                    },
                }

                __protocol.read_field_end().await?;


            };
                    ::std::result::Result::Ok::<_, ::pilota::thrift::ThriftException>(())
                }.await {
                if let Some(field_id) = __pilota_decoding_field_id {
                    err.prepend_msg(&format!("decode struct `Df44` field(#{}) failed, caused by: ", field_id));
                }
                return ::std::result::Result::Err(err);
            };
            __protocol.read_struct_end().await?;



            if var_127.is_none() {
                                var_127 = Some(::pilota::AHashSet::from([::pilota::FastStr::from_static_str("x"),::pilota::FastStr::from_static_str("x")]));
                            }

            let data = Self {
                d1: var_127,plain: var_1171,d2: var_128,d3: var_300, _unknown_fields: ::pilota::LinkedBytes::new()
            };
            ::std::result::Result::Ok(data)

            })
        }

                fn size<T: ::pilota::thrift::TLengthProtocol>(&self, __protocol: &mut T) -> usize {
                    #[allow(unused_imports)]
                    use ::pilota::thrift::TLengthProtocolExt;
                    __protocol.struct_begin_len(&::pilota::thrift::TStructIdentifier {
                    name: "Df44",
                }) + self.d1.as_ref().map_or(0, |value| __protocol.set_field_len(Some(127), ::pilota::thrift::TType::Binary, value, |__protocol, el| {
                __protocol.faststr_len(el)
            })) +self.plain.as_ref().map_or(0, |value| __protocol.i32_field_len(Some(1171), *value)) +self.d2.as_ref().map_or(0, |value| __protocol.i8_field_len(Some(128), *value)) +self.d3.as_ref().map_or(0, |value| __protocol.i16_field_len(Some(300), *value)) +self._unknown_fields.size() + __protocol.field_stop_len() + __protocol.struct_end_len()
                }
            }
                                impl ::std::default::Default for Df20 {
                                    fn default() -> Self {
                                        Df20 {
                                            d1: Some(::pilota::AHashSet::from([::pilota::FastStr::from_static_str("x"),::pilota::FastStr::from_static_str("x")])),
plain: ::std::default::Default::default(),
d2: Some(-1i8),
d3: Some(-1i16),
_unknown_fields: ::pilota::LinkedBytes::new()
                                        }
                                    }
                                }
                            #[derive(Debug)]#[derive(Clone, PartialEq)]
                pub struct Df20 {

                        pub d1: ::std::option::Option<::pilota::AHashSet<::pilota::FastStr>>,

                        pub plain: ::std::option::Option<i32>,

                        pub d2: ::std::option::Option<i8>,

                        pub d3: ::std::option::Option<i16>,pub _unknown_fields: ::pilota::LinkedBytes,
                }
            impl ::pilota::thrift::Message for Df20 {
                fn encode<T: ::pilota::thrift::TOutputProtocol>(
                    &self,
                    __protocol: &mut T,
                ) -> ::std::result::Result<(),::pilota::thrift::ThriftException> {
                    #[allow(unused_imports)]
                    use ::pilota::thrift::TOutputProtocolExt;
                    let struct_ident =::pilota::thrift::TStructIdentifier {
                    name: "Df20",
                };

                __protocol.write_struct_begin(&struct_ident)?;
                if let Some(value) = self.d1.as_ref() {
                        __protocol.write_set_field(5, ::pilota::thrift::TType::Binary, &value, |__protocol, val| {
                __protocol.write_faststr((val).clone())?;
                ::std::result::Result::Ok(())
            })?;
                    }if let Some(value) = self.plain.as_ref() {
                        __protocol.write_i32_field(1025, *value)?;
                    }if let Some(value) = self.d2.as_ref() {
                        __protocol.write_i8_field(20, *value)?;
                    }if let Some(value) = self.d3.as_ref() {
                        __protocol.write_i16_field(21, *value)?;
                    }for bytes in self._unknown_fields.list.iter() {
                                __protocol.write_bytes_without_len(bytes.clone());
                            }
                __protocol.write_field_stop()?;
                __protocol.write_struct_end()?;
                ::std::result::Result::Ok(())

                }

                fn decode<T: ::pilota::thrift::TInputProtocol>(
                    __protocol: &mut T,
                ) -> ::std::result::Result<Self,::pilota::thrift::ThriftException>  {
                    #[allow(unused_imports)]
                    use ::pilota::{thrift::TLengthProtocolExt, Buf};


            let mut var_5 = None;let mut var_1025 = None;let mut var_20 = Some(-1i8);let mut var_21 = Some(-1i16);let mut _unknown_fields = ::pilota::LinkedBytes::new();

            let mut __pilota_decoding_field_id = None;

            __protocol.read_struct_begin()?;
            if let ::std::result::Result::Err(mut err) = (|| {
                    loop {

                let mut __pilota_offset = 0;
            let __pilota_begin_ptr = __protocol.buf().chunk().as_ptr();
                let field_ident = __protocol.read_field_begin()?;
                if field_ident.field_type == ::pilota::thrift::TType::Stop {
                    __pilota_offset += __protocol.field_stop_len();
                    break;
                } else {
                    __pilota_offset += __protocol.field_begin_len(field_ident.field_type, field_ident.id);
                }
                __pilota_decoding_field_id = field_ident.id;
                match field_ident.id {
                    Some(5) if field_ident.field_type == ::pilota::thrift::TType::Set  => {
                    var_5 = Some({let list_ident = __protocol.read_set_begin()?;
                    let mut val = ::pilota::AHashSet::with_capacity(list_ident.size);
                    for _ in 0..list_ident.size {
                        val.insert(__protocol.read_faststr()?);
                    };
                    __protocol.read_set_end()?;
                    val});

                },Some(1025) if field_ident.field_type == ::pilota::thrift::TType::I32  => {
                    var_1025 = Some(__protocol.read_i32()?);

                },Some(20) if field_ident.field_type == ::pilota::thrift::TType::I8  => {
                    var_20 = Some(__protocol.read_i8()?);

                },Some(21) if field_ident.field_type == ::pilota::thrift::TType::I16  => {
                    var_21 = Some(__protocol.read_i16()?);

                },
                    _ => {
                        __pilota_offset += __protocol.skip(field_ident.field_type)?;
                        _unknown_fields.push_back(__protocol.get_bytes(Some(__pilota_begin_ptr), __pilota_offset)?);
                    },
                }

                __protocol.read_field_end()?;
                __pilota_offset += __protocol.field_end_len();

            };
                    ::std::result::Result::Ok::<_, ::pilota::thrift::ThriftException>(())
                })() {
                if let Some(field_id) = __pilota_decoding_field_id {
                    err.prepend_msg(&format!("decode struct `Df20` field(#{}) failed, caused by: ", field_id));
                }
                return ::std::result::Result::Err(err);
            };
            __protocol.read_struct_end()?;



            if var_5.is_none() {
                                var_5 = Some(::pilota::AHashSet::from([::pilota::FastStr::from_static_str("x"),::pilota::FastStr::from_static_str("x")]));
                            }

            let data = Self {
                d1: var_5,plain: var_1025,d2: var_20,d3: var_21, _unknown_fields
            };
            ::std::result::Result::Ok(data)

                }

                fn decode_async<'a, T: ::pilota::thrift::TAsyncInputProtocol>(
            __protocol: &'a mut T,
        ) -> ::std::pin::Pin<::std::boxed::Box<dyn ::std::future::Future<Output = ::std::result::Result<Self, ::pilota::thrift::ThriftException>> + Send + 'a>> {
            ::std::boxed::Box::pin(async move {


            let mut var_5 = None;let mut var_1025 = None;let mut var_20 = Some(-1i8);let mut var_21 = Some(-1i16);

            let mut __pilota_decoding_field_id = None;

            __protocol.read_struct_begin().await?;
            if let ::std::result::Result::Err(mut err) = async {
                    loop {


                let field_ident = __protocol.read_field_begin().await?;
                if field_ident.field_type == ::pilota::thrift::TType::Stop {

                    break;
                } else {

                }
                __pilota_decoding_field_id = field_ident.id;
                match field_ident.id {
                    Some(5) if field_ident.field_type == ::pilota::thrift::TType::Set  => {
                    var_5 = Some({let list_ident = __protocol.read_set_begin().await?;
                    let mut val = ::pilota::AHashSet::with_capacity(list_ident.size);
                    for _ in 0..list_ident.size {
                        val.insert(__protocol.read_faststr().await?);
                    };
                    __protocol.read_set_end().await?;
                    val});

                },Some(1025) if field_ident.field_type == ::pilota::thrift::TType::I32  => {
                    var_1025 = Some(__protocol.read_i32().await?);

                },Some(20) if field_ident.field_type == ::pilota::thrift::TType::I8  => {
                    var_20 = Some(__protocol.read_i8().await?);

                },Some(21) if field_ident.field_type == ::pilota::thrift::TType::I16  => {
                    var_21 = Some(__protocol.read_i16().await?);

                },
                    _ => {
                        __protocol.skip(field_ident.field_type).await?;

                    },
                }

                __protocol.read_field_end().await?;


            };
                    ::std::result::Result::Ok::<_, ::pilota::thrift::ThriftException>(())
                }.await {
                if let Some(field_id) = __pilota_decoding_field_id {
                    err.prepend_msg(&format!("decode struct `Df20` field(#{}) failed, caused by: ", field_id));
                }
                return ::std::result::Result::Err(err);
            };
            __protocol.read_struct_end().await?;



            if var_5.is_none() {
                                var_5 = Some(::pilota::AHashSet::from([::pilota::FastStr::from_static_str("x"),::pilota::FastStr::from_static_str("x")]));
                            }

            let data = Self {
                d1: var_5,plain: var_1025,d2: var_20,d3: var_21, _unknown_fields: ::pilota::LinkedBytes::new()
            };
            ::std::result::Result::Ok(data)

            })
        }

                fn size<T: ::pilota::thrift::TLengthProtocol>(&self, __protocol: &mut T) -> usize {
                    #[allow(unused_imports)]
                    use ::pilota::thrift::TLengthProtocolExt;
                    __protocol.struct_begin_len(&::pilota::thrift::TStructIdentifier {
                    name: "Df20",
                }) + self.d1.as_ref().map_or(0, |value| __protocol.set_field_len(Some(5), ::pilota::thrift::TType::Binary, value, |__protocol, el| {
                __protocol.faststr_len(el)
            })) +self.plain.as_ref().map_or(0, |value| __protocol.i32_field_len(Some(1025), *value)) +self.d2.as_ref().map_or(0, |value| __protocol.i8_field_len(Some(20), *value)) +self.d3.as_ref().map_or(0, |value| __protocol.i16_field_len(Some(21), *value)) +self._unknown_fields.size() + __protocol.field_stop_len() + __protocol.struct_end_len()
                }
            }pub const K_BIG: i64 = 5000000000i64;#[derive(PartialOrd)]
#[derive(Hash, Eq, Ord)]
#[derive(Debug)]
#[derive(Default)]#[derive(Clone, PartialEq)]
                pub struct Ex1 {

                        pub message: ::std::option::Option<::pilota::FastStr>,

                        pub code: ::std::option::Option<i32>,pub _unknown_fields: ::pilota::LinkedBytes,
                }
            impl ::pilota::thrift::Message for Ex1 {
                fn encode<T: ::pilota::thrift::TOutputProtocol>(
                    &self,
                    __protocol: &mut T,
                ) -> ::std::result::Result<(),::pilota::thrift::ThriftException> {
                    #[allow(unused_imports)]
                    use ::pilota::thrift::TOutputProtocolExt;
                    let struct_ident =::pilota::thrift::TStructIdentifier {
                    name: "Ex1",
                };

                __protocol.write_struct_begin(&struct_ident)?;
                if let Some(value) = self.message.as_ref() {
                        __protocol.write_faststr_field(1, (value).clone())?;
                    }if let Some(value) = self.code.as_ref() {
                        __protocol.write_i32_field(2, *value)?;
                    }for bytes in self._unknown_fields.list.iter() {
                                __protocol.write_bytes_without_len(bytes.clone());
                            }
                __protocol.write_field_stop()?;
                __protocol.write_struct_end()?;
                ::std::result::Result::Ok(())

                }

                fn decode<T: ::pilota::thrift::TInputProtocol>(
                    __protocol: &mut T,
                ) -> ::std::result::Result<Self,::pilota::thrift::ThriftException>  {
                    #[allow(unused_imports)]
                    use ::pilota::{thrift::TLengthProtocolExt, Buf};


            let mut var_1 = None;let mut var_2 = None;let mut _unknown_fields = ::pilota::LinkedBytes::new();

            let mut __pilota_decoding_field_id = None;

            __protocol.read_struct_begin()?;
            if let ::std::result::Result::Err(mut err) = (|| {
                    loop {

                let mut __pilota_offset = 0;
            let __pilota_begin_ptr = __protocol.buf().chunk().as_ptr();
                let field_ident = __protocol.read_field_begin()?;
                if field_ident.field_type == ::pilota::thrift::TType::Stop {
                    __pilota_offset += __protocol.field_stop_len();
                    break;
                } else {
                    __pilota_offset += __protocol.field_begin_len(field_ident.field_type, field_ident.id);
                }
                __pilota_decoding_field_id = field_ident.id;
                match field_ident.id {
                    Some(1) if field_ident.field_type == ::pilota::thrift::TType::Binary  => {
                    var_1 = Some(__protocol.read_faststr()?);

                },Some(2) if field_ident.field_type == ::pilota::thrift::TType::I32  => {
                    var_2 = Some(__protocol.read_i32()?);

                },
                    _ => {
                        __pilota_offset += __protocol.skip(field_ident.field_type)?;
                        _unknown_fields.push_back(__protocol.get_bytes(Some(__pilota_begin_ptr), __pilota_offset)?);
                    },
                }

                __protocol.read_field_end()?;
                __pilota_offset += __protocol.field_end_len();

            };
                    ::std::result::Result::Ok::<_, ::pilota::thrift::ThriftException>(())
                })() {
                if let Some(field_id) = __pilota_decoding_field_id {
                    err.prepend_msg(&format!("decode struct `Ex1` field(#{}) failed, caused by: ", field_id));
                }
                return ::std::result::Result::Err(err);
            };
            __protocol.read_struct_end()?;





            let data = Self {
                message: var_1,code: var_2, _unknown_fields
            };
            ::std::result::Result::Ok(data)

                }

                fn decode_async<'a, T: ::pilota::thrift::TAsyncInputProtocol>(
            __protocol: &'a mut T,
        ) -> ::std::pin::Pin<::std::boxed::Box<dyn ::std::future::Future<Output = ::std::result::Result<Self, ::pilota::thrift::ThriftException>> + Send + 'a>> {
            ::std::boxed::Box::pin(async move {


            let mut var_1 = None;let mut var_2 = None;

            let mut __pilota_decoding_field_id = None;

            __protocol.read_struct_begin().await?;
            if let ::std::result::Result::Err(mut err) = async {
                    loop {


                let field_ident = __protocol.read_field_begin().await?;
                if field_ident.field_type == ::pilota::thrift::TType::Stop {

                    break;
                } else {

                }
                __pilota_decoding_field_id = field_ident.id;
                match field_ident.id {
                    Some(1) if field_ident.field_type == ::pilota::thrift::TType::Binary  => {
                    var_1 = Some(__protocol.read_faststr().await?);

                },Some(2) if field_ident.field_type == ::pilota::thrift::TType::I32  => {
                    var_2 = Some(__protocol.read_i32().await?);

                },
                    _ => {
                        __protocol.skip(field_ident.field_type).await?;

                    },
                }

                __protocol.read_field_end().await?;


            };
                    ::std::result::Result::Ok::<_, ::pilota::thrift::ThriftException>(())
                }.await {
                if let Some(field_id) = __pilota_decoding_field_id {
                    err.prepend_msg(&format!("decode struct `Ex1` field(#{}) failed, caused by: ", field_id));
                }
                return ::std::result::Result::Err(err);
            };
            __protocol.read_struct_end().await?;





            let data = Self {
                message: var_1,code: var_2, _unknown_fields: ::pilota::LinkedBytes::new()
            };
            ::std::result::Result::Ok(data)

            })
        }

                fn size<T: ::pilota::thrift::TLengthProtocol>(&self, __protocol: &mut T) -> usize {
                    #[allow(unused_imports)]
                    use ::pilota::thrift::TLengthProtocolExt;
                    __protocol.struct_begin_len(&::pilota::thrift::TStructIdentifier {
                    name: "Ex1",
                }) + self.message.as_ref().map_or(0, |value| __protocol.faststr_field_len(Some(1), value)) +self.code.as_ref().map_or(0, |value| __protocol.i32_field_len(Some(2), *value)) +self._unknown_fields.size() + __protocol.field_stop_len() + __protocol.struct_end_len()
                }
            }
                                impl ::std::default::Default for Df51 {
                                    fn default() -> Self {
                                        Df51 {
                                            d1: -2147483648i32,
plain: ::std::default::Default::default(),
d2: 0i32,
d3: 9223372036854775807i64,
_unknown_fields: ::pilota::LinkedBytes::new()
                                        }
                                    }
                                }
                            #[derive(PartialOrd)]
#[derive(Hash, Eq, Ord)]
#[derive(Debug)]#[derive(Clone, PartialEq)]
                pub struct Df51 {

                        pub d1: i32,

                        pub plain: ::std::option::Option<i32>,

                        pub d2: i32,

                        pub d3: i64,pub _unknown_fields: ::pilota::LinkedBytes,
                }
            impl ::pilota::thrift::Message for Df51 {
                fn encode<T: ::pilota::thrift::TOutputProtocol>(
                    &self,
                    __protocol: &mut T,
                ) -> ::std::result::Result<(),::pilota::thrift::ThriftException> {
                    #[allow(unused_imports)]
                    use ::pilota::thrift::TOutputProtocolExt;
                    let struct_ident =::pilota::thrift::TStructIdentifier {
                    name: "Df51",
                };

                __protocol.write_struct_begin(&struct_ident)?;
                __protocol.write_i32_field(3, *&self.d1)?;if let Some(value) = self.plain.as_ref() {
                        __protocol.write_i32_field(1054, *value)?;
                    }__protocol.write_i32_field(4, *&self.d2)?;__protocol.write_i64_field(17, *&self.d3)?;for bytes in self._unknown_fields.list.iter() {
                                __protocol.write_bytes_without_len(bytes.clone());
                            }
                __protocol.write_field_stop()?;
                __protocol.write_struct_end()?;
                ::std::result::Result::Ok(())

                }

                fn decode<T: ::pilota::thrift::TInputProtocol>(
                    __protocol: &mut T,
                ) -> ::std::result::Result<Self,::pilota::thrift::ThriftException>  {
                    #[allow(unused_imports)]
                    use ::pilota::{thrift::TLengthProtocolExt, Buf};


            let mut var_3 = -2147483648i32;let mut var_1054 = None;let mut var_4 = 0i32;let mut var_17 = 9223372036854775807i64;let mut _unknown_fields = ::pilota::LinkedBytes::new();

            let mut __pilota_decoding_field_id = None;

            __protocol.read_struct_begin()?;
            if let ::std::result::Result::Err(mut err) = (|| {
                    loop {

                let mut __pilota_offset = 0;
            let __pilota_begin_ptr = __protocol.buf().chunk().as_ptr();
                let field_ident = __protocol.read_field_begin()?;
                if field_ident.field_type == ::pilota::thrift::TType::Stop {
                    __pilota_offset += __protocol.field_stop_len();
                    break;
                } else {
                    __pilota_offset += __protocol.field_begin_len(field_ident.field_type, field_ident.id);
                }
                __pilota_decoding_field_id = field_ident.id;
                match field_ident.id {
                    Some(3) if field_ident.field_type == ::pilota::thrift::TType::I32  => {
                    var_3 = __protocol.read_i32()?;

                },Some(1054) if field_ident.field_type == ::pilota::thrift::TType::I32  => {
                    var_1054 = Some(__protocol.read_i32()?);

                },Some(4) if field_ident.field_type == ::pilota::thrift::TType::I32  => {
                    var_4 = __protocol.read_i32()?;

                },Some(17) if field_ident.field_type == ::pilota::thrift::TType::I64  => {
                    var_17 = __protocol.read_i64()?;

                },
                    _ => {
                        __pilota_offset += __protocol.skip(field_ident.field_type)?;
                        _unknown_fields.push_back(__protocol.get_bytes(Some(__pilota_begin_ptr), __pilota_offset)?);
                    },
                }

                __protocol.read_field_end()?;
                __pilota_offset += __protocol.field_end_len();

            };
                    ::std::result::Result::Ok::<_, ::pilota::thrift::ThriftException>(())
                })() {
                if let Some(field_id) = __pilota_decoding_field_id {
                    err.prepend_msg(&format!("decode struct `Df51` field(#{}) failed, caused by: ", field_id));
                }
                return ::std::result::Result::Err(err);
            };
            __protocol.read_struct_end()?;





            let data = Self {
                d1: var_3,plain: var_1054,d2: var_4,d3: var_17, _unknown_fields
            };
            ::std::result::Result::Ok(data)

                }

                fn decode_async<'a, T: ::pilota::thrift::TAsyncInputProtocol>(
            __protocol: &'a mut T,
        ) -> ::std::pin::Pin<::std::boxed::Box<dyn ::std::future::Future<Output = ::std::result::Result<Self, ::pilota::thrift::ThriftException>> + Send + 'a>> {
            ::std::boxed::Box::pin(async move {


            let mut var_3 = -2147483648i32;let mut var_1054 = None;let mut var_4 = 0i32;let mut var_17 = 9223372036854775807i64;

            let mut __pilota_decoding_field_id = None;

            __protocol.read_struct_begin().await?;
            if let ::std::result::Result::Err(mut err) = async {
                    loop {


                let field_ident = __protocol.read_field_begin().await?;
                if field_ident.field_type == ::pilota::thrift::TType::Stop {

                    break;
                } else {

                }
                __pilota_decoding_field_id = field_ident.id;
                match field_ident.id {
                    Some(3) if field_ident.field_type == ::pilota::thrift::TType::I32  => {
                    var_3 = __protocol.read_i32().await?;

                },Some(1054) if field_ident.field_type == ::pilota::thrift::TType::I32  => {
                    var_1054 = Some(__protocol.read_i32().await?);

                },Some(4) if field_ident.field_type == ::pilota::thrift::TType::I32  => {
                    var_4 = __protocol.read_i32().await?;

                },Some(17) if field_ident.field_type == ::pilota::thrift::TType::I64  => {
                    var_17 = __protocol.read_i64().await?;

                },
                    _ => {
                        __protocol.skip(field_ident.field_type).await?;

                    },
                }

                __protocol.read_field_end().await?;


            };
                    ::std::result::Result::Ok::<_, ::pilota::thrift::ThriftException>(())
                }.await {
                if let Some(field_id) = __pilota_decoding_field_id {
                    err.prepend_msg(&format!("decode struct `Df51` field(#{}) failed, caused by: ", field_id));
                }
                return ::std::result::Result::Err(err);
            };
            __protocol.read_struct_end().await?;





            let data = Self {
                d1: var_3,plain: var_1054,d2: var_4,d3: var_17, _unknown_fields: ::pilota::LinkedBytes::new()
            };
            ::std::result::Result::Ok(data)

            })
        }

                fn size<T: ::pilota::thrift::TLengthProtocol>(&self, __protocol: &mut T) -> usize {
                    #[allow(unused_imports)]
                    use ::pilota::thrift::TLengthProtocolExt;
                    __protocol.struct_begin_len(&::pilota::thrift::TStructIdentifier {
                    name: "Df51",
                }) + __protocol.i32_field_len(Some(3), *&self.d1) +self.plain.as_ref().map_or(0, |value| __protocol.i32_field_len(Some(1054), *value)) +__protocol.i32_field_len(Some(4), *&self.d2) +__protocol.i64_field_len(Some(17), *&self.d3) +self._unknown_fields.size() + __protocol.field_stop_len() + __protocol.struct_end_len()
                }
            }
                                impl ::std::default::Default for Df27 {
                                    fn default() -> Self {
                                        Df27 {
                                            d1: Some(-2147483648i32),
plain: ::std::default::Default::default(),
d2: Some(0i32),
d3: Some(9223372036854775807i64),
_unknown_fields: ::pilota::LinkedBytes::new()
                                        }
                                    }
                                }
                            #[derive(PartialOrd)]
#[derive(Hash, Eq, Ord)]
#[derive(Debug)]#[derive(Clone, PartialEq)]
                pub struct Df27 {

                        pub d1: ::std::option::Option<i32>,

                        pub plain: ::std::option::Option<i32>,

                        pub d2: ::std::option::Option<i32>,

                        pub d3: ::std::option::Option<i64>,pub _unknown_fields: ::pilota::LinkedBytes,
                }
            impl ::pilota::thrift::Message for Df27 {
                fn encode<T: ::pilota::thrift::TOutputProtocol>(
                    &self,
                    __protocol: &mut T,
                ) -> ::std::result::Result<(),::pilota::thrift::ThriftException> {
                    #[allow(unused_imports)]
                    use ::pilota::thrift::TOutputProtocolExt;
                    let struct_ident =::pilota::thrift::TStructIdentifier {
                    name: "Df27",
                };

                __protocol.write_struct_begin(&struct_ident)?;
                if let Some(value) = self.d1.as_ref() {
                        __protocol.write_i32_field(1, *value)?;
                    }if let Some(value) = self.plain.as_ref() {
                        __protocol.write_i32_field(1028, *value)?;
                    }if let Some(value) = self.d2.as_ref() {
                        __protocol.write_i32_field(2, *value)?;
                    }if let Some(value) = self.d3.as_ref() {
                        __protocol.write_i64_field(32767, *value)?;
                    }for bytes in self._unknown_fields.list.iter() {
                                __protocol.write_bytes_without_len(bytes.clone());
                            }
                __protocol.write_field_stop()?;
                __protocol.write_struct_end()?;
                ::std::result::Result::Ok(())

                }

                fn decode<T: ::pilota::thrift::TInputProtocol>(
                    __protocol: &mut T,
                ) -> ::std::result::Result<Self,::pilota::thrift::ThriftException>  {
                    #[allow(unused_imports)]
                    use ::pilota::{thrift::TLengthProtocolExt, Buf};


            let mut var_1 = Some(-2147483648i32);let mut var_1028 = None;let mut var_2 = Some(0i32);let mut var_32767 = Some(9223372036854775807i64);let mut _unknown_fields = ::pilota::LinkedBytes::new();

            let mut __pilota_decoding_field_id = None;

            __protocol.read_struct_begin()?;
            if let ::std::result::Result::Err(mut err) = (|| {
                    loop {

                let mut __pilota_offset = 0;
            let __pilota_begin_ptr = __protocol.buf().chunk().as_ptr();
                let field_ident = __protocol.read_field_begin()?;
                if field_ident.field_type == ::pilota::thrift::TType::Stop {
                    __pilota_offset += __protocol.field_stop_len();
                    break;
                } else {
                    __pilota_offset += __protocol.field_begin_len(field_ident.field_type, field_ident.id);
                }
                __pilota_decoding_field_id = field_ident.id;
                match field_ident.id {
                    Some(1) if field_ident.field_type == ::pilota::thrift::TType::I32  => {
                    var_1 = Some(__protocol.read_i32()?);

                },Some(1028) if field_ident.field_type == ::pilota::thrift::TType::I32  => {
                    var_1028 = Some(__protocol.read_i32()?);

                },Some(2) if field_ident.field_type == ::pilota::thrift::TType::I32  => {
                    var_2 = Some(__protocol.read_i32()?);

                },Some(32767) if field_ident.field_type == ::pilota::thrift::TType::I64  => {
                    var_32767 = Some(__protocol.read_i64()?);

                },
                    _ => {
                        __pilota_offset += __protocol.skip(field_ident.field_type)?;
                        _unknown_fields.push_back(__protocol.get_bytes(Some(__pilota_begin_ptr), __pilota_offset)?);
                    },
                }

                __protocol.read_field_end()?;
                __pilota_offset += __protocol.field_end_len();

            };
                    ::std::result::Result::Ok::<_, ::pilota::thrift::ThriftException>(())
                })() {
                if let Some(field_id) = __pilota_decoding_field_id {
                    err.prepend_msg(&format!("decode struct `Df27` field(#{}) failed, caused by: ", field_id));
                }
                return ::std::result::Result::Err(err);
            };
            __protocol.read_struct_end()?;





            let data = Self {
                d1: var_1,plain: var_1028,d2: var_2,d3: var_32767, _unknown_fields
            };
            ::std::result::Result::Ok(data)

                }

                fn decode_async<'a, T: ::pilota::thrift::TAsyncInputProtocol>(
            __protocol: &'a mut T,
        ) -> ::std::pin::Pin<::std::boxed::Box<dyn ::std::future::Future<Output = ::std::result::Result<Self, ::pilota::thrift::ThriftException>> + Send + 'a>> {
            ::std::boxed::Box::pin(async move {


            let mut var_1 = Some(-2147483648i32);let mut var_1028 = None;let mut var_2 = Some(0i32);let mut var_32767 = Some(9223372036854775807i64);

            let mut __pilota_decoding_field_id = None;

            __protocol.read_struct_begin().await?;
            if let ::std::result::Result::Err(mut err) = async {
                    loop {


                let field_ident = __protocol.read_field_begin().await?;
                if field_ident.field_type == ::pilota::thrift::TType::Stop {

                    break;
                } else {

                }
                __pilota_decoding_field_id = field_ident.id;
                match field_ident.id {
                    Some(1) if field_ident.field_type == ::pilota::thrift::TType::I32  => {
                    var_1 = Some(__protocol.read_i32().await?);

                },Some(1028) if field_ident.field_type == ::pilota::thrift::TType::I32  => {
                    var_1028 = Some(__protocol.read_i32().await?);

                },Some(2) if field_ident.field_type == ::pilota::thrift::TType::I32  => {
                    var_2 = Some(__protocol.read_i32().await?);

                },Some(32767) if field_ident.field_type == ::pilota::thrift::TType::I64  => {
                    var_32767 = Some(__protocol.read_i64().await?);

                },
                    _ => {
                        __protocol.skip(field_ident.field_type).await?;

                    },
                }

                __protocol.read_field_end().await?;


            };
                    ::std::result::Result::Ok::<_, ::pilota::thrift::ThriftException>(())
                }.await {
                if let Some(field_id) = __pilota_decoding_field_id {
                    err.prepend_msg(&format!("decode struct `Df27` field(#{}) failed, caused by: ", field_id));
                }
                return ::std::result::Result::Err(err);
            };
            __protocol.read_struct_end().await?;





            let data = Self {
                d1: var_1,plain: var_1028,d2: var_2,d3: var_32767, _unknown_fields: ::pilota::LinkedBytes::new()
            };
            ::std::result::Result::Ok(data)

            })
        }

                fn size<T: ::pilota::thrift::TLengthProtocol>(&self, __protocol: &mut T) -> usize {
                    #[allow(unused_imports)]
                    use ::pilota::thrift::TLengthProtocolExt;
                    __protocol.struct_begin_len(&::pilota::thrift::TStructIdentifier {
                    name: "Df27",
                }) + self.d1.as_ref().map_or(0, |value| __protocol.i32_field_len(Some(1), *value)) +self.plain.as_ref().map_or(0, |value| __protocol.i32_field_len(Some(1028), *value)) +self.d2.as_ref().map_or(0, |value| __protocol.i32_field_len(Some(2), *value)) +self.d3.as_ref().map_or(0, |value| __protocol.i64_field_len(Some(32767), *value)) +self._unknown_fields.size() + __protocol.field_stop_len() + __protocol.struct_end_len()
                }
            }
                                impl ::std::default::Default for Df3 {
                                    fn default() -> Self {
                                        Df3 {
                                            d1: Some(-2147483648i32),
plain: ::std::default::Default::default(),
d2: Some(0i32),
d3: Some(9223372036854775807i64),
_unknown_fields: ::pilota::LinkedBytes::new()
                                        }
                                    }
                                }
                            #[derive(PartialOrd)]
#[derive(Hash, Eq, Ord)]
#[derive(Debug)]#[derive(Clone, PartialEq)]
                pub struct Df3 {

                        pub d1: ::std::option::Option<i32>,

                        pub plain: ::std::option::Option<i32>,

                        pub d2: ::std::option::Option<i32>,

                        pub d3: ::std::option::Option<i64>,pub _unknown_fields: ::pilota::LinkedBytes,
                }
            impl ::pilota::thrift::Message for Df3 {
                fn encode<T: ::pilota::thrift::TOutputProtocol>(
                    &self,
                    __protocol: &mut T,
                ) -> ::std::result::Result<(),::pilota::thrift::ThriftException> {
                    #[allow(unused_imports)]
                    use ::pilota::thrift::TOutputProtocolExt;
                    let struct_ident =::pilota::thrift::TStructIdentifier {
                    name: "Df3",
                };

                __protocol.write_struct_begin(&struct_ident)?;
                if let Some(value) = self.d1.as_ref() {
                        __protocol.write_i32_field(127, *value)?;
                    }if let Some(value) = self.plain.as_ref() {
                        __protocol.write_i32_field(1130, *value)?;
                    }if let Some(value) = self.d2.as_ref() {
                        __protocol.write_i32_field(128, *value)?;
                    }if let Some(value) = self.d3.as_ref() {
                        __protocol.write_i64_field(300, *value)?;
                    }for bytes in self._unknown_fields.list.iter() {
                                __protocol.write_bytes_without_len(bytes.clone());
                            }
                __protocol.write_field_stop()?;
                __protocol.write_struct_end()?;
                ::std::result::Result::Ok(())

                }

                fn decode<T: ::pilota::thrift::TInputProtocol>(
                    __protocol: &mut T,
                ) -> ::std::result::Result<Self,::pilota::thrift::ThriftException>  {
                    #[allow(unused_imports)]
                    use ::pilota::{thrift::TLengthProtocolExt, Buf};


            let mut var_127 = Some(-2147483648i32);let mut var_1130 = None;let mut var_128 = Some(0i32);let mut var_300 = Some(9223372036854775807i64);let mut _unknown_fields = ::pilota::LinkedBytes::new();

            let mut __pilota_decoding_field_id = None;

            __protocol.read_struct_begin()?;
            if let ::std::result::Result::Err(mut err) = (|| {
                    loop {

                let mut __pilota_offset = 0;
            let __pilota_begin_ptr = __protocol.buf().chunk().as_ptr();
                let field_ident = __protocol.read_field_begin()?;
                if field_ident.field_type == ::pilota::thrift::TType::Stop {
                    __pilota_offset += __protocol.field_stop_len();
                    break;
                } else {
                    __pilota_offset += __protocol.field_begin_len(field_ident.field_type, field_ident.id);
                }
                __pilota_decoding_field_id = field_ident.id;
                match field_ident.id {
                    Some(127) if field_ident.field_type == ::pilota::thrift::TType::I32  => {
                    var_127 = Some(__protocol.read_i32()?);

                },Some(1130) if field_ident.field_type == ::pilota::thrift::TType::I32  => {
                    var_1130 = Some(__protocol.read_i32()?);

                },Some(128) if field_ident.field_type == ::pilota::thrift::TType::I32  => {
                    var_128 = Some(__protocol.read_i32()?);

                },Some(300) if field_ident.field_type == ::pilota::thrift::TType::I64  => {
                    var_300 = Some(__protocol.read_i64()?);

                },
                    _ => {
                        __pilota_offset += __protocol.skip(field_ident.field_type)?;
                        _unknown_fields.push_back(__protocol.get_bytes(Some(__pilota_begin_ptr), __pilota_offset)?);
                    },
                }

                __protocol.read_field_end()?;
                __pilota_offset += __protocol.field_end_len();

            };
                    ::std::result::Result::Ok::<_, ::pilota::thrift::ThriftException>(())
                })() {
                if let Some(field_id) = __pilota_decoding_field_id {
                    err.prepend_msg(&format!("decode struct `Df3` field(#{}) failed, caused by: ", field_id));
                }
                return ::std::result::Result::Err(err);
            };
            __protocol.read_struct_end()?;





            let data = Self {
                d1: var_127,plain: var_1130,d2: var_128,d3: var_300, _unknown_fields
            };
            ::std::result::Result::Ok(data)

                }

                fn decode_async<'a, T: ::pilota::thrift::TAsyncInputProtocol>(
            __protocol: &'a mut T,
        ) -> ::std::pin::Pin<::std::boxed::Box<dyn ::std::future::Future<Output = ::std::result::Result<Self, ::pilota::thrift::ThriftException>> + Send + 'a>> {
            ::std::boxed::Box::pin(async move {


            let mut var_127 = Some(-2147483648i32);let mut var_1130 = None;let mut var_128 = Some(0i32);let mut var_300 = Some(9223372036854775807i64);

            let mut __pilota_decoding_field_id = None;

            __protocol.read_struct_begin().await?;
            if let ::std::result::Result::Err(mut err) = async {
                    loop {


                let field_ident = __protocol.read_field_begin().await?;
                if field_ident.field_type == ::pilota::thrift::TType::Stop {

                    break;
                } else {

                }
                __pilota_decoding_field_id = field_ident.id;
                match field_ident.id {
                    Some(127) if field_ident.field_type == ::pilota::thrift::TType::I32  => {
                    var_127 = Some(__protocol.read_i32().await?);

                },Some(1130) if field_ident.field_type == ::pilota::thrift::TType::I32  => {
                    var_1130 = Some(__protocol.read_i32().await?);

                },Some(128) if field_ident.field_type == ::pilota::thrift::TType::I32  => {
                    var_128 = Some(__protocol.read_i32().await?);

                },Some(300) if field_ident.field_type == ::pilota::thrift::TType::I64  => {
                    var_300 = Some(__protocol.read_i64().await?);

                },
                    _ => {
                        __protocol.skip(field_ident.field_type).await?;

                    },
                }

                __protocol.read_field_end().await?;


            };
                    ::std::result::Result::Ok::<_, ::pilota::thrift::ThriftException>(())
                }.await {
                if let Some(field_id) = __pilota_decoding_field_id {
                    err.prepend_msg(&format!("decode struct `Df3` field(#{}) failed, caused by: ", field_id));
                }
                return ::std::result::Result::Err(err);
            };
            __protocol.read_struct_end().await?;





            let data = Self {
                d1: var_127,plain: var_1130,d2: var_128,d3: var_300, _unknown_fields: ::pilota::LinkedBytes::new()
            };
            ::std::result::Result::Ok(data)

            })
        }

                fn size<T: ::pilota::thrift::TLengthProtocol>(&self, __protocol: &mut T) -> usize {
                    #[allow(unused_imports)]
                    use ::pilota::thrift::TLengthProtocolExt;
                    __protocol.struct_begin_len(&::pilota::thrift::TStructIdentifier {
                    name: "Df3",
                }) + self.d1.as_ref().map_or(0, |value| __protocol.i32_field_len(Some(127), *value)) +self.plain.as_ref().map_or(0, |value| __protocol.i32_field_len(Some(1130), *value)) +self.d2.as_ref().map_or(0, |value| __protocol.i32_field_len(Some(128), *value)) +self.d3.as_ref().map_or(0, |value| __protocol.i64_field_len(Some(300), *value)) +self._unknown_fields.size() + __protocol.field_stop_len() + __protocol.struct_end_len()
                }
            }
                                impl ::std::default::Default for Df58 {
                                    fn default() -> Self {
                                        Df58 {
                                            d1: E1::B,
plain: ::std::default::Default::default(),
d2: E1::C,
d3: TdI32(44i32),
_unknown_fields: ::pilota::LinkedBytes::new()
                                        }
                                    }
                                }
                            #[derive(PartialOrd)]
#[derive(Hash, Eq, Ord)]
#[derive(Debug)]#[derive(Clone, PartialEq)]
                pub struct Df58 {

                        pub d1: E1,

                        pub plain: ::std::option::Option<i32>,

                        pub d2: E1,

                        pub d3: TdI32,pub _unknown_fields: ::pilota::LinkedBytes,
                }
            impl ::pilota::thrift::Message for Df58 {
                fn encode<T: ::pilota::thrift::TOutputProtocol>(
                    &self,
                    __protocol: &mut T,
                ) -> ::std::result::Result<(),::pilota::thrift::ThriftException> {
                    #[allow(unused_imports)]
                    use ::pilota::thrift::TOutputProtocolExt;
                    let struct_ident =::pilota::thrift::TStructIdentifier {
                    name: "Df58",
                };

                __protocol.write_struct_begin(&struct_ident)?;
                __protocol.write_i32_field(1, (&self.d1).inner())?;if let Some(value) = self.plain.as_ref() {
                        __protocol.write_i32_field(1059, *value)?;
                    }__protocol.write_i32_field(2, (&self.d2).inner())?;__protocol.write_struct_field(3, &self.d3, ::pilota::thrift::TType::I32)?;for bytes in self._unknown_fields.list.iter() {
                                __protocol.write_bytes_without_len(bytes.clone());
                            }
                __protocol.write_field_stop()?;
                __protocol.write_struct_end()?;
                ::std::result::Result::Ok(())

                }

                fn decode<T: ::pilota::thrift::TInputProtocol>(
                    __protocol: &mut T,
                ) -> ::std::result::Result<Self,::pilota::thrift::ThriftException>  {
                    #[allow(unused_imports)]
                    use ::pilota::{thrift::TLengthProtocolExt, Buf};


            let mut var_1 = E1::B;let mut var_1059 = None;let mut var_2 = E1::C;let mut var_3 = TdI32(44i32);let mut _unknown_fields = ::pilota::LinkedBytes::new();

            let mut __pilota_decoding_field_id = None;

            __protocol.read_struct_begin()?;
            if let ::std::result::Result::Err(mut err) = (|| {
                    loop {

                let mut __pilota_offset = 0;
            let __pilota_begin_ptr = __protocol.buf().chunk().as_ptr();
                let field_ident = __protocol.read_field_begin()?;
                if field_ident.field_type == ::pilota::thrift::TType::Stop {
                    __pilota_offset += __protocol.field_stop_len();
                    break;
                } else {
                    __pilota_offset += __protocol.field_begin_len(field_ident.field_type, field_ident.id);
                }
                __pilota_decoding_field_id = field_ident.id;
                match field_ident.id {
                    Some(1) if field_ident.field_type == ::pilota::thrift::TType::I32  => {
                    var_1 = ::pilota::thrift::Message::decode(__protocol)?;

                },Some(1059) if field_ident.field_type == ::pilota::thrift::TType::I32  => {
                    var_1059 = Some(__protocol.read_i32()?);

                },Some(2) if field_ident.field_type == ::pilota::thrift::TType::I32  => {
                    var_2 = ::pilota::thrift::Message::decode(__protocol)?;

                },Some(3) if field_ident.field_type == ::pilota::thrift::TType::I32  => {
                    var_3 = ::pilota::thrift::Message::decode(__protocol)?;

                },
                    _ => {
                        __pilota_offset += __protocol.skip(field_ident.field_type)?;
                        _unknown_fields.push_back(__protocol.get_bytes(Some(__pilota_begin_ptr), __pilota_offset)?);
                    },
                }

                __protocol.read_field_end()?;
                __pilota_offset += __protocol.field_end_len();

            };
                    ::std::result::Result::Ok::<_, ::pilota::thrift::ThriftException>(())
                })() {
                if let Some(field_id) = __pilota_decoding_field_id {
                    err.prepend_msg(&format!("decode struct `Df58` field(#{}) failed, caused by: ", field_id));
                }
                return ::std::result::Result::Err(err);
            };
            __protocol.read_struct_end()?;





            let data = Self {
                d1: var_1,plain: var_1059,d2: var_2,d3: var_3, _unknown_fields
            };
            ::std::result::Result::Ok(data)

                }

                fn decode_async<'a, T: ::pilota::thrift::TAsyncInputProtocol>(
            __protocol: &'a mut T,
        ) -> ::std::pin::Pin<::std::boxed::Box<dyn ::std::future::Future<Output = ::std::result::Result<Self, ::pilota::thrift::ThriftException>> + Send + 'a>> {
            ::std::boxed::Box::pin(async move {


            let mut var_1 = E1::B;let mut var_1059 = None;let mut var_2 = E1::C;let mut var_3 = TdI32(44i32);

            let mut __pilota_decoding_field_id = None;

            __protocol.read_struct_begin().await?;
            if let ::std::result::Result::Err(mut err) = async {
                    loop {


                let field_ident = __protocol.read_field_begin().await?;
                if field_ident.field_type == ::pilota::thrift::TType::Stop {

                    break;
                } else {

                }
                __pilota_decoding_field_id = field_ident.id;
                match field_ident.id {
                    Some(1) if field_ident.field_type == ::pilota::thrift::TType::I32  => {
                    var_1 = <E1 as ::pilota::thrift::Message>::decode_async(__protocol).await?;

                },Some(1059) if field_ident.field_type == ::pilota::thrift::TType::I32  => {
                    var_1059 = Some(__protocol.read_i32().await?);

                },Some(2) if field_ident.field_type == ::pilota::thrift::TType::I32  => {
                    var_2 = <E1 as ::pilota::thrift::Message>::decode_async(__protocol).await?;

                },Some(3) if field_ident.field_type == ::pilota::thrift::TType::I32  => {
                    var_3 = <TdI32 as ::pilota::thrift::Message>::decode_async(__protocol).await?;

                },
                    _ => {
                        __protocol.skip(field_ident.field_type).await?;

                    },
                }

                __protocol.read_field_end().await?;


            };
                    ::std::result::Result::Ok::<_, ::pilota::thrift::ThriftException>(())
                }.await {
                if let Some(field_id) = __pilota_decoding_field_id {
                    err.prepend_msg(&format!("decode struct `Df58` field(#{}) failed, caused by: ", field_id));
                }
                return ::std::result::Result::Err(err);
            };
            __protocol.read_struct_end().await?;





            let data = Self {
                d1: var_1,plain: var_1059,d2: var_2,d3: var_3, _unknown_fields: ::pilota::LinkedBytes::new()
            };
            ::std::result::Result::Ok(data)

            })
        }

                fn size<T: ::pilota::thrift::TLengthProtocol>(&self, __protocol: &mut T) -> usize {
                    #[allow(unused_imports)]
                    use ::pilota::thrift::TLengthProtocolExt;
                    __protocol.struct_begin_len(&::pilota::thrift::TStructIdentifier {
                    name: "Df58",
                }) + __protocol.i32_field_len(Some(1), (&self.d1).inner()) +self.plain.as_ref().map_or(0, |value| __protocol.i32_field_len(Some(1059), *value)) +__protocol.i32_field_len(Some(2), (&self.d2).inner()) +__protocol.struct_field_len(Some(3), &self.d3) +self._unknown_fields.size() + __protocol.field_stop_len() + __protocol.struct_end_len()
                }
            }
                                impl ::std::default::Default for Df34 {
                                    fn default() -> Self {
                                        Df34 {
                                            d1: Some(E1::B),
plain: ::std::default::Default::default(),
d2: Some(E1::C),
d3: Some(TdI32(44i32)),
_unknown_fields: ::pilota::LinkedBytes::new()
                                        }
                                    }
                                }
                            #[derive(PartialOrd)]
#[derive(Hash, Eq, Ord)]
#[derive(Debug)]#[derive(Clone, PartialEq)]
                pub struct Df34 {

                        pub d1: ::std::option::Option<E1>,

                        pub plain: ::std::option::Option<i32>,

                        pub d2: ::std::option::Option<E1>,

                        pub d3: ::std::option::Option<TdI32>,pub _unknown_fields: ::pilota::LinkedBytes,
                }
            impl ::pilota::thrift::Message for Df34 {
                fn encode<T: ::pilota::thrift::TOutputProtocol>(
                    &self,
                    __protocol: &mut T,
                ) -> ::std::result::Result<(),::pilota::thrift::ThriftException> {
                    #[allow(unused_imports)]
                    use ::pilota::thrift::TOutputProtocolExt;
                    let struct_ident =::pilota::thrift::TStructIdentifier {
                    name: "Df34",
                };

                __protocol.write_struct_begin(&struct_ident)?;
                if let Some(value) = self.d1.as_ref() {
                        __protocol.write_i32_field(3, (value).inner())?;
                    }if let Some(value) = self.plain.as_ref() {
                        __protocol.write_i32_field(1037, *value)?;
                    }if let Some(value) = self.d2.as_ref() {
                        __protocol.write_i32_field(4, (value).inner())?;
                    }if let Some(value) = self.d3.as_ref() {
                        __protocol.write_struct_field(17, value, ::pilota::thrift::TType::I32)?;
                    }for bytes in self._unknown_fields.list.iter() {
                                __protocol.write_bytes_without_len(bytes.clone());
                            }
                __protocol.write_field_stop()?;
                __protocol.write_struct_end()?;
                ::std::result::Result::Ok(())

                }

                fn decode<T: ::pilota::thrift::TInputProtocol>(
                    __protocol: &mut T,
                ) -> ::std::result::Result<Self,::pilota::thrift::ThriftException>  {
                    #[allow(unused_imports)]
                    use ::pilota::{thrift::TLengthProtocolExt, Buf};


            let mut var_3 = Some(E1::B);let mut var_1037 = None;let mut var_4 = Some(E1::C);let mut var_17 = Some(TdI32(44i32));let mut _unknown_fields = ::pilota::LinkedBytes::new();

            let mut __pilota_decoding_field_id = None;

            __protocol.read_struct_begin()?;
            if let ::std::result::Result::Err(mut err) = (|| {
                    loop {

                let mut __pilota_offset = 0;
            let __pilota_begin_ptr = __protocol.buf().chunk().as_ptr();
                let field_ident = __protocol.read_field_begin()?;
                if field_ident.field_type == ::pilota::thrift::TType::Stop {
                    __pilota_offset += __protocol.field_stop_len();
                    break;
                } else {
                    __pilota_offset += __protocol.field_begin_len(field_ident.field_type, field_ident.id);
                }
                __pilota_decoding_field_id = field_ident.id;
                match field_ident.id {
                    Some(3) if field_ident.field_type == ::pilota::thrift::TType::I32  => {
                    var_3 = Some(::pilota::thrift::Message::decode(__protocol)?);

                },Some(1037) if field_ident.field_type == ::pilota::thrift::TType::I32  => {
                    var_1037 = Some(__protocol.read_i32()?);

                },Some(4) if field_ident.field_type == ::pilota::thrift::TType::I32  => {
                    var_4 = Some(::pilota::thrift::Message::decode(__protocol)?);

                },Some(17) if field_ident.field_type == ::pilota::thrift::TType::I32  => {
                    var_17 = Some(::pilota::thrift::Message::decode(__protocol)?);

                },
                    _ => {
                        __pilota_offset += __protocol.skip(field_ident.field_type)?;
                        _unknown_fields.push_back(__protocol.get_bytes(Some(__pilota_begin_ptr), __pilota_offset)?);
                    },
                }

                __protocol.read_field_end()?;
                __pilota_offset += __protocol.field_end_len();

            };
                    ::std::result::Result::Ok::<_, ::pilota::thrift::ThriftException>(())
                })() {
                if let Some(field_id) = __pilota_decoding_field_id {
                    err.prepend_msg(&format!("decode struct `Df34` field(#{}) failed, caused by: ", field_id));
                }
                return ::std::result::Result::Err(err);
            };
            __protocol.read_struct_end()?;





            let data = Self {
                d1: var_3,plain: var_1037,d2: var_4,d3: var_17, _unknown_fields
            };
            ::std::result::Result::Ok(data)

                }

                fn decode_async<'a, T: ::pilota::thrift::TAsyncInputProtocol>(
            __protocol: &'a mut T,
        ) -> ::std::pin::Pin<::std::boxed::Box<dyn ::std::future::Future<Output = ::std::result::Result<Self, ::pilota::thrift::ThriftException>> + Send + 'a>> {
            ::std::boxed::Box::pin(async move {


            let mut var_3 = Some(E1::B);let mut var_1037 = None;let mut var_4 = Some(E1::C);let mut var_17 = Some(TdI32(44i32));

            let mut __pilota_decoding_field_id = None;

            __protocol.read_struct_begin().await?;
            if let ::std::result::Result::Err(mut err) = async {
                    loop {


                let field_ident = __protocol.read_field_begin().await?;
                if field_ident.field_type == ::pilota::thrift::TType::Stop {

                    break;
                } else {

                }
                __pilota_decoding_field_id = field_ident.id;
                match field_ident.id {
                    Some(3) if field_ident.field_type == ::pilota::thrift::TType::I32  => {
                    var_3 = Some(<E1 as ::pilota::thrift::Message>::decode_async(__protocol).await?);

                },Some(1037) if field_ident.field_type == ::pilota::thrift::TType::I32  => {
                    var_1037 = Some(__protocol.read_i32().await?);

                },Some(4) if field_ident.field_type == ::pilota::thrift::TType::I32  => {
                    var_4 = Some(<E1 as ::pilota::thrift::Message>::decode_async(__protocol).await?);

                },Some(17) if field_ident.field_type == ::pilota::thrift::TType::I32  => {
                    var_17 = Some(<TdI32 as ::pilota::thrift::Message>::decode_async(__protocol).await?);

                },
                    _ => {
                        __protocol.skip(field_ident.field_type).await?;

                    },
                }

                __protocol.read_field_end().await?;


            };
                    ::std::result::Result::Ok::<_, ::pilota::thrift::ThriftException>(())
                }.await {
                if let Some(field_id) = __pilota_decoding_field_id {
                    err.prepend_msg(&format!("decode struct `Df34` field(#{}) failed, caused by: ", field_id));
                }
                return ::std::result::Result::Err(err);
            };
            __protocol.read_struct_end().await?;





            let data = Self {
                d1: var_3,plain: var_1037,d2: var_4,d3: var_17, _unknown_fields: ::pilota::LinkedBytes::new()
            };
            ::std::result::Result::Ok(data)

            })
        }

                fn size<T: ::pilota::thrift::TLengthProtocol>(&self, __protocol: &mut T) -> usize {
                    #[allow(unused_imports)]
                    use ::pilota::thrift::TLengthProtocolExt;
                    __protocol.struct_begin_len(&::pilota::thrift::TStructIdentifier {
                    name: "Df34",
                }) + self.d1.as_ref().map_or(0, |value| __protocol.i32_field_len(Some(3), (value).inner())) +self.plain.as_ref().map_or(0, |value| __protocol.i32_field_len(Some(1037), *value)) +self.d2.as_ref().map_or(0, |value| __protocol.i32_field_len(Some(4), (value).inner())) +self.d3.as_ref().map_or(0, |value| __protocol.struct_field_len(Some(17), value)) +self._unknown_fields.size() + __protocol.field_stop_len() + __protocol.struct_end_len()
                }
            }
                                impl ::std::default::Default for Df10 {
                                    fn default() -> Self {
                                        Df10 {
                                            d1: Some(E1::B),
plain: ::std::default::Default::default(),
d2: Some(E1::C),
d3: Some(TdI32(44i32)),
_unknown_fields: ::pilota::LinkedBytes::new()
                                        }
                                    }
                                }
                            #[derive(PartialOrd)]
#[derive(Hash, Eq, Ord)]
#[derive(Debug)]#[derive(Clone, PartialEq)]
                pub struct Df10 {

                        pub d1: ::std::option::Option<E1>,

                        pub plain: ::std::option::Option<i32>,

                        pub d2: ::std::option::Option<E1>,

                        pub d3: ::std::option::Option<TdI32>,pub _unknown_fields: ::pilota::LinkedBytes,
                }
            impl ::pilota::thrift::Message for Df10 {
                fn encode<T: ::pilota::thrift::TOutputProtocol>(
                    &self,
                    __protocol: &mut T,
                ) -> ::std::result::Result<(),::pilota::thrift::ThriftException> {
                    #[allow(unused_imports)]
                    use ::pilota::thrift::TOutputProtocolExt;
                    let struct_ident =::pilota::thrift::TStructIdentifier {
                    name: "Df10",
                };

                __protocol.write_struct_begin(&struct_ident)?;
                if let Some(value) = self.d1.as_ref() {
                        __protocol.write_i32_field(1, (value).inner())?;
                    }if let Some(value) = self.plain.as_ref() {
                        __protocol.write_i32_field(1011, *value)?;
                    }if let Some(value) = self.d2.as_ref() {
                        __protocol.write_i32_field(2, (value).inner())?;
                    }if let Some(value) = self.d3.as_ref() {
                        __protocol.write_struct_field(32767, value, ::pilota::thrift::TType::I32)?;
                    }for bytes in self._unknown_fields.list.iter() {
                                __protocol.write_bytes_without_len(bytes.clone());
                            }
                __protocol.write_field_stop()?;
                __protocol.write_struct_end()?;
                ::std::result::Result::Ok(())

                }

                fn decode<T: ::pilota::thrift::TInputProtocol>(
                    __protocol: &mut T,
                ) -> ::std::result::Result<Self,::pilota::thrift::ThriftException>  {
                    #[allow(unused_imports)]
                    use ::pilota::{thrift::TLengthProtocolExt, Buf};


            let mut var_1 = Some(E1::B);let mut var_1011 = None;let mut var_2 = Some(E1::C);let mut var_32767 = Some(TdI32(44i32));let mut _unknown_fields = ::pilota::LinkedBytes::new();

            let mut __pilota_decoding_field_id = None;

            __protocol.read_struct_begin()?;
            if let ::std::result::Result::Err(mut err) = (|| {
                    loop {

                let mut __pilota_offset = 0;
            let __pilota_begin_ptr = __protocol.buf().chunk().as_ptr();
                let field_ident = __protocol.read_field_begin()?;
                if field_ident.field_type == ::pilota::thrift::TType::Stop {
                    __pilota_offset += __protocol.field_stop_len();
                    break;
                } else {
                    __pilota_offset += __protocol.field_begin_len(field_ident.field_type, field_ident.id);
                }
                __pilota_decoding_field_id = field_ident.id;
                match field_ident.id {
                    Some(1) if field_ident.field_type == ::pilota::thrift::TType::I32  => {
                    var_1 = Some(::pilota::thrift::Message::decode(__protocol)?);

                },Some(1011) if field_ident.field_type == ::pilota::thrift::TType::I32  => {
                    var_1011 = Some(__protocol.read_i32()?);

                },Some(2) if field_ident.field_type == ::pilota::thrift::TType::I32  => {
                    var_2 = Some(::pilota::thrift::Message::decode(__protocol)?);

                },Some(32767) if field_ident.field_type == ::pilota::thrift::TType::I32  => {
                    var_32767 = Some(::pilota::thrift::Message::decode(__protocol)?);

                },
                    _ => {
                        __pilota_offset += __protocol.skip(field_ident.field_type)?;
                        _unknown_fields.push_back(__protocol.get_bytes(Some(__pilota_begin_ptr), __pilota_offset)?);
                    },
                }

                __protocol.read_field_end()?;
                __pilota_offset += __protocol.field_end_len();

            };
                    ::std::result::Result::Ok::<_, ::pilota::thrift::ThriftException>(())
                })() {
                if let Some(field_id) = __pilota_decoding_field_id {
                    err.prepend_msg(&format!("decode struct `Df10` field(#{}) failed, caused by: ", field_id));
                }
                return ::std::result::Result::Err(err);
            };
            __protocol.read_struct_end()?;





            let data = Self {
                d1: var_1,plain: var_1011,d2: var_2,d3: var_32767, _unknown_fields
            };
            ::std::result::Result::Ok(data)

                }

                fn decode_async<'a, T: ::pilota::thrift::TAsyncInputProtocol>(
            __protocol: &'a mut T,
        ) -> ::std::pin::Pin<::std::boxed::Box<dyn ::std::future::Future<Output = ::std::result::Result<Self, ::pilota::thrift::ThriftException>> + Send + 'a>> {
            ::std::boxed::Box::pin(async move {


            let mut var_1 = Some(E1::B);let mut var_1011 = None;let mut var_2 = Some(E1::C);let mut var_32767 = Some(TdI32(44i32));

            let mut __pilota_decoding_field_id = None;

            __protocol.read_struct_begin().await?;
            if let ::std::result::Result::Err(mut err) = async {
                    loop {


                let field_ident = __protocol.read_field_begin().await?;
                if field_ident.field_type == ::pilota::thrift::TType::Stop {

                    break;
                } else {

                }
                __pilota_decoding_field_id = field_ident.id;
                match field_ident.id {
                    Some(1) if field_ident.field_type == ::pilota::thrift::TType::I32  => {
                    var_1 = Some(<E1 as ::pilota::thrift::Message>::decode_async(__protocol).await?);

                },Some(1011) if field_ident.field_type == ::pilota::thrift::TType::I32  => {
                    var_1011 = Some(__protocol.read_i32().await?);

                },Some(2) if field_ident.field_type == ::pilota::thrift::TType::I32  => {
                    var_2 = Some(<E1 as ::pilota::thrift::Message>::decode_async(__protocol).await?);

                },Some(32767) if field_ident.field_type == ::pilota::thrift::TType::I32  => {
                    var_32767 = Some(<TdI32 as ::pilota::thrift::Message>::decode_async(__protocol).await?);

                },
                    _ => {
                        __protocol.skip(field_ident.field_type).await?;

                    },
                }

                __protocol.read_field_end().await?;


            };
                    ::std::result::Result::Ok::<_, ::pilota::thrift::ThriftException>(())
                }.await {
                if let Some(field_id) = __pilota_decoding_field_id {
                    err.prepend_msg(&format!("decode struct `Df10` field(#{}) failed, caused by: ", field_id));
                }
                return ::std::result::Result::Err(err);
            };
            __protocol.read_struct_end().await?;





            let data = Self {
                d1: var_1,plain: var_1011,d2: var_2,d3: var_32767, _unknown_fields: ::pilota::LinkedBytes::new()
            };
            ::std::result::Result::Ok(data)

            })
        }

                fn size<T: ::pilota::thrift::TLengthProtocol>(&self, __protocol: &mut T) -> usize {
                    #[allow(unused_imports)]
                    use ::pilota::thrift::TLengthProtocolExt;
                    __protocol.struct_begin_len(&::pilota::thrift::TStructIdentifier {
                    name: "Df10",
                }) + self.d1.as_ref().map_or(0, |value| __protocol.i32_field_len(Some(1), (value).inner())) +self.plain.as_ref().map_or(0, |value| __protocol.i32_field_len(Some(1011), *value)) +self.d2.as_ref().map_or(0, |value| __protocol.i32_field_len(Some(2), (value).inner())) +self.d3.as_ref().map_or(0, |value| __protocol.struct_field_len(Some(32767), value)) +self._unknown_fields.size() + __protocol.field_stop_len() + __protocol.struct_end_len()
                }
            }
                                impl ::std::default::Default for Df65 {
                                    fn default() -> Self {
                                        Df65 {
                                            d1: ::pilota::AHashSet::from([3i32]),
plain: ::std::default::Default::default(),
d2: ::pilota::AHashSet::from([::pilota::FastStr::from_static_str("x"),::pilota::FastStr::from_static_str("y")]),
d3: {
                    let mut map = ::pilota::AHashMap::with_capacity(1);
                    map.insert(::pilota::FastStr::from_static_str("k"), 1i32);
                    map
                },
_unknown_fields: ::pilota::LinkedBytes::new()
                                        }
                                    }
                                }
                            #[derive(Debug)]#[derive(Clone, PartialEq)]
                pub struct Df65 {

                        pub d1: ::pilota::AHashSet<i32>,

                        pub plain: ::std::option::Option<i32>,

                        pub d2: ::pilota::AHashSet<::pilota::FastStr>,

                        pub d3: ::pilota::AHashMap<::pilota::FastStr, i32>,pub _unknown_fields: ::pilota::LinkedBytes,
                }
            impl ::pilota::thrift::Message for Df65 {
                fn encode<T: ::pilota::thrift::TOutputProtocol>(
                    &self,
                    __protocol: &mut T,
                ) -> ::std::result::Result<(),::pilota::thrift::ThriftException> {
                    #[allow(unused_imports)]
                    use ::pilota::thrift::TOutputProtocolExt;
                    let struct_ident =::pilota::thrift::TStructIdentifier {
                    name: "Df65",
                };

                __protocol.write_struct_begin(&struct_ident)?;
                __protocol.write_set_field(1, ::pilota::thrift::TType::I32, &&self.d1, |__protocol, val| {
                __protocol.write_i32(*val)?;
                ::std::result::Result::Ok(())
            })?;if let Some(value) = self.plain.as_ref() {
                        __protocol.write_i32_field(1066, *value)?;
                    }__protocol.write_set_field(15, ::pilota::thrift::TType::Binary, &&self.d2, |__protocol, val| {
                __protocol.write_faststr((val).clone())?;
                ::std::result::Result::Ok(())
            })?;__protocol.write_map_field(16, ::pilota::thrift::TType::Binary, ::pilota::thrift::TType::I32, &&self.d3, |__protocol, key| {
                __protocol.write_faststr((key).clone())?;
                ::std::result::Result::Ok(())
            }, |__protocol, val| {
                __protocol.write_i32(*val)?;
                ::std::result::Result::Ok(())
            })?;for bytes in self._unknown_fields.list.iter() {
                                __protocol.write_bytes_without_len(bytes.clone());
                            }
                __protocol.write_field_stop()?;
                __protocol.write_struct_end()?;
                ::std::result::Result::Ok(())

                }

                fn decode<T: ::pilota::thrift::TInputProtocol>(
                    __protocol: &mut T,
                ) -> ::std::result::Result<Self,::pilota::thrift::ThriftException>  {
                    #[allow(unused_imports)]
                    use ::pilota::{thrift::TLengthProtocolExt, Buf};


            let mut var_1 = None;let mut var_1066 = None;let mut var_15 = None;let mut var_16 = None;let mut _unknown_fields = ::pilota::LinkedBytes::new();

            let mut __pilota_decoding_field_id = None;

            __protocol.read_struct_begin()?;
            if let ::std::result::Result::Err(mut err) = (|| {
                    loop {

                let mut __pilota_offset = 0;
            let __pilota_begin_ptr = __protocol.buf().chunk().as_ptr();
                let field_ident = __protocol.read_field_begin()?;
                if field_ident.field_type == ::pilota::thrift::TType::Stop {
                    __pilota_offset += __protocol.field_stop_len();
                    break;
                } else {
                    __pilota_offset += __protocol.field_begin_len(field_ident.field_type, field_ident.id);
                }
                __pilota_decoding_field_id = field_ident.id;
                match field_ident.id {
                    Some(1) if field_ident.field_type == ::pilota::thrift::TType::Set  => {
                    var_1 = Some({let list_ident = __protocol.read_set_begin()?;
                    let mut val = ::pilota::AHashSet::with_capacity(list_ident.size);
                    for _ in 0..list_ident.size {
                        val.insert(__protocol.read_i32()?);
                    };
                    __protocol.read_set_end()?;
                    val});

                },Some(1066) if field_ident.field_type == ::pilota::thrift::TType::I32  => {
                    var_1066 = Some(__protocol.read_i32()?);

                },Some(15) if field_ident.field_type == ::pilota::thrift::TType::Set  => {
                    var_15 = Some({let list_ident = __protocol.read_set_begin()?;
                    let mut val = ::pilota::AHashSet::with_capacity(list_ident.size);
                    for _ in 0..list_ident.size {
                        val.insert(__protocol.read_faststr()?);
                    };
                    __protocol.read_set_end()?;
                    val});

                },Some(16) if field_ident.field_type == ::pilota::thrift::TType::Map  => {
                    var_16 = Some({
                        let map_ident = __protocol.read_map_begin()?;
                        let mut val = ::pilota::AHashMap::with_capacity(map_ident.size);
                        for _ in 0..map_ident.size {
                            val.insert(__protocol.read_faststr()?, __protocol.read_i32()?);
                        }
                        __protocol.read_map_end()?;
                        val
                    });

                },
                    _ => {
                        __pilota_offset += __protocol.skip(field_ident.field_type)?;
                        _unknown_fields.push_back(__protocol.get_bytes(Some(__pilota_begin_ptr), __pilota_offset)?);
                    },
                }

                __protocol.read_field_end()?;
                __pilota_offset += __protocol.field_end_len();

            };
                    ::std::result::Result::Ok::<_, ::pilota::thrift::ThriftException>(())
                })() {
                if let Some(field_id) = __pilota_decoding_field_id {
                    err.prepend_msg(&format!("decode struct `Df65` field(#{}) failed, caused by: ", field_id));
                }
                return ::std::result::Result::Err(err);
            };
            __protocol.read_struct_end()?;



            let var_1 = var_1.unwrap_or_else(|| ::pilota::AHashSet::from([3i32]));
let var_15 = var_15.unwrap_or_else(|| ::pilota::AHashSet::from([::pilota::FastStr::from_static_str("x"),::pilota::FastStr::from_static_str("y")]));
let var_16 = var_16.unwrap_or_else(|| {
                    let mut map = ::pilota::AHashMap::with_capacity(1);
                    map.insert(::pilota::FastStr::from_static_str("k"), 1i32);
                    map
                });

            let data = Self {
                d1: var_1,plain: var_1066,d2: var_15,d3: var_16, _unknown_fields
            };
            ::std::result::Result::Ok(data)

                }

                fn decode_async<'a, T: ::pilota::thrift::TAsyncInputProtocol>(
            __protocol: &'a mut T,
        ) -> ::std::pin::Pin<::std::boxed::Box<dyn ::std::future::Future<Output = ::std::result::Result<Self, ::pilota::thrift::ThriftException>> + Send + 'a>> {
            ::std::boxed::Box::pin(async move {


            let mut var_1 = None;let mut var_1066 = None;let mut var_15 = None;let mut var_16 = None;

            let mut __pilota_decoding_field_id = None;

            __protocol.read_struct_begin().await?;
            if let ::std::result::Result::Err(mut err) = async {
                    loop {


                let field_ident = __protocol.read_field_begin().await?;
                if field_ident.field_type == ::pilota::thrift::TType::Stop {

                    break;
                } else {

                }
                __pilota_decoding_field_id = field_ident.id;
                match field_ident.id {
                    Some(1) if field_ident.field_type == ::pilota::thrift::TType::Set  => {
                    var_1 = Some({let list_ident = __protocol.read_set_begin().await?;
                    let mut val = ::pilota::AHashSet::with_capacity(list_ident.size);
                    for _ in 0..list_ident.size {
                        val.insert(__protocol.read_i32().await?);
                    };
                    __protocol.read_set_end().await?;
                    val});

                },Some(1066) if field_ident.field_type == ::pilota::thrift::TType::I32  => {
                    var_1066 = Some(__protocol.read_i32().await?);

                },Some(15) if field_ident.field_type == ::pilota::thrift::TType::Set  => {
                    var_15 = Some({let list_ident = __protocol.read_set_begin().await?;
                    let mut val = ::pilota::AHashSet::with_capacity(list_ident.size);
                    for _ in 0..list_ident.size {
                        val.insert(__protocol.read_faststr().await?);
                    };
                    __protocol.read_set_end().await?;
                    val});

                },Some(16) if field_ident.field_type == ::pilota::thrift::TType::Map  => {
                    var_16 = Some({
                        let map_ident = __protocol.read_map_begin().await?;
                        let mut val = ::pilota::AHashMap::with_capacity(map_ident.size);
                        for _ in 0..map_ident.size {
                            val.insert(__protocol.read_faststr().await?, __protocol.read_i32().await?);
                        }
                        __protocol.read_map_end().await?;
                        val
                    });

                },
                    _ => {
                        __protocol.skip(field_ident.field_type).await?;

                    },
                }

                __protocol.read_field_end().await?;


            };
                    ::std::result::Result::Ok::<_, ::pilota::thrift::ThriftException>(())
                }.await {
                if let Some(field_id) = __pilota_decoding_field_id {
                    err.prepend_msg(&format!("decode struct `Df65` field(#{}) failed, caused by: ", field_id));
                }
                return ::std::result::Result::Err(err);
            };
            __protocol.read_struct_end().await?;



            let var_1 = var_1.unwrap_or_else(|| ::pilota::AHashSet::from([3i32]));
let var_15 = var_15.unwrap_or_else(|| ::pilota::AHashSet::from([::pilota::FastStr::from_static_str("x"),::pilota::FastStr::from_static_str("y")]));
let var_16 = var_16.unwrap_or_else(|| {
                    let mut map = ::pilota::AHashMap::with_capacity(1);
                    map.insert(::pilota::FastStr::from_static_str("k"), 1i32);
                    map
                });

            let data = Self {
                d1: var_1,plain: var_1066,d2: var_15,d3: var_16, _unknown_fields: ::pilota::LinkedBytes::new()
            };
            ::std::result::Result::Ok(data)

            })
        }

                fn size<T: ::pilota::thrift::TLengthProtocol>(&self, __protocol: &mut T) -> usize {
                    #[allow(unused_imports)]
                    use ::pilota::thrift::TLengthProtocolExt;
                    __protocol.struct_begin_len(&::pilota::thrift::TStructIdentifier {
                    name: "Df65",
                }) + __protocol.set_field_len(Some(1), ::pilota::thrift::TType::I32, &self.d1, |__protocol, el| {
                __protocol.i32_len(*el)
            }) +self.plain.as_ref().map_or(0, |value| __protocol.i32_field_len(Some(1066), *value)) +__protocol.set_field_len(Some(15), ::pilota::thrift::TType::Binary, &self.d2, |__protocol, el| {
                __protocol.faststr_len(el)
            }) +__protocol.map_field_len(Some(16), ::pilota::thrift::TType::Binary, ::pilota::thrift::TType::I32, &self.d3, |__protocol, key| {
                __protocol.faststr_len(key)
            }, |__protocol, val| {
                __protocol.i32_len(*val)
            }) +self._unknown_fields.size() + __protocol.field_stop_len() + __protocol.struct_end_len()
                }
            }#[derive(PartialOrd)]
#[derive(Hash, Eq, Ord)]
#[derive(Debug)]
#[derive(Default)]
            #[derive(Clone, PartialEq)]
            pub struct TdTdI32(pub TdI32);

            impl ::std::ops::Deref for TdTdI32 {
                type Target = TdI32;

                fn deref(&self) -> &Self::Target {
                    &self.0
                }
            }

            impl From<TdI32> for TdTdI32 {
                fn from(v: TdI32) -> Self {
                    Self(v)
                }
            }


            impl ::pilota::thrift::Message for TdTdI32 {
                fn encode<T: ::pilota::thrift::TOutputProtocol>(
                    &self,
                    __protocol: &mut T,
                ) -> ::std::result::Result<(),::pilota::thrift::ThriftException> {
                    #[allow(unused_imports)]
                    use ::pilota::thrift::TOutputProtocolExt;
                    __protocol.write_struct((&**self))?;
                ::std::result::Result::Ok(())
                }

                fn decode<T: ::pilota::thrift::TInputProtocol>(
                    __protocol: &mut T,
                ) -> ::std::result::Result<Self,::pilota::thrift::ThriftException>  {
                    #[allow(unused_imports)]
                    use ::pilota::{thrift::TLengthProtocolExt, Buf};
                    ::std::result::Result::Ok(TdTdI32(::pilota::thrift::Message::decode(__protocol)?))
                }

                fn decode_async<'a, T: ::pilota::thrift::TAsyncInputProtocol>(
            __protocol: &'a mut T,
        ) -> ::std::pin::Pin<::std::boxed::Box<dyn ::std::future::Future<Output = ::std::result::Result<Self, ::pilota::thrift::ThriftException>> + Send + 'a>> {
            ::std::boxed::Box::pin(async move {
                ::std::result::Result::Ok(TdTdI32(<TdI32 as ::pilota::thrift::Message>::decode_async(__protocol).await?))
            })
        }

                fn size<T: ::pilota::thrift::TLengthProtocol>(&self, __protocol: &mut T) -> usize {
                    #[allow(unused_imports)]
                    use ::pilota::thrift::TLengthProtocolExt;
                    __protocol.struct_len(&**self)
                }
            }
                                impl ::std::default::Default for Df41 {
                                    fn default() -> Self {
                                        Df41 {
                                            d1: Some(::pilota::AHashSet::from([3i32])),
plain: ::std::default::Default::default(),
d2: Some(::pilota::AHashSet::from([::pilota::FastStr::from_static_str("x"),::pilota::FastStr::from_static_str("y")])),
d3: Some({
                    let mut map = ::pilota::AHashMap::with_capacity(1);
                    map.insert(::pilota::FastStr::from_static_str("k"), 1i32);
                    map
                }),
_unknown_fields: ::pilota::LinkedBytes::new()
                                        }
                                    }
                                }
                            #[derive(Debug)]#[derive(Clone, PartialEq)]
                pub struct Df41 {

                        pub d1: ::std::option::Option<::pilota::AHashSet<i32>>,

                        pub plain: ::std::option::Option<i32>,

                        pub d2: ::std::option::Option<::pilota::AHashSet<::pilota::FastStr>>,

                        pub d3: ::std::option::Option<::pilota::AHashMap<::pilota::FastStr, i32>>,pub _unknown_fields: ::pilota::LinkedBytes,
                }
            impl ::pilota::thrift::Message for Df41 {
                fn encode<T: ::pilota::thrift::TOutputProtocol>(
                    &self,
                    __protocol: &mut T,
                ) -> ::std::result::Result<(),::pilota::thrift::ThriftException> {
                    #[allow(unused_imports)]
                    use ::pilota::thrift::TOutputProtocolExt;
                    let struct_ident =::pilota::thrift::TStructIdentifier {
                    name: "Df41",
                };

                __protocol.write_struct_begin(&struct_ident)?;
                if let Some(value) = self.d1.as_ref() {
                        __protocol.write_set_field(1, ::pilota::thrift::TType::I32, &value, |__protocol, val| {
                __protocol.write_i32(*val)?;
                ::std::result::Result::Ok(())
            })?;
                    }if let Some(value) = self.plain.as_ref() {
                        __protocol.write_i32_field(1042, *value)?;
                    }if let Some(value) = self.d2.as_ref() {
                        __protocol.write_set_field(2, ::pilota::thrift::TType::Binary, &value, |__protocol, val| {
                __protocol.write_faststr((val).clone())?;
                ::std::result::Result::Ok(())
            })?;
                    }if let Some(value) = self.d3.as_ref() {
                        __protocol.write_map_field(3, ::pilota::thrift::TType::Binary, ::pilota::thrift::TType::I32, &value, |__protocol, key| {
                __protocol.write_faststr((key).clone())?;
                ::std::result::Result::Ok(())
            }, |__protocol, val| {
                __protocol.write_i32(*val)?;
                ::std::result::Result::Ok(())
            })?;
                    }for bytes in self._unknown_fields.list.iter() {
                                __protocol.write_bytes_without_len(bytes.clone());
                            }
                __protocol.write_field_stop()?;
                __protocol.write_struct_end()?;
                ::std::result::Result::Ok(())

                }

                fn decode<T: ::pilota::thrift::TInputProtocol>(
                    __protocol: &mut T,
                ) -> ::std::result::Result<Self,::pilota::thrift::ThriftException>  {
                    #[allow(unused_imports)]
                    use ::pilota::{thrift::TLengthProtocolExt, Buf};


            let mut var_1 = None;let mut var_1042 = None;let mut var_2 = None;let mut var_3 = None;let mut _unknown_fields = ::pilota::LinkedBytes::new();

            let mut __pilota_decoding_field_id = None;

            __protocol.read_struct_begin()?;
            if let ::std::result::Result::Err(mut err) = (|| {
                    loop {

                let mut __pilota_offset = 0;
            let __pilota_begin_ptr = __protocol.buf().chunk().as_ptr();
                let field_ident = __protocol.read_field_begin()?;
                if field_ident.field_type == ::pilota::thrift::TType::Stop {
                    __pilota_offset += __protocol.field_stop_len();
                    break;
                } else {
                    __pilota_offset += __protocol.field_begin_len(field_ident.field_type, field_ident.id);
                }
                __pilota_decoding_field_id = field_ident.id;
                match field_ident.id {
                    Some(1) if field_ident.field_type == ::pilota::thrift::TType::Set  => {
                    var_1 = Some({let list_ident = __protocol.read_set_begin()?;
                    let mut val = ::pilota::AHashSet::with_capacity(list_ident.size);
                    for _ in 0..list_ident.size {
                        val.insert(__protocol.read_i32()?);
                    };
                    __protocol.read_set_end()?;
                    val});

                },Some(1042) if field_ident.field_type == ::pilota::thrift::TType::I32  => {
                    var_1042 = Some(__protocol.read_i32()?);

                },Some(2) if field_ident.field_type == ::pilota::thrift::TType::Set  => {
                    var_2 = Some({let list_ident = __protocol.read_set_begin()?;
                    let mut val = ::pilota::AHashSet::with_capacity(list_ident.size);
                    for _ in 0..list_ident.size {
                        val.insert(__protocol.read_faststr()?);
                    };
                    __protocol.read_set_end()?;
                    val});

                },Some(3) if field_ident.field_type == ::pilota::thrift::TType::Map  => {
                    var_3 = Some({
                        let map_ident = __protocol.read_map_begin()?;
                        let mut val = ::pilota::AHashMap::with_capacity(map_ident.size);
                        for _ in 0..map_ident.size {
                            val.insert(__protocol.read_faststr()?, __protocol.read_i32()?);
                        }
                        __protocol.read_map_end()?;
                        val
                    });

                },
                    _ => {
                        __pilota_offset += __protocol.skip(field_ident.field_type)?;
                        _unknown_fields.push_back(__protocol.get_bytes(Some(__pilota_begin_ptr), __pilota_offset)?);
                    },
                }

                __protocol.read_field_end()?;
                __pilota_offset += __protocol.field_end_len();

            };
                    ::std::result::Result::Ok::<_, ::pilota::thrift::ThriftException>(())
                })() {
                if let Some(field_id) = __pilota_decoding_field_id {
                    err.prepend_msg(&format!("decode struct `Df41` field(#{}) failed, caused by: ", field_id));
                }
                return ::std::result::Result::Err(err);
            };
            __protocol.read_struct_end()?;



            if var_1.is_none() {
                                var_1 = Some(::pilota::AHashSet::from([3i32]));
                            }
if var_2.is_none() {
                                var_2 = Some(::pilota::AHashSet::from([::pilota::FastStr::from_static_str("x"),::pilota::FastStr::from_static_str("y")]));
                            }
if var_3.is_none() {
                                var_3 = Some({
                    let mut map = ::pilota::AHashMap::with_capacity(1);
                    map.insert(::pilota::FastStr::from_static_str("k"), 1i32);
                    map
                });
                            }

            let data = Self {
                d1: var_1,plain: var_1042,d2: var_2,d3: var_3, _unknown_fields
            };
            ::std::result::Result::Ok(data)

                }

                fn decode_async<'a, T: ::pilota::thrift::TAsyncInputProtocol>(
            __protocol: &'a mut T,
        ) -> ::std::pin::Pin<::std::boxed::Box<dyn ::std::future::Future<Output = ::std::result::Result<Self, ::pilota::thrift::ThriftException>> + Send + 'a>> {
            ::std::boxed::Box::pin(async move {


            let mut var_1 = None;let mut var_1042 = None;let mut var_2 = None;let mut var_3 = None;

            let mut __pilota_decoding_field_id = None;

            __protocol.read_struct_begin().await?;
            if let ::std::result::Result::Err(mut err) = async {
                    loop {


                let field_ident = __protocol.read_field_begin().await?;
                if field_ident.field_type == ::pilota::thrift::TType::Stop {

                    break;
                } else {

                }
                __pilota_decoding_field_id = field_ident.id;
                match field_ident.id {
                    Some(1) if field_ident.field_type == ::pilota::thrift::TType::Set  => {
                    var_1 = Some({let list_ident = __protocol.read_set_begin().await?;
                    let mut val = ::pilota::AHashSet::with_capacity(list_ident.size);
                    for _ in 0..list_ident.size {
                        val.insert(__protocol.read_i32().await?);
                    };
                    __protocol.read_set_end().await?;
                    val});

                },Some(1042) if field_ident.field_type == ::pilota::thrift::TType::I32  => {
                    var_1042 = Some(__protocol.read_i32().await?);

                },Some(2) if field_ident.field_type == ::pilota::thrift::TType::Set  => {
                    var_2 = Some({let list_ident = __protocol.read_set_begin().await?;
                    let mut val = ::pilota::AHashSet::with_capacity(list_ident.size);
                    for _ in 0..list_ident.size {
                        val.insert(__protocol.read_faststr().await?);
                    };
                    __protocol.read_set_end().await?;
                    val});

                },Some(3) if field_ident.field_type == ::pilota::thrift::TType::Map  => {
                    var_3 = Some({
                        let map_ident = __protocol.read_map_begin().await?;
                        let mut val = ::pilota::AHashMap::with_capacity(map_ident.size);
                        for _ in 0..map_ident.size {
                            val.insert(__protocol.read_faststr().await?, __protocol.read_i32().await?);
                        }
                        __protocol.read_map_end().await?;
                        val
                    });

                },
                    _ => {
                        __protocol.skip(field_ident.field_type).await?;

                    },
                }

                __protocol.read_field_end().await?;


            };
                    ::std::result::Result::Ok::<_, ::pilota::thrift::ThriftException>(())
                }.await {
                if let Some(field_id) = __pilota_decoding_field_id {
                    err.prepend_msg(&format!("decode struct `Df41` field(#{}) failed, caused by: ", field_id));
                }
                return ::std::result::Result::Err(err);
            };
            __protocol.read_struct_end().await?;



            if var_1.is_none() {
                                var_1 = Some(::pilota::AHashSet::from([3i32]));
                            }
if var_2.is_none() {
                                var_2 = Some(::pilota::AHashSet::from([::pilota::FastStr::from_static_str("x"),::pilota::FastStr::from_static_str("y")]));
                            }
if var_3.is_none() {
                                var_3 = Some({
                    let mut map = ::pilota::AHashMap::with_capacity(1);
                    map.insert(::pilota::FastStr::from_static_str("k"), 1i32);
                    map
                });
                            }

            let data = Self {
                d1: var_1,plain: var_1042,d2: var_2,d3: var_3, _unknown_fields: ::pilota::LinkedBytes::new()
            };
            ::std::result::Result::Ok(data)

            })
        }

                fn size<T: ::pilota::thrift::TLengthProtocol>(&self, __protocol: &mut T) -> usize {
                    #[allow(unused_imports)]
                    use ::pilota::thrift::TLengthProtocolExt;
                    __protocol.struct_begin_len(&::pilota::thrift::TStructIdentifier {
                    name: "Df41",
                }) + self.d1.as_ref().map_or(0, |value| __protocol.set_field_len(Some(1), ::pilota::thrift::TType::I32, value, |__protocol, el| {
                __protocol.i32_len(*el)
            })) +self.plain.as_ref().map_or(0, |value| __protocol.i32_field_len(Some(1042), *value)) +self.d2.as_ref().map_or(0, |value| __protocol.set_field_len(Some(2), ::pilota::thrift::TType::Binary, value, |__protocol, el| {
                __protocol.faststr_len(el)
            })) +self.d3.as_ref().map_or(0, |value| __protocol.map_field_len(Some(3), ::pilota::thrift::TType::Binary, ::pilota::thrift::TType::I32, value, |__protocol, key| {
                __protocol.faststr_len(key)
            }, |__protocol, val| {
                __protocol.i32_len(*val)
            })) +self._unknown_fields.size() + __protocol.field_stop_len() + __protocol.struct_end_len()
                }
            }
                                impl ::std::default::Default for Df17 {
                                    fn default() -> Self {
                                        Df17 {
                                            d1: Some(::pilota::AHashSet::from([3i32])),
plain: ::std::default::Default::default(),
d2: Some(::pilota::AHashSet::from([::pilota::FastStr::from_static_str("x"),::pilota::FastStr::from_static_str("y")])),
d3: Some({
                    let mut map = ::pilota::AHashMap::with_capacity(1);
                    map.insert(::pilota::FastStr::from_static_str("k"), 1i32);
                    map
                }),
_unknown_fields: ::pilota::LinkedBytes::new()
                                        }
                                    }
                                }
                            #[derive(Debug)]#[derive(Clone, PartialEq)]
                pub struct Df17 {

                        pub d1: ::std::option::Option<::pilota::AHashSet<i32>>,

                        pub plain: ::std::option::Option<i32>,

                        pub d2: ::std::option::Option<::pilota::AHashSet<::pilota::FastStr>>,

                        pub d3: ::std::option::Option<::pilota::AHashMap<::pilota::FastStr, i32>>,pub _unknown_fields: ::pilota::LinkedBytes,
                }
            impl ::pilota::thrift::Message for Df17 {
                fn encode<T: ::pilota::thrift::TOutputProtocol>(
                    &self,
                    __protocol: &mut T,
                ) -> ::std::result::Result<(),::pilota::thrift::ThriftException> {
                    #[allow(unused_imports)]
                    use ::pilota::thrift::TOutputProtocolExt;
                    let struct_ident =::pilota::thrift::TStructIdentifier {
                    name: "Df17",
                };

                __protocol.write_struct_begin(&struct_ident)?;
                if let Some(value) = self.d1.as_ref() {
                        __protocol.write_set_field(3, ::pilota::thrift::TType::I32, &value, |__protocol, val| {
                __protocol.write_i32(*val)?;
                ::std::result::Result::Ok(())
            })?;
                    }if let Some(value) = self.plain.as_ref() {
                        __protocol.write_i32_field(1020, *value)?;
                    }if let Some(value) = self.d2.as_ref() {
                        __protocol.write_set_field(4, ::pilota::thrift::TType::Binary, &value, |__protocol, val| {
                __protocol.write_faststr((val).clone())?;
                ::std::result::Result::Ok(())
            })?;
                    }if let Some(value) = self.d3.as_ref() {
                        __protocol.write_map_field(17, ::pilota::thrift::TType::Binary, ::pilota::thrift::TType::I32, &value, |__protocol, key| {
                __protocol.write_faststr((key).clone())?;
                ::std::result::Result::Ok(())
            }, |__protocol, val| {
                __protocol.write_i32(*val)?;
                ::std::result::Result::Ok(())
            })?;
                    }for bytes in self._unknown_fields.list.iter() {
                                __protocol.write_bytes_without_len(bytes.clone());
                            }
                __protocol.write_field_stop()?;
                __protocol.write_struct_end()?;
                ::std::result::Result::Ok(())

                }

                fn decode<T: ::pilota::thrift::TInputProtocol>(
                    __protocol: &mut T,
                ) -> ::std::result::Result<Self,::pilota::thrift::ThriftException>  {
                    #[allow(unused_imports)]
                    use ::pilota::{thrift::TLengthProtocolExt, Buf};


            let mut var_3 = None;let mut var_1020 = None;let mut var_4 = None;let mut var_17 = None;let mut _unknown_fields = ::pilota::LinkedBytes::new();

            let mut __pilota_decoding_field_id = None;

            __protocol.read_struct_begin()?;
            if let ::std::result::Result::Err(mut err) = (|| {
                    loop {

                let mut __pilota_offset = 0;
            let __pilota_begin_ptr = __protocol.buf().chunk().as_ptr();
                let field_ident = __protocol.read_field_begin()?;
                if field_ident.field_type == ::pilota::thrift::TType::Stop {
                    __pilota_offset += __protocol.field_stop_len();
                    break;
                } else {
                    __pilota_offset += __protocol.field_begin_len(field_ident.field_type, field_ident.id);
                }
                __pilota_decoding_field_id = field_ident.id;
                match field_ident.id {
                    Some(3) if field_ident.field_type == ::pilota::thrift::TType::Set  => {
                    var_3 = Some({let list_ident = __protocol.read_set_begin()?;
                    let mut val = ::pilota::AHashSet::with_capacity(list_ident.size);
                    for _ in 0..list_ident.size {
                        val.insert(__protocol.read_i32()?);
                    };
                    __protocol.read_set_end()?;
                    val});

                },Some(1020) if field_ident.field_type == ::pilota::thrift::TType::I32  => {
                    var_1020 = Some(__protocol.read_i32()?);

                },Some(4) if field_ident.field_type == ::pilota::thrift::TType::Set  => {
                    var_4 = Some({let list_ident = __protocol.read_set_begin()?;
                    let mut val = ::pilota::AHashSet::with_capacity(list_ident.size);
                    for _ in 0..list_ident.size {
                        val.insert(__protocol.read_faststr()?);
                    };
                    __protocol.read_set_end()?;
                    val});

                },Some(17) if field_ident.field_type == ::pilota::thrift::TType::Map  => {
                    var_17 = Some({
                        let map_ident = __protocol.read_map_begin()?;
                        let mut val = ::pilota::AHashMap::with_capacity(map_ident.size);
                        for _ in 0..map_ident.size {
                            val.insert(__protocol.read_faststr()?, __protocol.read_i32()?);
                        }
                        __protocol.read_map_end()?;
                        val
                    });

                },
                    _ => {
                        __pilota_offset += __protocol.skip(field_ident.field_type)?;
                        _unknown_fields.push_back(__protocol.get_bytes(Some(__pilota_begin_ptr), __pilota_offset)?);
                    },
                }

                __protocol.read_field_end()?;
                __pilota_offset += __protocol.field_end_len();

            };
                    ::std::result::Result::Ok::<_, ::pilota::thrift::ThriftException>(())
                })() {
                if let Some(field_id) = __pilota_decoding_field_id {
                    err.prepend_msg(&format!("decode struct `Df17` field(#{}) failed, caused by: ", field_id));
                }
                return ::std::result::Result::Err(err);
            };
            __protocol.read_struct_end()?;



            if var_3.is_none() {
                                var_3 = Some(::pilota::AHashSet::from([3i32]));
                            }
if var_4.is_none() {
                                var_4 = Some(::pilota::AHashSet::from([::pilota::FastStr::from_static_str("x"),::pilota::FastStr::from_static_str("y")]));
                            }
if var_17.is_none() {
                                var_17 = Some({
                    let mut map = ::pilota::AHashMap::with_capacity(1);
                    map.insert(::pilota::FastStr::from_static_str("k"), 1i32);
                    map
                });
                            }

            let data = Self {
                d1: var_3,plain: var_1020,d2: var_4,d3: var_17, _unknown_fields
            };
            ::std::result::Result::Ok(data)

                }

                fn decode_async<'a, T: ::pilota::thrift::TAsyncInputProtocol>(
            __protocol: &'a mut T,
        ) -> ::std::pin::Pin<::std::boxed::Box<dyn ::std::future::Future<Output = ::std::result::Result<Self, ::pilota::thrift::ThriftException>> + Send + 'a>> {
            ::std::boxed::Box::pin(async move {


            let mut var_3 = None;let mut var_1020 = None;let mut var_4 = None;let mut var_17 = None;

            let mut __pilota_decoding_field_id = None;

            __protocol.read_struct_begin().await?;
            if let ::std::result::Result::Err(mut err) = async {
                    loop {


                let field_ident = __protocol.read_field_begin().await?;
                if field_ident.field_type == ::pilota::thrift::TType::Stop {

                    break;
                } else {

                }
                __pilota_decoding_field_id = field_ident.id;
                match field_ident.id {
                    Some(3) if field_ident.field_type == ::pilota::thrift::TType::Set  => {
                    var_3 = Some({let list_ident = __protocol.read_set_begin().await?;
                    let mut val = ::pilota::AHashSet::with_capacity(list_ident.size);
                    for _ in 0..list_ident.size {
                        val.insert(__protocol.read_i32().await?);
                    };
                    __protocol.read_set_end().await?;
                    val});

                },Some(1020) if field_ident.field_type == ::pilota::thrift::TType::I32  => {
                    var_1020 = Some(__protocol.read_i32().await?);

                },Some(4) if field_ident.field_type == ::pilota::thrift::TType::Set  => {
                    var_4 = Some({let list_ident = __protocol.read_set_begin().await?;
                    let mut val = ::pilota::AHashSet::with_capacity(list_ident.size);
                    for _ in 0..list_ident.size {
                        val.insert(__protocol.read_faststr().await?);
                    };
                    __protocol.read_set_end().await?;
                    val});

                },Some(17) if field_ident.field_type == ::pilota::thrift::TType::Map  => {
                    var_17 = Some({
                        let map_ident = __protocol.read_map_begin().await?;
                        let mut val = ::pilota::AHashMap::with_capacity(map_ident.size);
                        for _ in 0..map_ident.size {
                            val.insert(__protocol.read_faststr().await?, __protocol.read_i32().await?);
                        }
                        __protocol.read_map_end().await?;
                        val
                    });

                },
                    _ => {
                        __protocol.skip(field_ident.field_type).await?;

                    },
                }

                __protocol.read_field_end().await?;


            };
                    ::std::result::Result::Ok::<_, ::pilota::thrift::ThriftException>(())
                }.await {
                if let Some(field_id) = __pilota_decoding_field_id {
                    err.prepend_msg(&format!("decode struct `Df17` field(#{}) failed, caused by: ", field_id));
                }
                return ::std::result::Result::Err(err);
            };
            __protocol.read_struct_end().await?;



            if var_3.is_none() {
                                var_3 = Some(::pilota::AHashSet::from([3i32]));
                            }
if var_4.is_none() {
                                var_4 = Some(::pilota::AHashSet::from([::pilota::FastStr::from_static_str("x"),::pilota::FastStr::from_static_str("y")]));
                            }
if var_17.is_none() {
                                var_17 = Some({
                    let mut map = ::pilota::AHashMap::with_capacity(1);
                    map.insert(::pilota::FastStr::from_static_str("k"), 1i32);
                    map
                });
                            }

            let data = Self {
                d1: var_3,plain: var_1020,d2: var_4,d3: var_17, _unknown_fields: ::pilota::LinkedBytes::new()
            };
            ::std::result::Result::Ok(data)

            })
        }

                fn size<T: ::pilota::thrift::TLengthProtocol>(&self, __protocol: &mut T) -> usize {
                    #[allow(unused_imports)]
                    use ::pilota::thrift::TLengthProtocolExt;
                    __protocol.struct_begin_len(&::pilota::thrift::TStructIdentifier {
                    name: "Df17",
                }) + self.d1.as_ref().map_or(0, |value| __protocol.set_field_len(Some(3), ::pilota::thrift::TType::I32, value, |__protocol, el| {
                __protocol.i32_len(*el)
            })) +self.plain.as_ref().map_or(0, |value| __protocol.i32_field_len(Some(1020), *value)) +self.d2.as_ref().map_or(0, |value| __protocol.set_field_len(Some(4), ::pilota::thrift::TType::Binary, value, |__protocol, el| {
                __protocol.faststr_len(el)
            })) +self.d3.as_ref().map_or(0, |value| __protocol.map_field_len(Some(17), ::pilota::thrift::TType::Binary, ::pilota::thrift::TType::I32, value, |__protocol, key| {
                __protocol.faststr_len(key)
            }, |__protocol, val| {
                __protocol.i32_len(*val)
            })) +self._unknown_fields.size() + __protocol.field_stop_len() + __protocol.struct_end_len()
                }
            }pub const K_INT: i32 = 7i32;
                                impl ::std::default::Default for Df48 {
                                    fn default() -> Self {
                                        Df48 {
                                            d1: true,
plain: ::std::default::Default::default(),
d2: false,
d3: true,
_unknown_fields: ::pilota::LinkedBytes::new()
                                        }
                                    }
                                }
                            #[derive(PartialOrd)]
#[derive(Hash, Eq, Ord)]
#[derive(Debug)]#[derive(Clone, PartialEq)]
                pub struct Df48 {

                        pub d1: bool,

                        pub plain: ::std::option::Option<i32>,

                        pub d2: bool,

                        pub d3: bool,pub _unknown_fields: ::pilota::LinkedBytes,
                }
            impl ::pilota::thrift::Message for Df48 {
                fn encode<T: ::pilota::thrift::TOutputProtocol>(
                    &self,
                    __protocol: &mut T,
                ) -> ::std::result::Result<(),::pilota::thrift::ThriftException> {
                    #[allow(unused_imports)]
                    use ::pilota::thrift::TOutputProtocolExt;
                    let struct_ident =::pilota::thrift::TStructIdentifier {
                    name: "Df48",
                };

                __protocol.write_struct_begin(&struct_ident)?;
                __protocol.write_bool_field(5, *&self.d1)?;if let Some(value) = self.plain.as_ref() {
                        __protocol.write_i32_field(1053, *value)?;
                    }__protocol.write_bool_field(20, *&self.d2)?;__protocol.write_bool_field(21, *&self.d3)?;for bytes in self._unknown_fields.list.iter() {
                                __protocol.write_bytes_without_len(bytes.clone());
                            }
                __protocol.write_field_stop()?;
                __protocol.write_struct_end()?;
                ::std::result::Result::Ok(())

                }

                fn decode<T: ::pilota::thrift::TInputProtocol>(
                    __protocol: &mut T,
                ) -> ::std::result::Result<Self,::pilota::thrift::ThriftException>  {
                    #[allow(unused_imports)]
                    use ::pilota::{thrift::TLengthProtocolExt, Buf};


            let mut var_5 = true;let mut var_1053 = None;let mut var_20 = false;let mut var_21 = true;let mut _unknown_fields = ::pilota::LinkedBytes::new();

            let mut __pilota_decoding_field_id = None;

            __protocol.read_struct_begin()?;
            if let ::std::result::Result::Err(mut err) = (|| {
                    loop {

                let mut __pilota_offset = 0;
            let __pilota_begin_ptr = __protocol.buf().chunk().as_ptr();
                let field_ident = __protocol.read_field_begin()?;
                if field_ident.field_type == ::pilota::thrift::TType::Stop {
                    __pilota_offset += __protocol.field_stop_len();
                    break;
                } else {
                    __pilota_offset += __protocol.field_begin_len(field_ident.field_type, field_ident.id);
                }
                __pilota_decoding_field_id = field_ident.id;
                match field_ident.id {
                    Some(5) if field_ident.field_type == ::pilota::thrift::TType::Bool  => {
                    var_5 = __protocol.read_bool()?;

                },Some(1053) if field_ident.field_type == ::pilota::thrift::TType::I32  => {
                    var_1053 = Some(__protocol.read_i32()?);

                },Some(20) if field_ident.field_type == ::pilota::thrift::TType::Bool  => {
                    var_20 = __protocol.read_bool()?;

                },Some(21) if field_ident.field_type == ::pilota::thrift::TType::Bool  => {
                    var_21 = __protocol.read_bool()?;

                },
                    _ => {
                        __pilota_offset += __protocol.skip(field_ident.field_type)?;
                        _unknown_fields.push_back(__protocol.get_bytes(Some(__pilota_begin_ptr), __pilota_offset)?);
                    },
                }

                __protocol.read_field_end()?;
                __pilota_offset += __protocol.field_end_len();

            };
                    ::std::result::Result::Ok::<_, ::pilota::thrift::ThriftException>(())
                })() {
                if let Some(field_id) = __pilota_decoding_field_id {
                    err.prepend_msg(&format!("decode struct `Df48` field(#{}) failed, caused by: ", field_id));
                }
                return ::std::result::Result::Err(err);
            };
            __protocol.read_struct_end()?;





            let data = Self {
                d1: var_5,plain: var_1053,d2: var_20,d3: var_21, _unknown_fields
            };
            ::std::result::Result::Ok(data)

                }

                fn decode_async<'a, T: ::pilota::thrift::TAsyncInputProtocol>(
            __protocol: &'a mut T,
        ) -> ::std::pin::Pin<::std::boxed::Box<dyn ::std::future::Future<Output = ::std::result::Result<Self, ::pilota::thrift::ThriftException>> + Send + 'a>> {
            ::std::boxed::Box::pin(async move {


            let mut var_5 = true;let mut var_1053 = None;let mut var_20 = false;let mut var_21 = true;

            let mut __pilota_decoding_field_id = None;

            __protocol.read_struct_begin().await?;
            if let ::std::result::Result::Err(mut err) = async {
                    loop {


                let field_ident = __protocol.read_field_begin().await?;
                if field_ident.field_type == ::pilota::thrift::TType::Stop {

                    break;
                } else {

                }
                __pilota_decoding_field_id = field_ident.id;
                match field_ident.id {
                    Some(5) if field_ident.field_type == ::pilota::thrift::TType::Bool  => {
                    var_5 = __protocol.read_bool().await?;

                },Some(1053) if field_ident.field_type == ::pilota::thrift::TType::I32  => {
                    var_1053 = Some(__protocol.read_i32().await?);

                },Some(20) if field_ident.field_type == ::pilota::thrift::TType::Bool  => {
                    var_20 = __protocol.read_bool().await?;

                },Some(21) if field_ident.field_type == ::pilota::thrift::TType::Bool  => {
                    var_21 = __protocol.read_bool().await?;

                },
                    _ => {
                        __protocol.skip(field_ident.field_type).await?;

                    },
                }

                __protocol.read_field_end().await?;


            };
                    ::std::result::Result::Ok::<_, ::pilota::thrift::ThriftException>(())
                }.await {
                if let Some(field_id) = __pilota_decoding_field_id {
                    err.prepend_msg(&format!("decode struct `Df48` field(#{}) failed, caused by: ", field_id));
                }
                return ::std::result::Result::Err(err);
            };
            __protocol.read_struct_end().await?;





            let data = Self {
                d1: var_5,plain: var_1053,d2: var_20,d3: var_21, _unknown_fields: ::pilota::LinkedBytes::new()
            };
            ::std::result::Result::Ok(data)

            })
        }

                fn size<T: ::pilota::thrift::TLengthProtocol>(&self, __protocol: &mut T) -> usize {
                    #[allow(unused_imports)]
                    use ::pilota::thrift::TLengthProtocolExt;
                    __protocol.struct_begin_len(&::pilota::thrift::TStructIdentifier {
                    name: "Df48",
                }) + __protocol.bool_field_len(Some(5), *&self.d1) +self.plain.as_ref().map_or(0, |value| __protocol.i32_field_len(Some(1053), *value)) +__protocol.bool_field_len(Some(20), *&self.d2) +__protocol.bool_field_len(Some(21), *&self.d3) +self._unknown_fields.size() + __protocol.field_stop_len() + __protocol.struct_end_len()
                }
            }
                                impl ::std::default::Default for Df24 {
                                    fn default() -> Self {
                                        Df24 {
                                            d1: Some(true),
plain: ::std::default::Default::default(),
d2: Some(false),
d3: Some(true),
_unknown_fields: ::pilota::LinkedBytes::new()
                                        }
                                    }
                                }
                            #[derive(PartialOrd)]
#[derive(Hash, Eq, Ord)]
#[derive(Debug)]#[derive(Clone, PartialEq)]
                pub struct Df24 {

                        pub d1: ::std::option::Option<bool>,

                        pub plain: ::std::option::Option<i32>,

                        pub d2: ::std::option::Option<bool>,

                        pub d3: ::std::option::Option<bool>,pub _unknown_fields: ::pilota::LinkedBytes,
                }
            impl ::pilota::thrift::Message for Df24 {
                fn encode<T: ::pilota::thrift::TOutputProtocol>(
                    &self,
                    __protocol: &mut T,
                ) -> ::std::result::Result<(),::pilota::thrift::ThriftException> {
                    #[allow(unused_imports)]
                    use ::pilota::thrift::TOutputProtocolExt;
                    let struct_ident =::pilota::thrift::TStructIdentifier {
                    name: "Df24",
                };

                __protocol.write_struct_begin(&struct_ident)?;
                if let Some(value) = self.d1.as_ref() {
                        __protocol.write_bool_field(1, *value)?;
                    }if let Some(value) = self.plain.as_ref() {
                        __protocol.write_i32_field(1025, *value)?;
                    }if let Some(value) = self.d2.as_ref() {
                        __protocol.write_bool_field(15, *value)?;
                    }if let Some(value) = self.d3.as_ref() {
                        __protocol.write_bool_field(16, *value)?;
                    }for bytes in self._unknown_fields.list.iter() {
                                __protocol.write_bytes_without_len(bytes.clone());
                            }
                __protocol.write_field_stop()?;
                __protocol.write_struct_end()?;
                ::std::result::Result::Ok(())

                }

                fn decode<T: ::pilota::thrift::TInputProtocol>(
                    __protocol: &mut T,
                ) -> ::std::result::Result<Self,::pilota::thrift::ThriftException>  {
                    #[allow(unused_imports)]
                    use ::pilota::{thrift::TLengthProtocolExt, Buf};


            let mut var_1 = Some(true);let mut var_1025 = None;let mut var_15 = Some(false);let mut var_16 = Some(true);let mut _unknown_fields = ::pilota::LinkedBytes::new();

            let mut __pilota_decoding_field_id = None;

            __protocol.read_struct_begin()?;
            if let ::std::result::Result::Err(mut err) = (|| {
                    loop {

                let mut __pilota_offset = 0;
            let __pilota_begin_ptr = __protocol.buf().chunk().as_ptr();
                let field_ident = __protocol.read_field_begin()?;
                if field_ident.field_type == ::pilota::thrift::TType::Stop {
                    __pilota_offset += __protocol.field_stop_len();
                    break;
                } else {
                    __pilota_offset += __protocol.field_begin_len(field_ident.field_type, field_ident.id);
                }
                __pilota_decoding_field_id = field_ident.id;
                match field_ident.id {
                    Some(1) if field_ident.field_type == ::pilota::thrift::TType::Bool  => {
                    var_1 = Some(__protocol.read_bool()?);

                },Some(1025) if field_ident.field_type == ::pilota::thrift::TType::I32  => {
                    var_1025 = Some(__protocol.read_i32()?);

                },Some(15) if field_ident.field_type == ::pilota::thrift::TType::Bool  => {
                    var_15 = Some(__protocol.read_bool()?);

                },Some(16) if field_ident.field_type == ::pilota::thrift::TType::Bool  => {
                    var_16 = Some(__protocol.read_bool()?);

                },
                    _ => {
                        __pilota_offset += __protocol.skip(field_ident.field_type)?;
                        _unknown_fields.push_back(__protocol.get_bytes(Some(__pilota_begin_ptr), __pilota_offset)?);
                    },
                }

                __protocol.read_field_end()?;
                __pilota_offset += __protocol.field_end_len();

            };
                    ::std::result::Result::Ok::<_, ::pilota::thrift::ThriftException>(())
                })() {
                if let Some(field_id) = __pilota_decoding_field_id {
                    err.prepend_msg(&format!("decode struct `Df24` field(#{}) failed, caused by: ", field_id));
                }
                return ::std::result::Result::Err(err);
            };
            __protocol.read_struct_end()?;





            let data = Self {
                d1: var_1,plain: var_1025,d2: var_15,d3: var_16, _unknown_fields
            };
            ::std::result::Result::Ok(data)

                }

                fn decode_async<'a, T: ::pilota::thrift::TAsyncInputProtocol>(
            __protocol: &'a mut T,
        ) -> ::std::pin::Pin<::std::boxed::Box<dyn ::std::future::Future<Output = ::std::result::Result<Self, ::pilota::thrift::ThriftException>> + Send + 'a>> {
            ::std::boxed::Box::pin(async move {


            let mut var_1 = Some(true);let mut var_1025 = None;let mut var_15 = Some(false);let mut var_16 = Some(true);

            let mut __pilota_decoding_field_id = None;

            __protocol.read_struct_begin().await?;
            if let ::std::result::Result::Err(mut err) = async {
                    loop {


                let field_ident = __protocol.read_field_begin().await?;
                if field_ident.field_type == ::pilota::thrift::TType::Stop {

                    break;
                } else {

                }
                __pilota_decoding_field_id = field_ident.id;
                match field_ident.id {
                    Some(1) if field_ident.field_type == ::pilota::thrift::TType::Bool  => {
                    var_1 = Some(__protocol.read_bool().await?);

                },Some(1025) if field_ident.field_type == ::pilota::thrift::TType::I32  => {
                    var_1025 = Some(__protocol.read_i32().await?);

                },Some(15) if field_ident.field_type == ::pilota::thrift::TType::Bool  => {
                    var_15 = Some(__protocol.read_bool().await?);

                },Some(16) if field_ident.field_type == ::pilota::thrift::TType::Bool  => {
                    var_16 = Some(__protocol.read_bool().await?);

                },
                    _ => {
                        __protocol.skip(field_ident.field_type).await?;

                    },
                }

                __protocol.read_field_end().await?;


            };
                    ::std::result::Result::Ok::<_, ::pilota::thrift::ThriftException>(())
                }.await {
                if let Some(field_id) = __pilota_decoding_field_id {
                    err.prepend_msg(&format!("decode struct `Df24` field(#{}) failed, caused by: ", field_id));
                }
                return ::std::result::Result::Err(err);
            };
            __protocol.read_struct_end().await?;





            let data = Self {
                d1: var_1,plain: var_1025,d2: var_15,d3: var_16, _unknown_fields: ::pilota::LinkedBytes::new()
            };
            ::std::result::Result::Ok(data)

            })
        }

                fn size<T: ::pilota::thrift::TLengthProtocol>(&self, __protocol: &mut T) -> usize {
                    #[allow(unused_imports)]
                    use ::pilota::thrift::TLengthProtocolExt;
                    __protocol.struct_begin_len(&::pilota::thrift::TStructIdentifier {
                    name: "Df24",
                }) + self.d1.as_ref().map_or(0, |value| __protocol.bool_field_len(Some(1), *value)) +self.plain.as_ref().map_or(0, |value| __protocol.i32_field_len(Some(1025), *value)) +self.d2.as_ref().map_or(0, |value| __protocol.bool_field_len(Some(15), *value)) +self.d3.as_ref().map_or(0, |value| __protocol.bool_field_len(Some(16), *value)) +self._unknown_fields.size() + __protocol.field_stop_len() + __protocol.struct_end_len()
                }
            }
                                impl ::std::default::Default for DfAnn {
                                    fn default() -> Self {
                                        DfAnn {
                                            s: Some("plain".to_string()),
v: Some("vec".as_bytes().to_vec()),
t: Some(TdTdStr(TdStr(::pilota::FastStr::from_static_str("tdtd")))),
m: Some({
                    let mut map = ::std::collections::BTreeMap::new();
                    map.insert(::pilota::FastStr::from_static_str("k"), 1i32);
                    map
                }),
bs: Some(::std::collections::BTreeSet::from([2i32,1i32])),
_unknown_fields: ::pilota::LinkedBytes::new()
                                        }
                                    }
                                }
                            #[derive(PartialOrd)]
#[derive(Hash, Eq, Ord)]
#[derive(Debug)]#[derive(Clone, PartialEq)]
                pub struct DfAnn {

                        pub s: ::std::option::Option<::std::string::String>,

                        pub v: ::std::option::Option<::std::vec::Vec<u8>>,

                        pub t: ::std::option::Option<TdTdStr>,

                        pub m: ::std::option::Option<::std::collections::BTreeMap<::pilota::FastStr, i32>>,

                        pub bs: ::std::option::Option<::std::collections::BTreeSet<i32>>,pub _unknown_fields: ::pilota::LinkedBytes,
                }
            impl ::pilota::thrift::Message for DfAnn {
                fn encode<T: ::pilota::thrift::TOutputProtocol>(
                    &self,
                    __protocol: &mut T,
                ) -> ::std::result::Result<(),::pilota::thrift::ThriftException> {
                    #[allow(unused_imports)]
                    use ::pilota::thrift::TOutputProtocolExt;
                    let struct_ident =::pilota::thrift::TStructIdentifier {
                    name: "DfAnn",
                };

                __protocol.write_struct_begin(&struct_ident)?;
                if let Some(value) = self.s.as_ref() {
                        __protocol.write_string_field(1, value)?;
                    }if let Some(value) = self.v.as_ref() {
                        __protocol.write_bytes_vec_field(2, value)?;
                    }if let Some(value) = self.t.as_ref() {
                        __protocol.write_struct_field(3, value, ::pilota::thrift::TType::Binary)?;
                    }if let Some(value) = self.m.as_ref() {
                        __protocol.write_btree_map_field(4, ::pilota::thrift::TType::Binary, ::pilota::thrift::TType::I32, &value, |__protocol, key| {
                __protocol.write_faststr((key).clone())?;
                ::std::result::Result::Ok(())
            }, |__protocol, val| {
                __protocol.write_i32(*val)?;
                ::std::result::Result::Ok(())
            })?;
                    }if let Some(value) = self.bs.as_ref() {
                        __protocol.write_btree_set_field(5, ::pilota::thrift::TType::I32, &value, |__protocol, val| {
                __protocol.write_i32(*val)?;
                ::std::result::Result::Ok(())
            })?;
                    }for bytes in self._unknown_fields.list.iter() {
                                __protocol.write_bytes_without_len(bytes.clone());
                            }
                __protocol.write_field_stop()?;
                __protocol.write_struct_end()?;
                ::std::result::Result::Ok(())

                }

                fn decode<T: ::pilota::thrift::TInputProtocol>(
                    __protocol: &mut T,
                ) -> ::std::result::Result<Self,::pilota::thrift::ThriftException>  {
                    #[allow(unused_imports)]
                    use ::pilota::{thrift::TLengthProtocolExt, Buf};


            let mut var_1 = None;let mut var_2 = None;let mut var_3 = Some(TdTdStr(TdStr(::pilota::FastStr::from_static_str("tdtd"))));let mut var_4 = None;let mut var_5 = None;let mut _unknown_fields = ::pilota::LinkedBytes::new();

            let mut __pilota_decoding_field_id = None;

            __protocol.read_struct_begin()?;
            if let ::std::result::Result::Err(mut err) = (|| {
                    loop {

                let mut __pilota_offset = 0;
            let __pilota_begin_ptr = __protocol.buf().chunk().as_ptr();
                let field_ident = __protocol.read_field_begin()?;
                if field_ident.field_type == ::pilota::thrift::TType::Stop {
                    __pilota_offset += __protocol.field_stop_len();
                    break;
                } else {
                    __pilota_offset += __protocol.field_begin_len(field_ident.field_type, field_ident.id);
                }
                __pilota_decoding_field_id = field_ident.id;
                match field_ident.id {
                    Some(1) if field_ident.field_type == ::pilota::thrift::TType::Binary  => {
                    var_1 = Some(__protocol.read_string()?);

                },Some(2) if field_ident.field_type == ::pilota::thrift::TType::Binary  => {
                    var_2 = Some(__protocol.read_bytes_vec()?);

                },Some(3) if field_ident.field_type == ::pilota::thrift::TType::Binary  => {
                    var_3 = Some(::pilota::thrift::Message::decode(__protocol)?);

                },Some(4) if field_ident.field_type == ::pilota::thrift::TType::Map  => {
                    var_4 = Some({
                        let map_ident = __protocol.read_map_begin()?;
                        let mut val = ::std::collections::BTreeMap::new();
                        for _ in 0..map_ident.size {
                            val.insert(__protocol.read_faststr()?, __protocol.read_i32()?);
                        }
                        __protocol.read_map_end()?;
                        val
                    });

                },Some(5) if field_ident.field_type == ::pilota::thrift::TType::Set  => {
                    var_5 = Some({let list_ident = __protocol.read_set_begin()?;
                    let mut val = ::std::collections::BTreeSet::new();
                    for _ in 0..list_ident.size {
                        val.insert(__protocol.read_i32()?);
                    };
                    __protocol.read_set_end()?;
                    val});

                },
                    _ => {
                        __pilota_offset += __protocol.skip(field_ident.field_type)?;
                        _unknown_fields.push_back(__protocol.get_bytes(Some(__pilota_begin_ptr), __pilota_offset)?);
                    },
                }

                __protocol.read_field_end()?;
                __pilota_offset += __protocol.field_end_len();

            };
                    ::std::result::Result::Ok::<_, ::pilota::thrift::ThriftException>(())
                })() {
                if let Some(field_id) = __pilota_decoding_field_id {
                    err.prepend_msg(&format!("decode struct `DfAnn` field(#{}) failed, caused by: ", field_id));
                }
                return ::std::result::Result::Err(err);
            };
            __protocol.read_struct_end()?;



            if var_1.is_none() {
                                var_1 = Some("plain".to_string());
                            }
if var_2.is_none() {
                                var_2 = Some("vec".as_bytes().to_vec());
                            }
if var_4.is_none() {
                                var_4 = Some({
                    let mut map = ::std::collections::BTreeMap::new();
                    map.insert(::pilota::FastStr::from_static_str("k"), 1i32);
                    map
                });
                            }
if var_5.is_none() {
                                var_5 = Some(::std::collections::BTreeSet::from([2i32,1i32]));
                            }

            let data = Self {
                s: var_1,v: var_2,t: var_3,m: var_4,bs: var_5, _unknown_fields
            };
            ::std::result::Result::Ok(data)

                }

                fn decode_async<'a, T: ::pilota::thrift::TAsyncInputProtocol>(
            __protocol: &'a mut T,
        ) -> ::std::pin::Pin<::std::boxed::Box<dyn ::std::future::Future<Output = ::std::result::Result<Self, ::pilota::thrift::ThriftException>> + Send + 'a>> {
            ::std::boxed::Box::pin(async move {


            let mut var_1 = None;let mut var_2 = None;let mut var_3 = Some(TdTdStr(TdStr(::pilota::FastStr::from_static_str("tdtd"))));let mut var_4 = None;let mut var_5 = None;

            let mut __pilota_decoding_field_id = None;

            __protocol.read_struct_begin().await?;
            if let ::std::result::Result::Err(mut err) = async {
                    loop {


                let field_ident = __protocol.read_field_begin().await?;
                if field_ident.field_type == ::pilota::thrift::TType::Stop {

                    break;
                } else {

                }
                __pilota_decoding_field_id = field_ident.id;
                match field_ident.id {
                    Some(1) if field_ident.field_type == ::pilota::thrift::TType::Binary  => {
                    var_1 = Some(__protocol.read_string().await?);

                },Some(2) if field_ident.field_type == ::pilota::thrift::TType::Binary  => {
                    var_2 = Some(__protocol.read_bytes_vec().await?);

                },Some(3) if field_ident.field_type == ::pilota::thrift::TType::Binary  => {
                    var_3 = Some(<TdTdStr as ::pilota::thrift::Message>::decode_async(__protocol).await?);

                },Some(4) if field_ident.field_type == ::pilota::thrift::TType::Map  => {
                    var_4 = Some({
                        let map_ident = __protocol.read_map_begin().await?;
                        let mut val = ::std::collections::BTreeMap::new();
                        for _ in 0..map_ident.size {
                            val.insert(__protocol.read_faststr().await?, __protocol.read_i32().await?);
                        }
                        __protocol.read_map_end().await?;
                        val
                    });

                },Some(5) if field_ident.field_type == ::pilota::thrift::TType::Set  => {
                    var_5 = Some({let list_ident = __protocol.read_set_begin().await?;
                    let mut val = ::std::collections::BTreeSet::new();
                    for _ in 0..list_ident.size {
                        val.insert(__protocol.read_i32().await?);
                    };
                    __protocol.read_set_end().await?;
                    val});

                },
                    _ => {
                        __protocol.skip(field_ident.field_type).await?;

                    },
                }

                __protocol.read_field_end().await?;


            };
                    ::std::result::Result::Ok::<_, ::pilota::thrift::ThriftException>(())
                }.await {
                if let Some(field_id) = __pilota_decoding_field_id {
                    err.prepend_msg(&format!("decode struct `DfAnn` field(#{}) failed, caused by: ", field_id));
                }
                return ::std::result::Result::Err(err);
            };
            __protocol.read_struct_end().await?;



            if var_1.is_none() {
                                var_1 = Some("plain".to_string());
                            }
if var_2.is_none() {
                                var_2 = Some("vec".as_bytes().to_vec());
                            }
if var_4.is_none() {
                                var_4 = Some({
                    let mut map = ::std::collections::BTreeMap::new();
                    map.insert(::pilota::FastStr::from_static_str("k"), 1i32);
                    map
                });
                            }
if var_5.is_none() {
                                var_5 = Some(::std::collections::BTreeSet::from([2i32,1i32]));
                            }

            let data = Self {
                s: var_1,v: var_2,t: var_3,m: var_4,bs: var_5, _unknown_fields: ::pilota::LinkedBytes::new()
            };
            ::std::result::Result::Ok(data)

            })
        }

                fn size<T: ::pilota::thrift::TLengthProtocol>(&self, __protocol: &mut T) -> usize {
                    #[allow(unused_imports)]
                    use ::pilota::thrift::TLengthProtocolExt;
                    __protocol.struct_begin_len(&::pilota::thrift::TStructIdentifier {
                    name: "DfAnn",
                }) + self.s.as_ref().map_or(0, |value| __protocol.string_field_len(Some(1), &value)) +self.v.as_ref().map_or(0, |value| __protocol.bytes_vec_field_len(Some(2), value)) +self.t.as_ref().map_or(0, |value| __protocol.struct_field_len(Some(3), value)) +self.m.as_ref().map_or(0, |value| __protocol.btree_map_field_len(Some(4), ::pilota::thrift::TType::Binary, ::pilota::thrift::TType::I32, value, |__protocol, key| {
                __protocol.faststr_len(key)
            }, |__protocol, val| {
                __protocol.i32_len(*val)
            })) +self.bs.as_ref().map_or(0, |value| __protocol.btree_set_field_len(Some(5), ::pilota::thrift::TType::I32, value, |__protocol, el| {
                __protocol.i32_len(*el)
            })) +self._unknown_fields.size() + __protocol.field_stop_len() + __protocol.struct_end_len()
                }
            }
                                impl ::std::default::Default for Df0 {
                                    fn default() -> Self {
                                        Df0 {
                                            d1: Some(true),
plain: ::std::default::Default::default(),
d2: Some(false),
d3: Some(true),
_unknown_fields: ::pilota::LinkedBytes::new()
                                        }
                                    }
                                }
                            #[derive(PartialOrd)]
#[derive(Hash, Eq, Ord)]
#[derive(Debug)]#[derive(Clone, PartialEq)]
                pub struct Df0 {

                        pub d1: ::std::option::Option<bool>,

                        pub plain: ::std::option::Option<i32>,

                        pub d2: ::std::option::Option<bool>,

                        pub d3: ::std::option::Option<bool>,pub _unknown_fields: ::pilota::LinkedBytes,
                }
            impl ::pilota::thrift::Message for Df0 {
                fn encode<T: ::pilota::thrift::TOutputProtocol>(
                    &self,
                    __protocol: &mut T,
                ) -> ::std::result::Result<(),::pilota::thrift::ThriftException> {
                    #[allow(unused_imports)]
                    use ::pilota::thrift::TOutputProtocolExt;
                    let struct_ident =::pilota::thrift::TStructIdentifier {
                    name: "Df0",
                };

                __protocol.write_struct_begin(&struct_ident)?;
                if let Some(value) = self.d1.as_ref() {
                        __protocol.write_bool_field(1, *value)?;
                    }if let Some(value) = self.plain.as_ref() {
                        __protocol.write_i32_field(1001, *value)?;
                    }if let Some(value) = self.d2.as_ref() {
                        __protocol.write_bool_field(2, *value)?;
                    }if let Some(value) = self.d3.as_ref() {
                        __protocol.write_bool_field(3, *value)?;
                    }for bytes in self._unknown_fields.list.iter() {
                                __protocol.write_bytes_without_len(bytes.clone());
                            }
                __protocol.write_field_stop()?;
                __protocol.write_struct_end()?;
                ::std::result::Result::Ok(())

                }

                fn decode<T: ::pilota::thrift::TInputProtocol>(
                    __protocol: &mut T,
                ) -> ::std::result::Result<Self,::pilota::thrift::ThriftException>  {
                    #[allow(unused_imports)]
                    use ::pilota::{thrift::TLengthProtocolExt, Buf};


            let mut var_1 = Some(true);let mut var_1001 = None;let mut var_2 = Some(false);let mut var_3 = Some(true);let mut _unknown_fields = ::pilota::LinkedBytes::new();

            let mut __pilota_decoding_field_id = None;

            __protocol.read_struct_begin()?;
            if let ::std::result::Result::Err(mut err) = (|| {
                    loop {

                let mut __pilota_offset = 0;
            let __pilota_begin_ptr = __protocol.buf().chunk().as_ptr();
                let field_ident = __protocol.read_field_begin()?;
                if field_ident.field_type == ::pilota::thrift::TType::Stop {
                    __pilota_offset += __protocol.field_stop_len();
                    break;
                } else {
                    __pilota_offset += __protocol.field_begin_len(field_ident.field_type, field_ident.id);
                }
                __pilota_decoding_field_id = field_ident.id;
                match field_ident.id {
                    Some(1) if field_ident.field_type == ::pilota::thrift::TType::Bool  => {
                    var_1 = Some(__protocol.read_bool()?);

                },Some(1001) if field_ident.field_type == ::pilota::thrift::TType::I32  => {
                    var_1001 = Some(__protocol.read_i32()?);

                },Some(2) if field_ident.field_type == ::pilota::thrift::TType::Bool  => {
                    var_2 = Some(__protocol.read_bool()?);

                },Some(3) if field_ident.field_type == ::pilota::thrift::TType::Bool  => {
                    var_3 = Some(__protocol.read_bool()?);

                },
                    _ => {
                        __pilota_offset += __protocol.skip(field_ident.field_type)?;
                        _unknown_fields.push_back(__protocol.get_bytes(Some(__pilota_begin_ptr), __pilota_offset)?);
                    },
                }

                __protocol.read_field_end()?;
                __pilota_offset += __protocol.field_end_len();

            };
                    ::std::result::Result::Ok::<_, ::pilota::thrift::ThriftException>(())
                })() {
                if let Some(field_id) = __pilota_decoding_field_id {
                    err.prepend_msg(&format!("decode struct `Df0` field(#{}) failed, caused by: ", field_id));
                }
                return ::std::result::Result::Err(err);
            };
            __protocol.read_struct_end()?;





            let data = Self {
                d1: var_1,plain: var_1001,d2: var_2,d3: var_3, _unknown_fields
            };
            ::std::result::Result::Ok(data)

                }

                fn decode_async<'a, T: ::pilota::thrift::TAsyncInputProtocol>(
            __protocol: &'a mut T,
        ) -> ::std::pin::Pin<::std::boxed::Box<dyn ::std::future::Future<Output = ::std::result::Result<Self, ::pilota::thrift::ThriftException>> + Send + 'a>> {
            ::std::boxed::Box::pin(async move {


            let mut var_1 = Some(true);let mut var_1001 = None;let mut var_2 = Some(false);let mut var_3 = Some(true);

            let mut __pilota_decoding_field_id = None;

            __protocol.read_struct_begin().await?;
            if let ::std::result::Result::Err(mut err) = async {
                    loop {


                let field_ident = __protocol.read_field_begin().await?;
                if field_ident.field_type == ::pilota::thrift::TType::Stop {

                    break;
                } else {

                }
                __pilota_decoding_field_id = field_ident.id;
                match field_ident.id {
                    Some(1) if field_ident.field_type == ::pilota::thrift::TType::Bool  => {
                    var_1 = Some(__protocol.read_bool().await?);

                },Some(1001) if field_ident.field_type == ::pilota::thrift::TType::I32  => {
                    var_1001 = Some(__protocol.read_i32().await?);

                },Some(2) if field_ident.field_type == ::pilota::thrift::TType::Bool  => {
                    var_2 = Some(__protocol.read_bool().await?);

                },Some(3) if field_ident.field_type == ::pilota::thrift::TType::Bool  => {
                    var_3 = Some(__protocol.read_bool().await?);

                },
                    _ => {
                        __protocol.skip(field_ident.field_type).await?;

                    },
                }

                __protocol.read_field_end().await?;


            };
                    ::std::result::Result::Ok::<_, ::pilota::thrift::ThriftException>(())
                }.await {
                if let Some(field_id) = __pilota_decoding_field_id {
                    err.prepend_msg(&format!("decode struct `Df0` field(#{}) failed, caused by: ", field_id));
                }
                return ::std::result::Result::Err(err);
            };
            __protocol.read_struct_end().await?;





            let data = Self {
                d1: var_1,plain: var_1001,d2: var_2,d3: var_3, _unknown_fields: ::pilota::LinkedBytes::new()
            };
            ::std::result::Result::Ok(data)

            })
        }

                fn size<T: ::pilota::thrift::TLengthProtocol>(&self, __protocol: &mut T) -> usize {
                    #[allow(unused_imports)]
                    use ::pilota::thrift::TLengthProtocolExt;
                    __protocol.struct_begin_len(&::pilota::thrift::TStructIdentifier {
                    name: "Df0",
                }) + self.d1.as_ref().map_or(0, |value| __protocol.bool_field_len(Some(1), *value)) +self.plain.as_ref().map_or(0, |value| __protocol.i32_field_len(Some(1001), *value)) +self.d2.as_ref().map_or(0, |value| __protocol.bool_field_len(Some(2), *value)) +self.d3.as_ref().map_or(0, |value| __protocol.bool_field_len(Some(3), *value)) +self._unknown_fields.size() + __protocol.field_stop_len() + __protocol.struct_end_len()
                }
            }
                                impl ::std::default::Default for Df55 {
                                    fn default() -> Self {
                                        Df55 {
                                            d1: -9007199254740992f64,
plain: ::std::default::Default::default(),
d2: 0f64,
d3: ::pilota::FastStr::from_static_str("hi there"),
_unknown_fields: ::pilota::LinkedBytes::new()
                                        }
                                    }
                                }
                            #[derive(PartialOrd)]
#[derive(Debug)]#[derive(Clone, PartialEq)]
                pub struct Df55 {

                        pub d1: f64,

                        pub plain: ::std::option::Option<i32>,

                        pub d2: f64,

                        pub d3: ::pilota::FastStr,pub _unknown_fields: ::pilota::LinkedBytes,
                }
            impl ::pilota::thrift::Message for Df55 {
                fn encode<T: ::pilota::thrift::TOutputProtocol>(
                    &self,
                    __protocol: &mut T,
                ) -> ::std::result::Result<(),::pilota::thrift::ThriftException> {
                    #[allow(unused_imports)]
                    use ::pilota::thrift::TOutputProtocolExt;
                    let struct_ident =::pilota::thrift::TStructIdentifier {
                    name: "Df55",
                };

                __protocol.write_struct_begin(&struct_ident)?;
                __protocol.write_double_field(127, *&self.d1)?;if let Some(value) = self.plain.as_ref() {
                        __protocol.write_i32_field(1182, *value)?;
                    }__protocol.write_double_field(128, *&self.d2)?;__protocol.write_faststr_field(300, (&self.d3).clone())?;for bytes in self._unknown_fields.list.iter() {
                                __protocol.write_bytes_without_len(bytes.clone());
                            }
                __protocol.write_field_stop()?;
                __protocol.write_struct_end()?;
                ::std::result::Result::Ok(())

                }

                fn decode<T: ::pilota::thrift::TInputProtocol>(
                    __protocol: &mut T,
                ) -> ::std::result::Result<Self,::pilota::thrift::ThriftException>  {
                    #[allow(unused_imports)]
                    use ::pilota::{thrift::TLengthProtocolExt, Buf};


            let mut var_127 = -9007199254740992f64;let mut var_1182 = None;let mut var_128 = 0f64;let mut var_300 = ::pilota::FastStr::from_static_str("hi there");let mut _unknown_fields = ::pilota::LinkedBytes::new();

            let mut __pilota_decoding_field_id = None;

            __protocol.read_struct_begin()?;
            if let ::std::result::Result::Err(mut err) = (|| {
                    loop {

                let mut __pilota_offset = 0;
            let __pilota_begin_ptr = __protocol.buf().chunk().as_ptr();
                let field_ident = __protocol.read_field_begin()?;
                if field_ident.field_type == ::pilota::thrift::TType::Stop {
                    __pilota_offset += __protocol.field_stop_len();
                    break;
                } else {
                    __pilota_offset += __protocol.field_begin_len(field_ident.field_type, field_ident.id);
                }
                __pilota_decoding_field_id = field_ident.id;
                match field_ident.id {
                    Some(127) if field_ident.field_type == ::pilota::thrift::TType::Double  => {
                    var_127 = __protocol.read_double()?;

                },Some(1182) if field_ident.field_type == ::pilota::thrift::TType::I32  => {
                    var_1182 = Some(__protocol.read_i32()?);

                },Some(128) if field_ident.field_type == ::pilota::thrift::TType::Double  => {
                    var_128 = __protocol.read_double()?;

                },Some(300) if field_ident.field_type == ::pilota::thrift::TType::Binary  => {
                    var_300 = __protocol.read_faststr()?;

                },
                    _ => {
                        __pilota_offset += __protocol.skip(field_ident.field_type)?;
                        _unknown_fields.push_back(__protocol.get_bytes(Some(__pilota_begin_ptr), __pilota_offset)?);
                    },
                }

                __protocol.read_field_end()?;
                __pilota_offset += __protocol.field_end_len();

            };
                    ::std::result::Result::Ok::<_, ::pilota::thrift::ThriftException>(())
                })() {
                if let Some(field_id) = __pilota_decoding_field_id {
                    err.prepend_msg(&format!("decode struct `Df55` field(#{}) failed, caused by: ", field_id));
                }
                return ::std::result::Result::Err(err);
            };
            __protocol.read_struct_end()?;





            let data = Self {
                d1: var_127,plain: var_1182,d2: var_128,d3: var_300, _unknown_fields
            };
            ::std::result::Result::Ok(data)

                }

                fn decode_async<'a, T: ::pilota::thrift::TAsyncInputProtocol>(
            __protocol: &'a mut T,
        ) -> ::std::pin::Pin<::std::boxed::Box<dyn ::std::future::Future<Output = ::std::result::Result<Self, ::pilota::thrift::ThriftException>> + Send + 'a>> {
            ::std::boxed::Box::pin(async move {


            let mut var_127 = -9007199254740992f64;let mut var_1182 = None;let mut var_128 = 0f64;let mut var_300 = ::pilota::FastStr::from_static_str("hi there");

            let mut __pilota_decoding_field_id = None;

            __protocol.read_struct_begin().await?;
            if let ::std::result::Result::Err(mut err) = async {
                    loop {


                let field_ident = __protocol.read_field_begin().await?;
                if field_ident.field_type == ::pilota::thrift::TType::Stop {

                    break;
                } else {

                }
                __pilota_decoding_field_id = field_ident.id;
                match field_ident.id {
                    Some(127) if field_ident.field_type == ::pilota::thrift::TType::Double  => {
                    var_127 = __protocol.read_double().await?;

                },Some(1182) if field_ident.field_type == ::pilota::thrift::TType::I32  => {
                    var_1182 = Some(__protocol.read_i32().await?);

                },Some(128) if field_ident.field_type == ::pilota::thrift::TType::Double  => {
                    var_128 = __protocol.read_double().await?;

                },Some(300) if field_ident.field_type == ::pilota::thrift::TType::Binary  => {
                    var_300 = __protocol.read_faststr().await?;

                },
                    _ => {
                        __protocol.skip(field_ident.field_type).await?;

                    },
                }

                __protocol.read_field_end().await?;


            };
                    ::std::result::Result::Ok::<_, ::pilota::thrift::ThriftException>(())
                }.await {
                if let Some(field_id) = __pilota_decoding_field_id {
                    err.prepend_msg(&format!("decode struct `Df55` field(#{}) failed, caused by: ", field_id));
                }
                return ::std::result::Result::Err(err);
            };
            __protocol.read_struct_end().await?;





            let data = Self {
                d1: var_127,plain: var_1182,d2: var_128,d3: var_300, _unknown_fields: ::pilota::LinkedBytes::new()
            };
            ::std::result::Result::Ok(data)

            })
        }

                fn size<T: ::pilota::thrift::TLengthProtocol>(&self, __protocol: &mut T) -> usize {
                    #[allow(unused_imports)]
                    use ::pilota::thrift::TLengthProtocolExt;
                    __protocol.struct_begin_len(&::pilota::thrift::TStructIdentifier {
                    name: "Df55",
                }) + __protocol.double_field_len(Some(127), *&self.d1)  +self.plain.as_ref().map_or(0, |value| __protocol.i32_field_len(Some(1182), *value)) +__protocol.double_field_len(Some(128), *&self.d2)  +__protocol.faststr_field_len(Some(300), &self.d3) +self._unknown_fields.size() + __protocol.field_stop_len() + __protocol.struct_end_len()
                }
            }
                                impl ::std::default::Default for Df31 {
                                    fn default() -> Self {
                                        Df31 {
                                            d1: Some(-9007199254740992f64),
plain: ::std::default::Default::default(),
d2: Some(0f64),
d3: Some(::pilota::FastStr::from_static_str("hi there")),
_unknown_fields: ::pilota::LinkedBytes::new()
                                        }
                                    }
                                }
                            #[derive(PartialOrd)]
#[derive(Debug)]#[derive(Clone, PartialEq)]
                pub struct Df31 {

                        pub d1: ::std::option::Option<f64>,

                        pub plain: ::std::option::Option<i32>,

                        pub d2: ::std::option::Option<f64>,

                        pub d3: ::std::option::Option<::pilota::FastStr>,pub _unknown_fields: ::pilota::LinkedBytes,
                }
            impl ::pilota::thrift::Message for Df31 {
                fn encode<T: ::pilota::thrift::TOutputProtocol>(
                    &self,
                    __protocol: &mut T,
                ) -> ::std::result::Result<(),::pilota::thrift::ThriftException> {
                    #[allow(unused_imports)]
                    use ::pilota::thrift::TOutputProtocolExt;
                    let struct_ident =::pilota::thrift::TStructIdentifier {
                    name: "Df31",
                };

                __protocol.write_struct_begin(&struct_ident)?;
                if let Some(value) = self.d1.as_ref() {
                        __protocol.write_double_field(5, *value)?;
                    }if let Some(value) = self.plain.as_ref() {
                        __protocol.write_i32_field(1036, *value)?;
                    }if let Some(value) = self.d2.as_ref() {
                        __protocol.write_double_field(20, *value)?;
                    }if let Some(value) = self.d3.as_ref() {
                        __protocol.write_faststr_field(21, (value).clone())?;
                    }for bytes in self._unknown_fields.list.iter() {
                                __protocol.write_bytes_without_len(bytes.clone());
                            }
                __protocol.write_field_stop()?;
                __protocol.write_struct_end()?;
                ::std::result::Result::Ok(())

                }

                fn decode<T: ::pilota::thrift::TInputProtocol>(
                    __protocol: &mut T,
                ) -> ::std::result::Result<Self,::pilota::thrift::ThriftException>  {
                    #[allow(unused_imports)]
                    use ::pilota::{thrift::TLengthProtocolExt, Buf};


            let mut var_5 = Some(-9007199254740992f64);let mut var_1036 = None;let mut var_20 = Some(0f64);let mut var_21 = Some(::pilota::FastStr::from_static_str("hi there"));let mut _unknown_fields = ::pilota::LinkedBytes::new();

            let mut __pilota_decoding_field_id = None;

            __protocol.read_struct_begin()?;
            if let ::std::result::Result::Err(mut err) = (|| {
                    loop {

                let mut __pilota_offset = 0;
            let __pilota_begin_ptr = __protocol.buf().chunk().as_ptr();
                let field_ident = __protocol.read_field_begin()?;
                if field_ident.field_type == ::pilota::thrift::TType::Stop {
                    __pilota_offset += __protocol.field_stop_len();
                    break;
                } else {
                    __pilota_offset += __protocol.field_begin_len(field_ident.field_type, field_ident.id);
                }
                __pilota_decoding_field_id = field_ident.id;
                match field_ident.id {
                    Some(5) if field_ident.field_type == ::pilota::thrift::TType::Double  => {
                    var_5 = Some(__protocol.read_double()?);

                },Some(1036) if field_ident.field_type == ::pilota::thrift::TType::I32  => {
                    var_1036 = Some(__protocol.read_i32()?);

                },Some(20) if field_ident.field_type == ::pilota::thrift::TType::Double  => {
                    var_20 = Some(__protocol.read_double()?);

                },Some(21) if field_ident.field_type == ::pilota::thrift::TType::Binary  => {
                    var_21 = Some(__protocol.read_faststr()?);

                },
                    _ => {
                        __pilota_offset += __protocol.skip(field_ident.field_type)?;
                        _unknown_fields.push_back(__protocol.get_bytes(Some(__pilota_begin_ptr), __pilota_offset)?);
                    },
                }

                __protocol.read_field_end()?;
                __pilota_offset += __protocol.field_end_len();

            };
                    ::std::result::Result::Ok::<_, ::pilota::thrift::ThriftException>(())
                })() {
                if let Some(field_id) = __pilota_decoding_field_id {
                    err.prepend_msg(&format!("decode struct `Df31` field(#{}) failed, caused by: ", field_id));
                }
                return ::std::result::Result::Err(err);
            };
            __protocol.read_struct_end()?;





            let data = Self {
                d1: var_5,plain: var_1036,d2: var_20,d3: var_21, _unknown_fields
            };
            ::std::result::Result::Ok(data)

                }

                fn decode_async<'a, T: ::pilota::thrift::TAsyncInputProtocol>(
            __protocol: &'a mut T,
        ) -> ::std::pin::Pin<::std::boxed::Box<dyn ::std::future::Future<Output = ::std::result::Result<Self, ::pilota::thrift::ThriftException>> + Send + 'a>> {
            ::std::boxed::Box::pin(async move {


            let mut var_5 = Some(-9007199254740992f64);let mut var_1036 = None;let mut var_20 = Some(0f64);let mut var_21 = Some(::pilota::FastStr::from_static_str("hi there"));

            let mut __pilota_decoding_field_id = None;

            __protocol.read_struct_begin().await?;
            if let ::std::result::Result::Err(mut err) = async {
                    loop {


                let field_ident = __protocol.read_field_begin().await?;
                if field_ident.field_type == ::pilota::thrift::TType::Stop {

                    break;
                } else {

                }
                __pilota_decoding_field_id = field_ident.id;
                match field_ident.id {
                    Some(5) if field_ident.field_type == ::pilota::thrift::TType::Double  => {
                    var_5 = Some(__protocol.read_double().await?);

                },Some(1036) if field_ident.field_type == ::pilota::thrift::TType::I32  => {
                    var_1036 = Some(__protocol.read_i32().await?);

                },Some(20) if field_ident.field_type == ::pilota::thrift::TType::Double  => {
                    var_20 = Some(__protocol.read_double().await?);

                },Some(21) if field_ident.field_type == ::pilota::thrift::TType::Binary  => {
                    var_21 = Some(__protocol.read_faststr().await?);

                },
                    _ => {
                        __protocol.skip(field_ident.field_type).await?;

                    },
                }

                __protocol.read_field_end().await?;


            };
                    ::std::result::Result::Ok::<_, ::pilota::thrift::ThriftException>(())
                }.await {
                if let Some(field_id) = __pilota_decoding_field_id {
                    err.prepend_msg(&format!("decode struct `Df31` field(#{}) failed, caused by: ", field_id));
                }
                return ::std::result::Result::Err(err);
            };
            __protocol.read_struct_end().await?;





            let data = Self {
                d1: var_5,plain: var_1036,d2: var_20,d3: var_21, _unknown_fields: ::pilota::LinkedBytes::new()
            };
            ::std::result::Result::Ok(data)

            })
        }

                fn size<T: ::pilota::thrift::TLengthProtocol>(&self, __protocol: &mut T) -> usize {
                    #[allow(unused_imports)]
                    use ::pilota::thrift::TLengthProtocolExt;
                    __protocol.struct_begin_len(&::pilota::thrift::TStructIdentifier {
                    name: "Df31",
                }) + self.d1.as_ref().map_or(0, |value| __protocol.double_field_len(Some(5), *value) ) +self.plain.as_ref().map_or(0, |value| __protocol.i32_field_len(Some(1036), *value)) +self.d2.as_ref().map_or(0, |value| __protocol.double_field_len(Some(20), *value) ) +self.d3.as_ref().map_or(0, |value| __protocol.faststr_field_len(Some(21), value)) +self._unknown_fields.size() + __protocol.field_stop_len() + __protocol.struct_end_len()
                }
            }
                                impl ::std::default::Default for Df7 {
                                    fn default() -> Self {
                                        Df7 {
                                            d1: Some(-9007199254740992f64),
plain: ::std::default::Default::default(),
d2: Some(0f64),
d3: Some(::pilota::FastStr::from_static_str("hi there")),
_unknown_fields: ::pilota::LinkedBytes::new()
                                        }
                                    }
                                }
                            #[derive(PartialOrd)]
#[derive(Debug)]#[derive(Clone, PartialEq)]
                pub struct Df7 {

                        pub d1: ::std::option::Option<f64>,

                        pub plain: ::std::option::Option<i32>,

                        pub d2: ::std::option::Option<f64>,

                        pub d3: ::std::option::Option<::pilota::FastStr>,pub _unknown_fields: ::pilota::LinkedBytes,
                }
            impl ::pilota::thrift::Message for Df7 {
                fn encode<T: ::pilota::thrift::TOutputProtocol>(
                    &self,
                    __protocol: &mut T,
                ) -> ::std::result::Result<(),::pilota::thrift::ThriftException> {
                    #[allow(unused_imports)]
                    use ::pilota::thrift::TOutputProtocolExt;
                    let struct_ident =::pilota::thrift::TStructIdentifier {
                    name: "Df7",
                };

                __protocol.write_struct_begin(&struct_ident)?;
                if let Some(value) = self.d1.as_ref() {
                        __protocol.write_double_field(1, *value)?;
                    }if let Some(value) = self.plain.as_ref() {
                        __protocol.write_i32_field(1008, *value)?;
                    }if let Some(value) = self.d2.as_ref() {
                        __protocol.write_double_field(15, *value)?;
                    }if let Some(value) = self.d3.as_ref() {
                        __protocol.write_faststr_field(16, (value).clone())?;
                    }for bytes in self._unknown_fields.list.iter() {
                                __protocol.write_bytes_without_len(bytes.clone());
                            }
                __protocol.write_field_stop()?;
                __protocol.write_struct_end()?;
                ::std::result::Result::Ok(())

                }

                fn decode<T: ::pilota::thrift::TInputProtocol>(
                    __protocol: &mut T,
                ) -> ::std::result::Result<Self,::pilota::thrift::ThriftException>  {
                    #[allow(unused_imports)]
                    use ::pilota::{thrift::TLengthProtocolExt, Buf};


            let mut var_1 = Some(-9007199254740992f64);let mut var_1008 = None;let mut var_15 = Some(0f64);let mut var_16 = Some(::pilota::FastStr::from_static_str("hi there"));let mut _unknown_fields = ::pilota::LinkedBytes::new();

            let mut __pilota_decoding_field_id = None;

            __protocol.read_struct_begin()?;
            if let ::std::result::Result::Err(mut err) = (|| {
                    loop {

                let mut __pilota_offset = 0;
            let __pilota_begin_ptr = __protocol.buf().chunk().as_ptr();
                let field_ident = __protocol.read_field_begin()?;
                if field_ident.field_type == ::pilota::thrift::TType::Stop {
                    __pilota_offset += __protocol.field_stop_len();
                    break;
                } else {
                    __pilota_offset += __protocol.field_begin_len(field_ident.field_type, field_ident.id);
                }
                __pilota_decoding_field_id = field_ident.id;
                match field_ident.id {
                    Some(1) if field_ident.field_type == ::pilota::thrift::TType::Double  => {
                    var_1 = Some(__protocol.read_double()?);

                },Some(1008) if field_ident.field_type == ::pilota::thrift::TType::I32  => {
                    var_1008 = Some(__protocol.read_i32()?);

                },Some(15) if field_ident.field_type == ::pilota::thrift::TType::Double  => {
                    var_15 = Some(__protocol.read_double()?);

                },Some(16) if field_ident.field_type == ::pilota::thrift::TType::Binary  => {
                    var_16 = Some(__protocol.read_faststr()?);

                },
                    _ => {
                        __pilota_offset += __protocol.skip(field_ident.field_type)?;
                        _unknown_fields.push_back(__protocol.get_bytes(Some(__pilota_begin_ptr), __pilota_offset)?);
                    },
                }

                __protocol.read_field_end()?;
                __pilota_offset += __protocol.field_end_len();

            };
                    ::std::result::Result::Ok::<_, ::pilota::thrift::ThriftException>(())
                })() {
                if let Some(field_id) = __pilota_decoding_field_id {
                    err.prepend_msg(&format!("decode struct `Df7` field(#{}) failed, caused by: ", field_id));
                }
                return ::std::result::Result::Err(err);
            };
            __protocol.read_struct_end()?;





            let data = Self {
                d1: var_1,plain: var_1008,d2: var_15,d3: var_16, _unknown_fields
            };
            ::std::result::Result::Ok(data)

                }

                fn decode_async<'a, T: ::pilota::thrift::TAsyncInputProtocol>(
            __protocol: &'a mut T,
        ) -> ::std::pin::Pin<::std::boxed::Box<dyn ::std::future::Future<Output = ::std::result::Result<Self, ::pilota::thrift::ThriftException>> + Send + 'a>> {
            ::std::boxed::Box::pin(async move {


            let mut var_1 = Some(-9007199254740992f64);let mut var_1008 = None;let mut var_15 = Some(0f64);let mut var_16 = Some(::pilota::FastStr::from_static_str("hi there"));

            let mut __pilota_decoding_field_id = None;

            __protocol.read_struct_begin().await?;
            if let ::std::result::Result::Err(mut err) = async {
                    loop {


                let field_ident = __protocol.read_field_begin().await?;
                if field_ident.field_type == ::pilota::thrift::TType::Stop {

                    break;
                } else {

                }
                __pilota_decoding_field_id = field_ident.id;
                match field_ident.id {
                    Some(1) if field_ident.field_type == ::pilota::thrift::TType::Double  => {
                    var_1 = Some(__protocol.read_double().await?);

                },Some(1008) if field_ident.field_type == ::pilota::thrift::TType::I32  => {
                    var_1008 = Some(__protocol.read_i32().await?);

                },Some(15) if field_ident.field_type == ::pilota::thrift::TType::Double  => {
                    var_15 = Some(__protocol.read_double().await?);

                },Some(16) if field_ident.field_type == ::pilota::thrift::TType::Binary  => {
                    var_16 = Some(__protocol.read_faststr().await?);

                },
                    _ => {
                        __protocol.skip(field_ident.field_type).await?;

                    },
                }

                __protocol.read_field_end().await?;


            };
                    ::std::result::Result::Ok::<_, ::pilota::thrift::ThriftException>(())
                }.await {
                if let Some(field_id) = __pilota_decoding_field_id {
                    err.prepend_msg(&format!("decode struct `Df7` field(#{}) failed, caused by: ", field_id));
                }
                return ::std::result::Result::Err(err);
            };
            __protocol.read_struct_end().await?;





            let data = Self {
                d1: var_1,plain: var_1008,d2: var_15,d3: var_16, _unknown_fields: ::pilota::LinkedBytes::new()
            };
            ::std::result::Result::Ok(data)

            })
        }

                fn size<T: ::pilota::thrift::TLengthProtocol>(&self, __protocol: &mut T) -> usize {
                    #[allow(unused_imports)]
                    use ::pilota::thrift::TLengthProtocolExt;
                    __protocol.struct_begin_len(&::pilota::thrift::TStructIdentifier {
                    name: "Df7",
                }) + self.d1.as_ref().map_or(0, |value| __protocol.double_field_len(Some(1), *value) ) +self.plain.as_ref().map_or(0, |value| __protocol.i32_field_len(Some(1008), *value)) +self.d2.as_ref().map_or(0, |value| __protocol.double_field_len(Some(15), *value) ) +self.d3.as_ref().map_or(0, |value| __protocol.faststr_field_len(Some(16), value)) +self._unknown_fields.size() + __protocol.field_stop_len() + __protocol.struct_end_len()
                }
            }
                                impl ::std::default::Default for Df62 {
                                    fn default() -> Self {
                                        Df62 {
                                            d1: TdMap({
                    let mut map = ::pilota::AHashMap::with_capacity(1);
                    map.insert(::pilota::FastStr::from_static_str("k"), TdI32(7i32));
                    map
                }),
plain: ::std::default::Default::default(),
d2: ::std::vec![1i32,2i32],
d3: ::std::vec![],
_unknown_fields: ::pilota::LinkedBytes::new()
                                        }
                                    }
                                }
                            #[derive(Debug)]#[derive(Clone, PartialEq)]
                pub struct Df62 {

                        pub d1: TdMap,

                        pub plain: ::std::option::Option<i32>,

                        pub d2: ::std::vec::Vec<i32>,

                        pub d3: ::std::vec::Vec<i32>,pub _unknown_fields: ::pilota::LinkedBytes,
                }
            impl ::pilota::thrift::Message for Df62 {
                fn encode<T: ::pilota::thrift::TOutputProtocol>(
                    &self,
                    __protocol: &mut T,
                ) -> ::std::result::Result<(),::pilota::thrift::ThriftException> {
                    #[allow(unused_imports)]
                    use ::pilota::thrift::TOutputProtocolExt;
                    let struct_ident =::pilota::thrift::TStructIdentifier {
                    name: "Df62",
                };

                __protocol.write_struct_begin(&struct_ident)?;
                __protocol.write_struct_field(1, &self.d1, ::pilota::thrift::TType::Map)?;if let Some(value) = self.plain.as_ref() {
                        __protocol.write_i32_field(1063, *value)?;
                    }__protocol.write_list_field(2, ::pilota::thrift::TType::I32, &&self.d2, |__protocol, val| {
                        __protocol.write_i32(*val)?;
                        ::std::result::Result::Ok(())
                    })?;__protocol.write_list_field(32767, ::pilota::thrift::TType::I32, &&self.d3, |__protocol, val| {
                        __protocol.write_i32(*val)?;
                        ::std::result::Result::Ok(())
                    })?;for bytes in self._unknown_fields.list.iter() {
                                __protocol.write_bytes_without_len(bytes.clone());
                            }
                __protocol.write_field_stop()?;
                __protocol.write_struct_end()?;
                ::std::result::Result::Ok(())

                }

                fn decode<T: ::pilota::thrift::TInputProtocol>(
                    __protocol: &mut T,
                ) -> ::std::result::Result<Self,::pilota::thrift::ThriftException>  {
                    #[allow(unused_imports)]
                    use ::pilota::{thrift::TLengthProtocolExt, Buf};


            let mut var_1 = None;let mut var_1063 = None;let mut var_2 = None;let mut var_32767 = None;let mut _unknown_fields = ::pilota::LinkedBytes::new();

            let mut __pilota_decoding_field_id = None;

            __protocol.read_struct_begin()?;
            if let ::std::result::Result::Err(mut err) = (|| {
                    loop {

                let mut __pilota_offset = 0;
            let __pilota_begin_ptr = __protocol.buf().chunk().as_ptr();
                let field_ident = __protocol.read_field_begin()?;
                if field_ident.field_type == ::pilota::thrift::TType::Stop {
                    __pilota_offset += __protocol.field_stop_len();
                    break;
                } else {
                    __pilota_offset += __protocol.field_begin_len(field_ident.field_type, field_ident.id);
                }
                __pilota_decoding_field_id = field_ident.id;
                match field_ident.id {
                    Some(1) if field_ident.field_type == ::pilota::thrift::TType::Map  => {
                    var_1 = Some(::pilota::thrift::Message::decode(__protocol)?);

                },Some(1063) if field_ident.field_type == ::pilota::thrift::TType::I32  => {
                    var_1063 = Some(__protocol.read_i32()?);

                },Some(2) if field_ident.field_type == ::pilota::thrift::TType::List  => {
                    var_2 = Some(unsafe {
                            let list_ident = __protocol.read_list_begin()?;
                            let mut val: ::std::vec::Vec<i32> = ::std::vec::Vec::with_capacity(list_ident.size);
                            for i in 0..list_ident.size {
                                val.as_mut_ptr().offset(i as isize).write(__protocol.read_i32()?);
                            };
                            val.set_len(list_ident.size);
                            __protocol.read_list_end()?;
                            val
                        });

                },Some(32767) if field_ident.field_type == ::pilota::thrift::TType::List  => {
                    var_32767 = Some(unsafe {
                            let list_ident = __protocol.read_list_begin()?;
                            let mut val: ::std::vec::Vec<i32> = ::std::vec::Vec::with_capacity(list_ident.size);
                            for i in 0..list_ident.size {
                                val.as_mut_ptr().offset(i as isize).write(__protocol.read_i32()?);
                            };
                            val.set_len(list_ident.size);
                            __protocol.read_list_end()?;
                            val
                        });

                },
                    _ => {
                        __pilota_offset += __protocol.skip(field_ident.field_type)?;
                        _unknown_fields.push_back(__protocol.get_bytes(Some(__pilota_begin_ptr), __pilota_offset)?);
                    },
                }

                __protocol.read_field_end()?;
                __pilota_offset += __protocol.field_end_len();

            };
                    ::std::result::Result::Ok::<_, ::pilota::thrift::ThriftException>(())
                })() {
                if let Some(field_id) = __pilota_decoding_field_id {
                    err.prepend_msg(&format!("decode struct `Df62` field(#{}) failed, caused by: ", field_id));
                }
                return ::std::result::Result::Err(err);
            };
            __protocol.read_struct_end()?;



            let var_1 = var_1.unwrap_or_else(|| TdMap({
                    let mut map = ::pilota::AHashMap::with_capacity(1);
                    map.insert(::pilota::FastStr::from_static_str("k"), TdI32(7i32));
                    map
                }));
let var_2 = var_2.unwrap_or_else(|| ::std::vec![1i32,2i32]);
let var_32767 = var_32767.unwrap_or_else(|| ::std::vec![]);

            let data = Self {
                d1: var_1,plain: var_1063,d2: var_2,d3: var_32767, _unknown_fields
            };
            ::std::result::Result::Ok(data)

                }

                fn decode_async<'a, T: ::pilota::thrift::TAsyncInputProtocol>(
            __protocol: &'a mut T,
        ) -> ::std::pin::Pin<::std::boxed::Box<dyn ::std::future::Future<Output = ::std::result::Result<Self, ::pilota::thrift::ThriftException>> + Send + 'a>> {
            ::std::boxed::Box::pin(async move {


            let mut var_1 = None;let mut var_1063 = None;let mut var_2 = None;let mut var_32767 = None;

            let mut __pilota_decoding_field_id = None;

            __protocol.read_struct_begin().await?;
            if let ::std::result::Result::Err(mut err) = async {
                    loop {


                let field_ident = __protocol.read_field_begin().await?;
                if field_ident.field_type == ::pilota::thrift::TType::Stop {

                    break;
                } else {

                }
                __pilota_decoding_field_id = field_ident.id;
                match field_ident.id {
                    Some(1) if field_ident.field_type == ::pilota::thrift::TType::Map  => {
                    var_1 = Some(<TdMap as ::pilota::thrift::Message>::decode_async(__protocol).await?);

                },Some(1063) if field_ident.field_type == ::pilota::thrift::TType::I32  => {
                    var_1063 = Some(__protocol.read_i32().await?);

                },Some(2) if field_ident.field_type == ::pilota::thrift::TType::List  => {
                    var_2 = Some({
                            let list_ident = __protocol.read_list_begin().await?;
                            let mut val = ::std::vec::Vec::with_capacity(list_ident.size);
                            for _ in 0..list_ident.size {
                                val.push(__protocol.read_i32().await?);
                            };
                            __protocol.read_list_end().await?;
                            val
                        });

                },Some(32767) if field_ident.field_type == ::pilota::thrift::TType::List  => {
                    var_32767 = Some({
                            let list_ident = __protocol.read_list_begin().await?;
                            let mut val = ::std::vec::Vec::with_capacity(list_ident.size);
                            for _ in 0..list_ident.size {
                                val.push(__protocol.read_i32().await?);
                            };
                            __protocol.read_list_end().await?;
                            val
                        });

                },
                    _ => {
                        __protocol.skip(field_ident.field_type).await?;

                    },
                }

                __protocol.read_field_end().await?;


            };
                    ::std::result::Result::Ok::<_, ::pilota::thrift::ThriftException>(())
                }.await {
                if let Some(field_id) = __pilota_decoding_field_id {
                    err.prepend_msg(&format!("decode struct `Df62` field(#{}) failed, caused by: ", field_id));
                }
                return ::std::result::Result::Err(err);
            };
            __protocol.read_struct_end().await?;



            let var_1 = var_1.unwrap_or_else(|| TdMap({
                    let mut map = ::pilota::AHashMap::with_capacity(1);
                    map.insert(::pilota::FastStr::from_static_str("k"), TdI32(7i32));
                    map
                }));
let var_2 = var_2.unwrap_or_else(|| ::std::vec![1i32,2i32]);
let var_32767 = var_32767.unwrap_or_else(|| ::std::vec![]);

            let data = Self {
                d1: var_1,plain: var_1063,d2: var_2,d3: var_32767, _unknown_fields: ::pilota::LinkedBytes::new()
            };
            ::std::result::Result::Ok(data)

            })
        }

                fn size<T: ::pilota::thrift::TLengthProtocol>(&self, __protocol: &mut T) -> usize {
                    #[allow(unused_imports)]
                    use ::pilota::thrift::TLengthProtocolExt;
                    __protocol.struct_begin_len(&::pilota::thrift::TStructIdentifier {
                    name: "Df62",
                }) + __protocol.struct_field_len(Some(1), &self.d1) +self.plain.as_ref().map_or(0, |value| __protocol.i32_field_len(Some(1063), *value)) +__protocol.list_field_len(Some(2), ::pilota::thrift::TType::I32, &self.d2, |__protocol, el| {
                        __protocol.i32_len(*el)
                    }) +__protocol.list_field_len(Some(32767), ::pilota::thrift::TType::I32, &self.d3, |__protocol, el| {
                        __protocol.i32_len(*el)
                    }) +self._unknown_fields.size() + __protocol.field_stop_len() + __protocol.struct_end_len()
                }
            }#[derive(PartialOrd)]
#[derive(Hash, Eq, Ord)]
#[derive(Debug)]
#[derive(Default)]
            #[derive(Clone, PartialEq)]
            pub struct TdStr(pub ::pilota::FastStr);

            impl ::std::ops::Deref for TdStr {
                type Target = ::pilota::FastStr;

                fn deref(&self) -> &Self::Target {
                    &self.0
                }
            }

            impl From<::pilota::FastStr> for TdStr {
                fn from(v: ::pilota::FastStr) -> Self {
                    Self(v)
                }
            }


            impl ::pilota::thrift::Message for TdStr {
                fn encode<T: ::pilota::thrift::TOutputProtocol>(
                    &self,
                    __protocol: &mut T,
                ) -> ::std::result::Result<(),::pilota::thrift::ThriftException> {
                    #[allow(unused_imports)]
                    use ::pilota::thrift::TOutputProtocolExt;
                    __protocol.write_faststr(((&**self)).clone())?;
                ::std::result::Result::Ok(())
                }

                fn decode<T: ::pilota::thrift::TInputProtocol>(
                    __protocol: &mut T,
                ) -> ::std::result::Result<Self,::pilota::thrift::ThriftException>  {
                    #[allow(unused_imports)]
                    use ::pilota::{thrift::TLengthProtocolExt, Buf};
                    ::std::result::Result::Ok(TdStr(__protocol.read_faststr()?))
                }

                fn decode_async<'a, T: ::pilota::thrift::TAsyncInputProtocol>(
            __protocol: &'a mut T,
        ) -> ::std::pin::Pin<::std::boxed::Box<dyn ::std::future::Future<Output = ::std::result::Result<Self, ::pilota::thrift::ThriftException>> + Send + 'a>> {
            ::std::boxed::Box::pin(async move {
                ::std::result::Result::Ok(TdStr(__protocol.read_faststr().await?))
            })
        }

                fn size<T: ::pilota::thrift::TLengthProtocol>(&self, __protocol: &mut T) -> usize {
                    #[allow(unused_imports)]
                    use ::pilota::thrift::TLengthProtocolExt;
                    __protocol.faststr_len(&**self)
                }
            }
                                impl ::std::default::Default for Df38 {
                                    fn default() -> Self {
                                        Df38 {
                                            d1: Some(TdMap({
                    let mut map = ::pilota::AHashMap::with_capacity(1);
                    map.insert(::pilota::FastStr::from_static_str("k"), TdI32(7i32));
                    map
                })),
plain: ::std::default::Default::default(),
d2: Some(::std::vec![1i32,2i32]),
d3: Some(::std::vec![]),
_unknown_fields: ::pilota::LinkedBytes::new()
                                        }
                                    }
                                }
                            #[derive(Debug)]#[derive(Clone, PartialEq)]
                pub struct Df38 {

                        pub d1: ::std::option::Option<TdMap>,

                        pub plain: ::std::option::Option<i32>,

                        pub d2: ::std::option::Option<::std::vec::Vec<i32>>,

                        pub d3: ::std::option::Option<::std::vec::Vec<i32>>,pub _unknown_fields: ::pilota::LinkedBytes,
                }
            impl ::pilota::thrift::Message for Df38 {
                fn encode<T: ::pilota::thrift::TOutputProtocol>(
                    &self,
                    __protocol: &mut T,
                ) -> ::std::result::Result<(),::pilota::thrift::ThriftException> {
                    #[allow(unused_imports)]
                    use ::pilota::thrift::TOutputProtocolExt;
                    let struct_ident =::pilota::thrift::TStructIdentifier {
                    name: "Df38",
                };

                __protocol.write_struct_begin(&struct_ident)?;
                if let Some(value) = self.d1.as_ref() {
                        __protocol.write_struct_field(127, value, ::pilota::thrift::TType::Map)?;
                    }if let Some(value) = self.plain.as_ref() {
                        __protocol.write_i32_field(1165, *value)?;
                    }if let Some(value) = self.d2.as_ref() {
                        __protocol.write_list_field(128, ::pilota::thrift::TType::I32, &value, |__protocol, val| {
                        __protocol.write_i32(*val)?;
                        ::std::result::Result::Ok(())
                    })?;
                    }if let Some(value) = self.d3.as_ref() {
                        __protocol.write_list_field(300, ::pilota::thrift::TType::I32, &value, |__protocol, val| {
                        __protocol.write_i32(*val)?;
                        ::std::result::Result::Ok(())
                    })?;
                    }for bytes in self._unknown_fields.list.iter() {
                                __protocol.write_bytes_without_len(bytes.clone());
                            }
                __protocol.write_field_stop()?;
                __protocol.write_struct_end()?;
                ::std::result::Result::Ok(())

                }

                fn decode<T: ::pilota::thrift::TInputProtocol>(
                    __protocol: &mut T,
                ) -> ::std::result::Result<Self,::pilota::thrift::ThriftException>  {
                    #[allow(unused_imports)]
                    use ::pilota::{thrift::TLengthProtocolExt, Buf};


            let mut var_127 = None;let mut var_1165 = None;let mut var_128 = None;let mut var_300 = None;let mut _unknown_fields = ::pilota::LinkedBytes::new();

            let mut __pilota_decoding_field_id = None;

            __protocol.read_struct_begin()?;
            if let ::std::result::Result::Err(mut err) = (|| {
                    loop {

                let mut __pilota_offset = 0;
            let __pilota_begin_ptr = __protocol.buf().chunk().as_ptr();
                let field_ident = __protocol.read_field_begin()?;
                if field_ident.field_type == ::pilota::thrift::TType::Stop {
                    __pilota_offset += __protocol.field_stop_len();
                    break;
                } else {
                    __pilota_offset += __protocol.field_begin_len(field_ident.field_type, field_ident.id);
                }
                __pilota_decoding_field_id = field_ident.id;
                match field_ident.id {
                    Some(127) if field_ident.field_type == ::pilota::thrift::TType::Map  => {
                    var_127 = Some(::pilota::thrift::Message::decode(__protocol)?);

                },Some(1165) if field_ident.field_type == ::pilota::thrift::TType::I32  => {
                    var_1165 = Some(__protocol.read_i32()?);

                },Some(128) if field_ident.field_type == ::pilota::thrift::TType::List  => {
                    var_128 = Some(unsafe {
                            let list_ident = __protocol.read_list_begin()?;
                            let mut val: ::std::vec::Vec<i32> = ::std::vec::Vec::with_capacity(list_ident.size);
                            for i in 0..list_ident.size {
                                val.as_mut_ptr().offset(i as isize).write(__protocol.read_i32()?);
                            };
                            val.set_len(list_ident.size);
                            __protocol.read_list_end()?;
                            val
                        });

                },Some(300) if field_ident.field_type == ::pilota::thrift::TType::List  => {
                    var_300 = Some(unsafe {
                            let list_ident = __protocol.read_list_begin()?;
                            let mut val: ::std::vec::Vec<i32> = ::std::vec::Vec::with_capacity(list_ident.size);
                            for i in 0..list_ident.size {
                                val.as_mut_ptr().offset(i as isize).write(__protocol.read_i32()?);
                            };
                            val.set_len(list_ident.size);
                            __protocol.read_list_end()?;
                            val
                        });

                },
                    _ => {
                        __pilota_offset += __protocol.skip(field_ident.field_type)?;
                        _unknown_fields.push_back(__protocol.get_bytes(Some(__pilota_begin_ptr), __pilota_offset)?);
                    },
                }

                __protocol.read_field_end()?;
                __pilota_offset += __protocol.field_end_len();

            };
                    ::std::result::Result::Ok::<_, ::pilota::thrift::ThriftException>(())
                })() {
                if let Some(field_id) = __pilota_decoding_field_id {
                    err.prepend_msg(&format!("decode struct `Df38` field(#{}) failed, caused by: ", field_id));
                }
                return ::std::result::Result::Err(err);
            };
            __protocol.read_struct_end()?;



            if var_127.is_none() {
                                var_127 = Some(TdMap({
                    let mut map = ::pilota::AHashMap::with_capacity(1);
                    map.insert(::pilota::FastStr::from_static_str("k"), TdI32(7i32));
                    map
                }));
                            }
if var_128.is_none() {
                                var_128 = Some(::std::vec![1i32,2i32]);
                            }
if var_300.is_none() {
                                var_300 = Some(::std::vec![]);
                            }

            let data = Self {
                d1: var_127,plain: var_1165,d2: var_128,d3: var_300, _unknown_fields
            };
            ::std::result::Result::Ok(data)

                }

                fn decode_async<'a, T: ::pilota::thrift::TAsyncInputProtocol>(
            __protocol: &'a mut T,
        ) -> ::std::pin::Pin<::std::boxed::Box<dyn ::std::future::Future<Output = ::std::result::Result<Self, ::pilota::thrift::ThriftException>> + Send + 'a>> {
            ::std::boxed::Box::pin(async move {


            let mut var_127 = None;let mut var_1165 = None;let mut var_128 = None;let mut var_300 = None;

            let mut __pilota_decoding_field_id = None;

            __protocol.read_struct_begin().await?;
            if let ::std::result::Result::Err(mut err) = async {
                    loop {


                let field_ident = __protocol.read_field_begin().await?;
                if field_ident.field_type == ::pilota::thrift::TType::Stop {

                    break;
                } else {

                }
                __pilota_decoding_field_id = field_ident.id;
                match field_ident.id {
                    Some(127) if field_ident.field_type == ::pilota::thrift::TType::Map  => {
                    var_127 = Some(<TdMap as ::pilota::thrift::Message>::decode_async(__protocol).await?);

                },Some(1165) if field_ident.field_type == ::pilota::thrift::TType::I32  => {
                    var_1165 = Some(__protocol.read_i32().await?);

                },Some(128) if field_ident.field_type == ::pilota::thrift::TType::List  => {
                    var_128 = Some({
                            let list_ident = __protocol.read_list_begin().await?;
                            let mut val = ::std::vec::Vec::with_capacity(list_ident.size);
                            for _ in 0..list_ident.size {
                                val.push(__protocol.read_i32().await?);
                            };
                            __protocol.read_list_end().await?;
                            val
                        });

                },Some(300) if field_ident.field_type == ::pilota::thrift::TType::List  => {
                    var_300 = Some({
                            let list_ident = __protocol.read_list_begin().await?;
                            let mut val = ::std::vec::Vec::with_capacity(list_ident.size);
                            for _ in 0..list_ident.size {
                                val.push(__protocol.read_i32().await?);
                            };
                            __protocol.read_list_end().await?;
                            val
                        });

                },
                    _ => {
                        __protocol.skip(field_ident.field_type).await?;

                    },
                }

                __protocol.read_field_end().await?;


            };
                    ::std::result::Result::Ok::<_, ::pilota::thrift::ThriftException>(())
                }.await {
                if let Some(field_id) = __pilota_decoding_field_id {
                    err.prepend_msg(&format!("decode struct `Df38` field(#{}) failed, caused by: ", field_id));
                }
                return ::std::result::Result::Err(err);
            };
            __protocol.read_struct_end().await?;



            if var_127.is_none() {
                                var_127 = Some(TdMap({
                    let mut map = ::pilota::AHashMap::with_capacity(1);
                    map.insert(::pilota::FastStr::from_static_str("k"), TdI32(7i32));
                    map
                }));
                            }
if var_128.is_none() {
                                var_128 = Some(::std::vec![1i32,2i32]);
                            }
if var_300.is_none() {
                                var_300 = Some(::std::vec![]);
                            }

            let data = Self {
                d1: var_127,plain: var_1165,d2: var_128,d3: var_300, _unknown_fields: ::pilota::LinkedBytes::new()
            };
            ::std::result::Result::Ok(data)

            })
        }

                fn size<T: ::pilota::thrift::TLengthProtocol>(&self, __protocol: &mut T) -> usize {
                    #[allow(unused_imports)]
                    use ::pilota::thrift::TLengthProtocolExt;
                    __protocol.struct_begin_len(&::pilota::thrift::TStructIdentifier {
                    name: "Df38",
                }) + self.d1.as_ref().map_or(0, |value| __protocol.struct_field_len(Some(127), value)) +self.plain.as_ref().map_or(0, |value| __protocol.i32_field_len(Some(1165), *value)) +self.d2.as_ref().map_or(0, |value| __protocol.list_field_len(Some(128), ::pilota::thrift::TType::I32, value, |__protocol, el| {
                        __protocol.i32_len(*el)
                    })) +self.d3.as_ref().map_or(0, |value| __protocol.list_field_len(Some(300), ::pilota::thrift::TType::I32, value, |__protocol, el| {
                        __protocol.i32_len(*el)
                    })) +self._unknown_fields.size() + __protocol.field_stop_len() + __protocol.struct_end_len()
                }
            }
                                impl ::std::default::Default for Df14 {
                                    fn default() -> Self {
                                        Df14 {
                                            d1: Some(TdMap({
                    let mut map = ::pilota::AHashMap::with_capacity(1);
                    map.insert(::pilota::FastStr::from_static_str("k"), TdI32(7i32));
                    map
                })),
plain: ::std::default::Default::default(),
d2: Some(::std::vec![1i32,2i32]),
d3: Some(::std::vec![]),
_unknown_fields: ::pilota::LinkedBytes::new()
                                        }
                                    }
                                }
                            #[derive(Debug)]#[derive(Clone, PartialEq)]
                pub struct Df14 {

                        pub d1: ::std::option::Option<TdMap>,

                        pub plain: ::std::option::Option<i32>,

                        pub d2: ::std::option::Option<::std::vec::Vec<i32>>,

                        pub d3: ::std::option::Option<::std::vec::Vec<i32>>,pub _unknown_fields: ::pilota::LinkedBytes,
                }
            impl ::pilota::thrift::Message for Df14 {
                fn encode<T: ::pilota::thrift::TOutputProtocol>(
                    &self,
                    __protocol: &mut T,
                ) -> ::std::result::Result<(),::pilota::thrift::ThriftException> {
                    #[allow(unused_imports)]
                    use ::pilota::thrift::TOutputProtocolExt;
                    let struct_ident =::pilota::thrift::TStructIdentifier {
                    name: "Df14",
                };

                __protocol.write_struct_begin(&struct_ident)?;
                if let Some(value) = self.d1.as_ref() {
                        __protocol.write_struct_field(5, value, ::pilota::thrift::TType::Map)?;
                    }if let Some(value) = self.plain.as_ref() {
                        __protocol.write_i32_field(1019, *value)?;
                    }if let Some(value) = self.d2.as_ref() {
                        __protocol.write_list_field(20, ::pilota::thrift::TType::I32, &value, |__protocol, val| {
                        __protocol.write_i32(*val)?;
                        ::std::result::Result::Ok(())
                    })?;
                    }if let Some(value) = self.d3.as_ref() {
                        __protocol.write_list_field(21, ::pilota::thrift::TType::I32, &value, |__protocol, val| {
                        __protocol.write_i32(*val)?;
                        ::std::result::Result::Ok(())
                    })?;
                    }for bytes in self._unknown_fields.list.iter() {
                                __protocol.write_bytes_without_len(bytes.clone());
                            }
                __protocol.write_field_stop()?;
                __protocol.write_struct_end()?;
                ::std::result::Result::Ok(())

                }

                fn decode<T: ::pilota::thrift::TInputProtocol>(
                    __protocol: &mut T,
                ) -> ::std::result::Result<Self,::pilota::thrift::ThriftException>  {
                    #[allow(unused_imports)]
                    use ::pilota::{thrift::TLengthProtocolExt, Buf};


            let mut var_5 = None;let mut var_1019 = None;let mut var_20 = None;let mut var_21 = None;let mut _unknown_fields = ::pilota::LinkedBytes::new();

            let mut __pilota_decoding_field_id = None;

            __protocol.read_struct_begin()?;
            if let ::std::result::Result::Err(mut err) = (|| {
                    loop {

                let mut __pilota_offset = 0;
            let __pilota_begin_ptr = __protocol.buf().chunk().as_ptr();
                let field_ident = __protocol.read_field_begin()?;
                if field_ident.field_type == ::pilota::thrift::TType::Stop {
                    __pilota_offset += __protocol.field_stop_len();
                    break;
                } else {
                    __pilota_offset += __protocol.field_begin_len(field_ident.field_type, field_ident.id);
                }
                __pilota_decoding_field_id = field_ident.id;
                match field_ident.id {
                    Some(5) if field_ident.field_type == ::pilota::thrift::TType::Map  => {
                    var_5 = Some(::pilota::thrift::Message::decode(__protocol)?);

                },Some(1019) if field_ident.field_type == ::pilota::thrift::TType::I32  => {
                    var_1019 = Some(__protocol.read_i32()?);

                },Some(20) if field_ident.field_type == ::pilota::thrift::TType::List  => {
                    var_20 = Some(unsafe {
                            let list_ident = __protocol.read_list_begin()?;
                            let mut val: ::std::vec::Vec<i32> = ::std::vec::Vec::with_capacity(list_ident.size);
                            for i in 0..list_ident.size {
                                val.as_mut_ptr().offset(i as isize).write(__protocol.read_i32()?);
                            };
                            val.set_len(list_ident.size);
                            __protocol.read_list_end()?;
                            val
                        });

                },Some(21) if field_ident.field_type == ::pilota::thrift::TType::List  => {
                    var_21 = Some(unsafe {
                            let list_ident = __protocol.read_list_begin()?;
                            let mut val: ::std::vec::Vec<i32> = ::std::vec::Vec::with_capacity(list_ident.size);
                            for i in 0..list_ident.size {
                                val.as_mut_ptr().offset(i as isize).write(__protocol.read_i32()?);
                            };
                            val.set_len(list_ident.size);
                            __protocol.read_list_end()?;
                            val
                        });

                },
                    _ => {
                        __pilota_offset += __protocol.skip(field_ident.field_type)?;
                        _unknown_fields.push_back(__protocol.get_bytes(Some(__pilota_begin_ptr), __pilota_offset)?);
                    },
                }

                __protocol.read_field_end()?;
                __pilota_offset += __protocol.field_end_len();

            };
                    ::std::result::Result::Ok::<_, ::pilota::thrift::ThriftException>(())
                })() {
                if let Some(field_id) = __pilota_decoding_field_id {
                    err.prepend_msg(&format!("decode struct `Df14` field(#{}) failed, caused by: ", field_id));
                }
                return ::std::result::Result::Err(err);
            };
            __protocol.read_struct_end()?;



            if var_5.is_none() {
                                var_5 = Some(TdMap({
                    let mut map = ::pilota::AHashMap::with_capacity(1);
                    map.insert(::pilota::FastStr::from_static_str("k"), TdI32(7i32));
                    map
                }));
                            }
if var_20.is_none() {
                                var_20 = Some(::std::vec![1i32,2i32]);
                            }
if var_21.is_none() {
                                var_21 = Some(::std::vec![]);
                            }

            let data = Self {
                d1: var_5,plain: var_1019,d2: var_20,d3: var_21, _unknown_fields
            };
            ::std::result::Result::Ok(data)

                }

                fn decode_async<'a, T: ::pilota::thrift::TAsyncInputProtocol>(
            __protocol: &'a mut T,
        ) -> ::std::pin::Pin<::std::boxed::Box<dyn ::std::future::Future<Output = ::std::result::Result<Self, ::pilota::thrift::ThriftException>> + Send + 'a>> {
            ::std::boxed::Box::pin(async move {


            let mut var_5 = None;let mut var_1019 = None;let mut var_20 = None;let mut var_21 = None;

            let mut __pilota_decoding_field_id = None;

            __protocol.read_struct_begin().await?;
            if let ::std::result::Result::Err(mut err) = async {
                    loop {


                let field_ident = __protocol.read_field_begin().await?;
                if field_ident.field_type == ::pilota::thrift::TType::Stop {

                    break;
                } else {

                }
                __pilota_decoding_field_id = field_ident.id;
                match field_ident.id {
                    Some(5) if field_ident.field_type == ::pilota::thrift::TType::Map  => {
                    var_5 = Some(<TdMap as ::pilota::thrift::Message>::decode_async(__protocol).await?);

                },Some(1019) if field_ident.field_type == ::pilota::thrift::TType::I32  => {
                    var_1019 = Some(__protocol.read_i32().await?);

                },Some(20) if field_ident.field_type == ::pilota::thrift::TType::List  => {
                    var_20 = Some({
                            let list_ident = __protocol.read_list_begin().await?;
                            let mut val = ::std::vec::Vec::with_capacity(list_ident.size);
                            for _ in 0..list_ident.size {
                                val.push(__protocol.read_i32().await?);
                            };
                            __protocol.read_list_end().await?;
                            val
                        });

                },Some(21) if field_ident.field_type == ::pilota::thrift::TType::List  => {
                    var_21 = Some({
                            let list_ident = __protocol.read_list_begin().await?;
                            let mut val = ::std::vec::Vec::with_capacity(list_ident.size);
                            for _ in 0..list_ident.size {
                                val.push(__protocol.read_i32().await?);
                            };
                            __protocol.read_list_end().await?;
                            val
                        });

                },
                    _ => {
                        __protocol.skip(field_ident.field_type).await?;

                    },
                }

                __protocol.read_field_end().await?;


            };
                    ::std::result::Result::Ok::<_, ::pilota::thrift::ThriftException>(())
                }.await {
                if let Some(field_id) = __pilota_decoding_field_id {
                    err.prepend_msg(&format!("decode struct `Df14` field(#{}) failed, caused by: ", field_id));
                }
                return ::std::result::Result::Err(err);
            };
            __protocol.read_struct_end().await?;



            if var_5.is_none() {
                                var_5 = Some(TdMap({
                    let mut map = ::pilota::AHashMap::with_capacity(1);
                    map.insert(::pilota::FastStr::from_static_str("k"), TdI32(7i32));
                    map
                }));
                            }
if var_20.is_none() {
                                var_20 = Some(::std::vec![1i32,2i32]);
                            }
if var_21.is_none() {
                                var_21 = Some(::std::vec![]);
                            }

            let data = Self {
                d1: var_5,plain: var_1019,d2: var_20,d3: var_21, _unknown_fields: ::pilota::LinkedBytes::new()
            };
            ::std::result::Result::Ok(data)

            })
        }

                fn size<T: ::pilota::thrift::TLengthProtocol>(&self, __protocol: &mut T) -> usize {
                    #[allow(unused_imports)]
                    use ::pilota::thrift::TLengthProtocolExt;
                    __protocol.struct_begin_len(&::pilota::thrift::TStructIdentifier {
                    name: "Df14",
                }) + self.d1.as_ref().map_or(0, |value| __protocol.struct_field_len(Some(5), value)) +self.plain.as_ref().map_or(0, |value| __protocol.i32_field_len(Some(1019), *value)) +self.d2.as_ref().map_or(0, |value| __protocol.list_field_len(Some(20), ::pilota::thrift::TType::I32, value, |__protocol, el| {
                        __protocol.i32_len(*el)
                    })) +self.d3.as_ref().map_or(0, |value| __protocol.list_field_len(Some(21), ::pilota::thrift::TType::I32, value, |__protocol, el| {
                        __protocol.i32_len(*el)
                    })) +self._unknown_fields.size() + __protocol.field_stop_len() + __protocol.struct_end_len()
                }
            }
                                impl ::std::default::Default for Df69 {
                                    fn default() -> Self {
                                        Df69 {
                                            d1: -3f64,
plain: ::std::default::Default::default(),
d2: -0.5f64,
d3: ::pilota::Bytes::from_static("café ÿ".as_bytes()),
_unknown_fields: ::pilota::LinkedBytes::new()
                                        }
                                    }
                                }
                            #[derive(PartialOrd)]
#[derive(Debug)]#[derive(Clone, PartialEq)]
                pub struct Df69 {

                        pub d1: f64,

                        pub plain: ::std::option::Option<i32>,

                        pub d2: f64,

                        pub d3: ::pilota::Bytes,pub _unknown_fields: ::pilota::LinkedBytes,
                }
            impl ::pilota::thrift::Message for Df69 {
                fn encode<T: ::pilota::thrift::TOutputProtocol>(
                    &self,
                    __protocol: &mut T,
                ) -> ::std::result::Result<(),::pilota::thrift::ThriftException> {
                    #[allow(unused_imports)]
                    use ::pilota::thrift::TOutputProtocolExt;
                    let struct_ident =::pilota::thrift::TStructIdentifier {
                    name: "Df69",
                };

                __protocol.write_struct_begin(&struct_ident)?;
                __protocol.write_double_field(3, *&self.d1)?;if let Some(value) = self.plain.as_ref() {
                        __protocol.write_i32_field(1072, *value)?;
                    }__protocol.write_double_field(4, *&self.d2)?;__protocol.write_bytes_field(17, (&self.d3).clone())?;for bytes in self._unknown_fields.list.iter() {
                                __protocol.write_bytes_without_len(bytes.clone());
                            }
                __protocol.write_field_stop()?;
                __protocol.write_struct_end()?;
                ::std::result::Result::Ok(())

                }

                fn decode<T: ::pilota::thrift::TInputProtocol>(
                    __protocol: &mut T,
                ) -> ::std::result::Result<Self,::pilota::thrift::ThriftException>  {
                    #[allow(unused_imports)]
                    use ::pilota::{thrift::TLengthProtocolExt, Buf};


            let mut var_3 = -3f64;let mut var_1072 = None;let mut var_4 = -0.5f64;let mut var_17 = ::pilota::Bytes::from_static("café ÿ".as_bytes());let mut _unknown_fields = ::pilota::LinkedBytes::new();

            let mut __pilota_decoding_field_id = None;

            __protocol.read_struct_begin()?;
            if let ::std::result::Result::Err(mut err) = (|| {
                    loop {

                let mut __pilota_offset = 0;
            let __pilota_begin_ptr = __protocol.buf().chunk().as_ptr();
                let field_ident = __protocol.read_field_begin()?;
                if field_ident.field_type == ::pilota::thrift::TType::Stop {
                    __pilota_offset += __protocol.field_stop_len();
                    break;
                } else {
                    __pilota_offset += __protocol.field_begin_len(field_ident.field_type, field_ident.id);
                }
                __pilota_decoding_field_id = field_ident.id;
                match field_ident.id {
                    Some(3) if field_ident.field_type == ::pilota::thrift::TType::Double  => {
                    var_3 = __protocol.read_double()?;

                },Some(1072) if field_ident.field_type == ::pilota::thrift::TType::I32  => {
                    var_1072 = Some(__protocol.read_i32()?);

                },Some(4) if field_ident.field_type == ::pilota::thrift::TType::Double  => {
                    var_4 = __protocol.read_double()?;

                },Some(17) if field_ident.field_type == ::pilota::thrift::TType::Binary  => {
                    var_17 = __protocol.read_bytes()?;

                },
                    _ => {
                        __pilota_offset += __protocol.skip(field_ident.field_type)?;
                        _unknown_fields.push_back(__protocol.get_bytes(Some(__pilota_begin_ptr), __pilota_offset)?);
                    },
                }

                __protocol.read_field_end()?;
                __pilota_offset += __protocol.field_end_len();

            };
                    ::std::result::Result::Ok::<_, ::pilota::thrift::ThriftException>(())
                })() {
                if let Some(field_id) = __pilota_decoding_field_id {
                    err.prepend_msg(&format!("decode struct `Df69` field(#{}) failed, caused by: ", field_id));
                }
                return ::std::result::Result::Err(err);
            };
            __protocol.read_struct_end()?;





            let data = Self {
                d1: var_3,plain: var_1072,d2: var_4,d3: var_17, _unknown_fields
            };
            ::std::result::Result::Ok(data)

                }

                fn decode_async<'a, T: ::pilota::thrift::TAsyncInputProtocol>(
            __protocol: &'a mut T,
        ) -> ::std::pin::Pin<::std::boxed::Box<dyn ::std::future::Future<Output = ::std::result::Result<Self, ::pilota::thrift::ThriftException>> + Send + 'a>> {
            ::std::boxed::Box::pin(async move {


            let mut var_3 = -3f64;let mut var_1072 = None;let mut var_4 = -0.5f64;let mut var_17 = ::pilota::Bytes::from_static("café ÿ".as_bytes());

            let mut __pilota_decoding_field_id = None;

            __protocol.read_struct_begin().await?;
            if let ::std::result::Result::Err(mut err) = async {
                    loop {


                let field_ident = __protocol.read_field_begin().await?;
                if field_ident.field_type == ::pilota::thrift::TType::Stop {

                    break;
                } else {

                }
                __pilota_decoding_field_id = field_ident.id;
                match field_ident.id {
                    Some(3) if field_ident.field_type == ::pilota::thrift::TType::Double  => {
                    var_3 = __protocol.read_double().await?;

                },Some(1072) if field_ident.field_type == ::pilota::thrift::TType::I32  => {
                    var_1072 = Some(__protocol.read_i32().await?);

                },Some(4) if field_ident.field_type == ::pilota::thrift::TType::Double  => {
                    var_4 = __protocol.read_double().await?;

                },Some(17) if field_ident.field_type == ::pilota::thrift::TType::Binary  => {
                    var_17 = __protocol.read_bytes().await?;

                },
                    _ => {
                        __protocol.skip(field_ident.field_type).await?;

                    },
                }

                __protocol.read_field_end().await?;


            };
                    ::std::result::Result::Ok::<_, ::pilota::thrift::ThriftException>(())
                }.await {
                if let Some(field_id) = __pilota_decoding_field_id {
                    err.prepend_msg(&format!("decode struct `Df69` field(#{}) failed, caused by: ", field_id));
                }
                return ::std::result::Result::Err(err);
            };
            __protocol.read_struct_end().await?;





            let data = Self {
                d1: var_3,plain: var_1072,d2: var_4,d3: var_17, _unknown_fields: ::pilota::LinkedBytes::new()
            };
            ::std::result::Result::Ok(data)

            })
        }

                fn size<T: ::pilota::thrift::TLengthProtocol>(&self, __protocol: &mut T) -> usize {
                    #[allow(unused_imports)]
                    use ::pilota::thrift::TLengthProtocolExt;
                    __protocol.struct_begin_len(&::pilota::thrift::TStructIdentifier {
                    name: "Df69",
                }) + __protocol.double_field_len(Some(3), *&self.d1)  +self.plain.as_ref().map_or(0, |value| __protocol.i32_field_len(Some(1072), *value)) +__protocol.double_field_len(Some(4), *&self.d2)  +__protocol.bytes_field_len(Some(17), &self.d3) +self._unknown_fields.size() + __protocol.field_stop_len() + __protocol.struct_end_len()
                }
            }#[derive(PartialOrd)]
#[derive(Hash, Eq, Ord)]
#[derive(Debug)]
#[derive(Default)]
            #[derive(Clone, PartialEq)]
            pub struct TdLeaf(pub Leaf1);

            impl ::std::ops::Deref for TdLeaf {
                type Target = Leaf1;

                fn deref(&self) -> &Self::Target {
                    &self.0
                }
            }

            impl From<Leaf1> for TdLeaf {
                fn from(v: Leaf1) -> Self {
                    Self(v)
                }
            }


            impl ::pilota::thrift::Message for TdLeaf {
                fn encode<T: ::pilota::thrift::TOutputProtocol>(
                    &self,
                    __protocol: &mut T,
                ) -> ::std::result::Result<(),::pilota::thrift::ThriftException> {
                    #[allow(unused_imports)]
                    use ::pilota::thrift::TOutputProtocolExt;
                    __protocol.write_struct((&**self))?;
                ::std::result::Result::Ok(())
                }

                fn decode<T: ::pilota::thrift::TInputProtocol>(
                    __protocol: &mut T,
                ) -> ::std::result::Result<Self,::pilota::thrift::ThriftException>  {
                    #[allow(unused_imports)]
                    use ::pilota::{thrift::TLengthProtocolExt, Buf};
                    ::std::result::Result::Ok(TdLeaf(::pilota::thrift::Message::decode(__protocol)?))
                }

                fn decode_async<'a, T: ::pilota::thrift::TAsyncInputProtocol>(
            __protocol: &'a mut T,
        ) -> ::std::pin::Pin<::std::boxed::Box<dyn ::std::future::Future<Output = ::std::result::Result<Self, ::pilota::thrift::ThriftException>> + Send + 'a>> {
            ::std::boxed::Box::pin(async move {
                ::std::result::Result::Ok(TdLeaf(<Leaf1 as ::pilota::thrift::Message>::decode_async(__protocol).await?))
            })
        }

                fn size<T: ::pilota::thrift::TLengthProtocol>(&self, __protocol: &mut T) -> usize {
                    #[allow(unused_imports)]
                    use ::pilota::thrift::TLengthProtocolExt;
                    __protocol.struct_len(&**self)
                }
            }
                                impl ::std::default::Default for Df45 {
                                    fn default() -> Self {
                                        Df45 {
                                            d1: Some(-3f64),
plain: ::std::default::Default::default(),
d2: Some(-0.5f64),
d3: Some(::pilota::Bytes::from_static("café ÿ".as_bytes())),
_unknown_fields: ::pilota::LinkedBytes::new()
                                        }
                                    }
                                }
                            #[derive(PartialOrd)]
#[derive(Debug)]#[derive(Clone, PartialEq)]
                pub struct Df45 {

                        pub d1: ::std::option::Option<f64>,

                        pub plain: ::std::option::Option<i32>,

                        pub d2: ::std::option::Option<f64>,

                        pub d3: ::std::option::Option<::pilota::Bytes>,pub _unknown_fields: ::pilota::LinkedBytes,
                }
            impl ::pilota::thrift::Message for Df45 {
                fn encode<T: ::pilota::thrift::TOutputProtocol>(
                    &self,
                    __protocol: &mut T,
                ) -> ::std::result::Result<(),::pilota::thrift::ThriftException> {
                    #[allow(unused_imports)]
                    use ::pilota::thrift::TOutputProtocolExt;
                    let struct_ident =::pilota::thrift::TStructIdentifier {
                    name: "Df45",
                };

                __protocol.write_struct_begin(&struct_ident)?;
                if let Some(value) = self.d1.as_ref() {
                        __protocol.write_double_field(1, *value)?;
                    }if let Some(value) = self.plain.as_ref() {
                        __protocol.write_i32_field(1046, *value)?;
                    }if let Some(value) = self.d2.as_ref() {
                        __protocol.write_double_field(2, *value)?;
                    }if let Some(value) = self.d3.as_ref() {
                        __protocol.write_bytes_field(32767, (value).clone())?;
                    }for bytes in self._unknown_fields.list.iter() {
                                __protocol.write_bytes_without_len(bytes.clone());
                            }
                __protocol.write_field_stop()?;
                __protocol.write_struct_end()?;
                ::std::result::Result::Ok(())

                }

                fn decode<T: ::pilota::thrift::TInputProtocol>(
                    __protocol: &mut T,
                ) -> ::std::result::Result<Self,::pilota::thrift::ThriftException>  {
                    #[allow(unused_imports)]
                    use ::pilota::{thrift::TLengthProtocolExt, Buf};


            let mut var_1 = Some(-3f64);let mut var_1046 = None;let mut var_2 = Some(-0.5f64);let mut var_32767 = Some(::pilota::Bytes::from_static("café ÿ".as_bytes()));let mut _unknown_fields = ::pilota::LinkedBytes::new();

            let mut __pilota_decoding_field_id = None;

            __protocol.read_struct_begin()?;
            if let ::std::result::Result::Err(mut err) = (|| {
                    loop {

                let mut __pilota_offset = 0;
            let __pilota_begin_ptr = __protocol.buf().chunk().as_ptr();
                let field_ident = __protocol.read_field_begin()?;
                if field_ident.field_type == ::pilota::thrift::TType::Stop {
                    __pilota_offset += __protocol.field_stop_len();
                    break;
                } else {
                    __pilota_offset += __protocol.field_begin_len(field_ident.field_type, field_ident.id);
                }
                __pilota_decoding_field_id = field_ident.id;
                match field_ident.id {
                    Some(1) if field_ident.field_type == ::pilota::thrift::TType::Double  => {
                    var_1 = Some(__protocol.read_double()?);

                },Some(1046) if field_ident.field_type == ::pilota::thrift::TType::I32  => {
                    var_1046 = Some(__protocol.read_i32()?);

                },Some(2) if field_ident.field_type == ::pilota::thrift::TType::Double  => {
                    var_2 = Some(__protocol.read_double()?);

                },Some(32767) if field_ident.field_type == ::pilota::thrift::TType::Binary  => {
                    var_32767 = Some(__protocol.read_bytes()?);

                },
                    _ => {
                        __pilota_offset += __protocol.skip(field_ident.field_type)?;
                        _unknown_fields.push_back(__protocol.get_bytes(Some(__pilota_begin_ptr), __pilota_offset)?);
                    },
                }

                __protocol.read_field_end()?;
                __pilota_offset += __protocol.field_end_len();

            };
                    ::std::result::Result::Ok::<_, ::pilota::thrift::ThriftException>(())
                })() {
                if let Some(field_id) = __pilota_decoding_field_id {
                    err.prepend_msg(&format!("decode struct `Df45` field(#{}) failed, caused by: ", field_id));
                }
                return ::std::result::Result::Err(err);
            };
            __protocol.read_struct_end()?;





            let data = Self {
                d1: var_1,plain: var_1046,d2: var_2,d3: var_32767, _unknown_fields
            };
            ::std::result::Result::Ok(data)

                }

                fn decode_async<'a, T: ::pilota::thrift::TAsyncInputProtocol>(
            __protocol: &'a mut T,
        ) -> ::std::pin::Pin<::std::boxed::Box<dyn ::std::future::Future<Output = ::std::result::Result<Self, ::pilota::thrift::ThriftException>> + Send + 'a>> {
            ::std::boxed::Box::pin(async move {


            let mut var_1 = Some(-3f64);let mut var_1046 = None;let mut var_2 = Some(-0.5f64);let mut var_32767 = Some(::pilota::Bytes::from_static("café ÿ".as_bytes()));

            let mut __pilota_decoding_field_id = None;

            __protocol.read_struct_begin().await?;
            if let ::std::result::Result::Err(mut err) = async {
                    loop {


                let field_ident = __protocol.read_field_begin().await?;
                if field_ident.field_type == ::pilota::thrift::TType::Stop {

                    break;
                } else {

                }
                __pilota_decoding_field_id = field_ident.id;
                match field_ident.id {
                    Some(1) if field_ident.field_type == ::pilota::thrift::TType::Double  => {
                    var_1 = Some(__protocol.read_double().await?);

                },Some(1046) if field_ident.field_type == ::pilota::thrift::TType::I32  => {
                    var_1046 = Some(__protocol.read_i32().await?);

                },Some(2) if field_ident.field_type == ::pilota::thrift::TType::Double  => {
                    var_2 = Some(__protocol.read_double().await?);

                },Some(32767) if field_ident.field_type == ::pilota::thrift::TType::Binary  => {
                    var_32767 = Some(__protocol.read_bytes().await?);

                },
                    _ => {
                        __protocol.skip(field_ident.field_type).await?;

                    },
                }

                __protocol.read_field_end().await?;


            };
                    ::std::result::Result::Ok::<_, ::pilota::thrift::ThriftException>(())
                }.await {
                if let Some(field_id) = __pilota_decoding_field_id {
                    err.prepend_msg(&format!("decode struct `Df45` field(#{}) failed, caused by: ", field_id));
                }
                return ::std::result::Result::Err(err);
            };
            __protocol.read_struct_end().await?;





            let data = Self {
                d1: var_1,plain: var_1046,d2: var_2,d3: var_32767, _unknown_fields: ::pilota::LinkedBytes::new()
            };
            ::std::result::Result::Ok(data)

            })
        }

                fn size<T: ::pilota::thrift::TLengthProtocol>(&self, __protocol: &mut T) -> usize {
                    #[allow(unused_imports)]
                    use ::pilota::thrift::TLengthProtocolExt;
                    __protocol.struct_begin_len(&::pilota::thrift::TStructIdentifier {
                    name: "Df45",
                }) + self.d1.as_ref().map_or(0, |value| __protocol.double_field_len(Some(1), *value) ) +self.plain.as_ref().map_or(0, |value| __protocol.i32_field_len(Some(1046), *value)) +self.d2.as_ref().map_or(0, |value| __protocol.double_field_len(Some(2), *value) ) +self.d3.as_ref().map_or(0, |value| __protocol.bytes_field_len(Some(32767), value)) +self._unknown_fields.size() + __protocol.field_stop_len() + __protocol.struct_end_len()
                }
            }
                                impl ::std::default::Default for Df21 {
                                    fn default() -> Self {
                                        Df21 {
                                            d1: Some(-3f64),
plain: ::std::default::Default::default(),
d2: Some(-0.5f64),
d3: Some(::pilota::Bytes::from_static("café ÿ".as_bytes())),
_unknown_fields: ::pilota::LinkedBytes::new()
                                        }
                                    }
                                }
                            #[derive(PartialOrd)]
#[derive(Debug)]#[derive(Clone, PartialEq)]
                pub struct Df21 {

                        pub d1: ::std::option::Option<f64>,

                        pub plain: ::std::option::Option<i32>,

                        pub d2: ::std::option::Option<f64>,

                        pub d3: ::std::option::Option<::pilota::Bytes>,pub _unknown_fields: ::pilota::LinkedBytes,
                }
            impl ::pilota::thrift::Message for Df21 {
                fn encode<T: ::pilota::thrift::TOutputProtocol>(
                    &self,
                    __protocol: &mut T,
                ) -> ::std::result::Result<(),::pilota::thrift::ThriftException> {
                    #[allow(unused_imports)]
                    use ::pilota::thrift::TOutputProtocolExt;
                    let struct_ident =::pilota::thrift::TStructIdentifier {
                    name: "Df21",
                };

                __protocol.write_struct_begin(&struct_ident)?;
                if let Some(value) = self.d1.as_ref() {
                        __protocol.write_double_field(127, *value)?;
                    }if let Some(value) = self.plain.as_ref() {
                        __protocol.write_i32_field(1148, *value)?;
                    }if let Some(value) = self.d2.as_ref() {
                        __protocol.write_double_field(128, *value)?;
                    }if let Some(value) = self.d3.as_ref() {
                        __protocol.write_bytes_field(300, (value).clone())?;
                    }for bytes in self._unknown_fields.list.iter() {
                                __protocol.write_bytes_without_len(bytes.clone());
                            }
                __protocol.write_field_stop()?;
                __protocol.write_struct_end()?;
                ::std::result::Result::Ok(())

                }

                fn decode<T: ::pilota::thrift::TInputProtocol>(
                    __protocol: &mut T,
                ) -> ::std::result::Result<Self,::pilota::thrift::ThriftException>  {
                    #[allow(unused_imports)]
                    use ::pilota::{thrift::TLengthProtocolExt, Buf};


            let mut var_127 = Some(-3f64);let mut var_1148 = None;let mut var_128 = Some(-0.5f64);let mut var_300 = Some(::pilota::Bytes::from_static("café ÿ".as_bytes()));let mut _unknown_fields = ::pilota::LinkedBytes::new();

            let mut __pilota_decoding_field_id = None;

            __protocol.read_struct_begin()?;
            if let ::std::result::Result::Err(mut err) = (|| {
                    loop {

                let mut __pilota_offset = 0;
            let __pilota_begin_ptr = __protocol.buf().chunk().as_ptr();
                let field_ident = __protocol.read_field_begin()?;
                if field_ident.field_type == ::pilota::thrift::TType::Stop {
                    __pilota_offset += __protocol.field_stop_len();
                    break;
                } else {
                    __pilota_offset += __protocol.field_begin_len(field_ident.field_type, field_ident.id);
                }
                __pilota_decoding_field_id = field_ident.id;
                match field_ident.id {
                    Some(127) if field_ident.field_type == ::pilota::thrift::TType::Double  => {
                    var_127 = Some(__protocol.read_double()?);

                },Some(1148) if field_ident.field_type == ::pilota::thrift::TType::I32  => {
                    var_1148 = Some(__protocol.read_i32()?);

                },Some(128) if field_ident.field_type == ::pilota::thrift::TType::Double  => {
                    var_128 = Some(__protocol.read_double()?);

                },Some(300) if field_ident.field_type == ::pilota::thrift::TType::Binary  => {
                    var_300 = Some(__protocol.read_bytes()?);

                },
                    _ => {
                        __pilota_offset += __protocol.skip(field_ident.field_type)?;
                        _unknown_fields.push_back(__protocol.get_bytes(Some(__pilota_begin_ptr), __pilota_offset)?);
                    },
                }

                __protocol.read_field_end()?;
                __pilota_offset += __protocol.field_end_len();

            };
                    ::std::result::Result::Ok::<_, ::pilota::thrift::ThriftException>(())
                })() {
                if let Some(field_id) = __pilota_decoding_field_id {
                    err.prepend_msg(&format!("decode struct `Df21` field(#{}) failed, caused by: ", field_id));
                }
                return ::std::result::Result::Err(err);
            };
            __protocol.read_struct_end()?;





            let data = Self {
                d1: var_127,plain: var_1148,d2: var_128,d3: var_300, _unknown_fields
            };
            ::std::result::Result::Ok(data)

                }

                fn decode_async<'a, T: ::pilota::thrift::TAsyncInputProtocol>(
            __protocol: &'a mut T,
        ) -> ::std::pin::Pin<::std::boxed::Box<dyn ::std::future::Future<Output = ::std::result::Result<Self, ::pilota::thrift::ThriftException>> + Send + 'a>> {
            ::std::boxed::Box::pin(async move {


            let mut var_127 = Some(-3f64);let mut var_1148 = None;let mut var_128 = Some(-0.5f64);let mut var_300 = Some(::pilota::Bytes::from_static("café ÿ".as_bytes()));

            let mut __pilota_decoding_field_id = None;

            __protocol.read_struct_begin().await?;
            if let ::std::result::Result::Err(mut err) = async {
                    loop {


                let field_ident = __protocol.read_field_begin().await?;
                if field_ident.field_type == ::pilota::thrift::TType::Stop {

                    break;
                } else {

                }
                __pilota_decoding_field_id = field_ident.id;
                match field_ident.id {
                    Some(127) if field_ident.field_type == ::pilota::thrift::TType::Double  => {
                    var_127 = Some(__protocol.read_double().await?);

                },Some(1148) if field_ident.field_type == ::pilota::thrift::TType::I32  => {
                    var_1148 = Some(__protocol.read_i32().await?);

                },Some(128) if field_ident.field_type == ::pilota::thrift::TType::Double  => {
                    var_128 = Some(__protocol.read_double().await?);

                },Some(300) if field_ident.field_type == ::pilota::thrift::TType::Binary  => {
                    var_300 = Some(__protocol.read_bytes().await?);

                },
                    _ => {
                        __protocol.skip(field_ident.field_type).await?;

                    },
                }

                __protocol.read_field_end().await?;


            };
                    ::std::result::Result::Ok::<_, ::pilota::thrift::ThriftException>(())
                }.await {
                if let Some(field_id) = __pilota_decoding_field_id {
                    err.prepend_msg(&format!("decode struct `Df21` field(#{}) failed, caused by: ", field_id));
                }
                return ::std::result::Result::Err(err);
            };
            __protocol.read_struct_end().await?;





            let data = Self {
                d1: var_127,plain: var_1148,d2: var_128,d3: var_300, _unknown_fields: ::pilota::LinkedBytes::new()
            };
            ::std::result::Result::Ok(data)

            })
        }

                fn size<T: ::pilota::thrift::TLengthProtocol>(&self, __protocol: &mut T) -> usize {
                    #[allow(unused_imports)]
                    use ::pilota::thrift::TLengthProtocolExt;
                    __protocol.struct_begin_len(&::pilota::thrift::TStructIdentifier {
                    name: "Df21",
                }) + self.d1.as_ref().map_or(0, |value| __protocol.double_field_len(Some(127), *value) ) +self.plain.as_ref().map_or(0, |value| __protocol.i32_field_len(Some(1148), *value)) +self.d2.as_ref().map_or(0, |value| __protocol.double_field_len(Some(128), *value) ) +self.d3.as_ref().map_or(0, |value| __protocol.bytes_field_len(Some(300), value)) +self._unknown_fields.size() + __protocol.field_stop_len() + __protocol.struct_end_len()
                }
            }
                                impl ::std::default::Default for DfConst {
                                    fn default() -> Self {
                                        DfConst {
                                            a: Some(K_INT),
b: Some(TdI32(K_INT)),
c: Some(::pilota::FastStr::from_static_str(K_STR)),
d: Some(K_DBL),
e: Some(K_BIG),
f: Some(false),
g: Some(5000000001i64),
_unknown_fields: ::pilota::LinkedBytes::new()
                                        }
                                    }
                                }
                            #[derive(PartialOrd)]
#[derive(Debug)]#[derive(Clone, PartialEq)]
                pub struct DfConst {

                        pub a: ::std::option::Option<i32>,

                        pub b: ::std::option::Option<TdI32>,

                        pub c: ::std::option::Option<::pilota::FastStr>,

                        pub d: ::std::option::Option<f64>,

                        pub e: ::std::option::Option<i64>,

                        pub f: ::std::option::Option<bool>,

                        pub g: ::std::option::Option<i64>,pub _unknown_fields: ::pilota::LinkedBytes,
                }
            impl ::pilota::thrift::Message for DfConst {
                fn encode<T: ::pilota::thrift::TOutputProtocol>(
                    &self,
                    __protocol: &mut T,
                ) -> ::std::result::Result<(),::pilota::thrift::ThriftException> {
                    #[allow(unused_imports)]
                    use ::pilota::thrift::TOutputProtocolExt;
                    let struct_ident =::pilota::thrift::TStructIdentifier {
                    name: "DfConst",
                };

                __protocol.write_struct_begin(&struct_ident)?;
                if let Some(value) = self.a.as_ref() {
                        __protocol.write_i32_field(1, *value)?;
                    }if let Some(value) = self.b.as_ref() {
                        __protocol.write_struct_field(2, value, ::pilota::thrift::TType::I32)?;
                    }if let Some(value) = self.c.as_ref() {
                        __protocol.write_faststr_field(3, (value).clone())?;
                    }if let Some(value) = self.d.as_ref() {
                        __protocol.write_double_field(4, *value)?;
                    }if let Some(value) = self.e.as_ref() {
                        __protocol.write_i64_field(5, *value)?;
                    }if let Some(value) = self.f.as_ref() {
                        __protocol.write_bool_field(6, *value)?;
                    }if let Some(value) = self.g.as_ref() {
                        __protocol.write_i64_field(7, *value)?;
                    }for bytes in self._unknown_fields.list.iter() {
                                __protocol.write_bytes_without_len(bytes.clone());
                            }
                __protocol.write_field_stop()?;
                __protocol.write_struct_end()?;
                ::std::result::Result::Ok(())

                }

                fn decode<T: ::pilota::thrift::TInputProtocol>(
                    __protocol: &mut T,
                ) -> ::std::result::Result<Self,::pilota::thrift::ThriftException>  {
                    #[allow(unused_imports)]
                    use ::pilota::{thrift::TLengthProtocolExt, Buf};


            let mut var_1 = Some(K_INT);let mut var_2 = Some(TdI32(K_INT));let mut var_3 = Some(::pilota::FastStr::from_static_str(K_STR));let mut var_4 = Some(K_DBL);let mut var_5 = Some(K_BIG);let mut var_6 = Some(false);let mut var_7 = Some(5000000001i64);let mut _unknown_fields = ::pilota::LinkedBytes::new();

            let mut __pilota_decoding_field_id = None;

            __protocol.read_struct_begin()?;
            if let ::std::result::Result::Err(mut err) = (|| {
                    loop {

                let mut __pilota_offset = 0;
            let __pilota_begin_ptr = __protocol.buf().chunk().as_ptr();
                let field_ident = __protocol.read_field_begin()?;
                if field_ident.field_type == ::pilota::thrift::TType::Stop {
                    __pilota_offset += __protocol.field_stop_len();
                    break;
                } else {
                    __pilota_offset += __protocol.field_begin_len(field_ident.field_type, field_ident.id);
                }
                __pilota_decoding_field_id = field_ident.id;
                match field_ident.id {
                    Some(1) if field_ident.field_type == ::pilota::thrift::TType::I32  => {
                    var_1 = Some(__protocol.read_i32()?);

                },Some(2) if field_ident.field_type == ::pilota::thrift::TType::I32  => {
                    var_2 = Some(::pilota::thrift::Message::decode(__protocol)?);

                },Some(3) if field_ident.field_type == ::pilota::thrift::TType::Binary  => {
                    var_3 = Some(__protocol.read_faststr()?);

                },Some(4) if field_ident.field_type == ::pilota::thrift::TType::Double  => {
                    var_4 = Some(__protocol.read_double()?);

                },Some(5) if field_ident.field_type == ::pilota::thrift::TType::I64  => {
                    var_5 = Some(__protocol.read_i64()?);

                },Some(6) if field_ident.field_type == ::pilota::thrift::TType::Bool  => {
                    var_6 = Some(__protocol.read_bool()?);

                },Some(7) if field_ident.field_type == ::pilota::thrift::TType::I64  => {
                    var_7 = Some(__protocol.read_i64()?);

                },
                    _ => {
                        __pilota_offset += __protocol.skip(field_ident.field_type)?;
                        _unknown_fields.push_back(__protocol.get_bytes(Some(__pilota_begin_ptr), __pilota_offset)?);
                    },
                }

                __protocol.read_field_end()?;
                __pilota_offset += __protocol.field_end_len();

            };
                    ::std::result::Result::Ok::<_, ::pilota::thrift::ThriftException>(())
                })() {
                if let Some(field_id) = __pilota_decoding_field_id {
                    err.prepend_msg(&format!("decode struct `DfConst` field(#{}) failed, caused by: ", field_id));
                }
                return ::std::result::Result::Err(err);
            };
            __protocol.read_struct_end()?;





            let data = Self {
                a: var_1,b: var_2,c: var_3,d: var_4,e: var_5,f: var_6,g: var_7, _unknown_fields
            };
            ::std::result::Result::Ok(data)

                }

                fn decode_async<'a, T: ::pilota::thrift::TAsyncInputProtocol>(
            __protocol: &'a mut T,
        ) -> ::std::pin::Pin<::std::boxed::Box<dyn ::std::future::Future<Output = ::std::result::Result<Self, ::pilota::thrift::ThriftException>> + Send + 'a>> {
            ::std::boxed::Box::pin(async move {


            let mut var_1 = Some(K_INT);let mut var_2 = Some(TdI32(K_INT));let mut var_3 = Some(::pilota::FastStr::from_static_str(K_STR));let mut var_4 = Some(K_DBL);let mut var_5 = Some(K_BIG);let mut var_6 = Some(false);let mut var_7 = Some(5000000001i64);

            let mut __pilota_decoding_field_id = None;

            __protocol.read_struct_begin().await?;
            if let ::std::result::Result::Err(mut err) = async {
                    loop {


                let field_ident = __protocol.read_field_begin().await?;
                if field_ident.field_type == ::pilota::thrift::TType::Stop {

                    break;
                } else {

                }
                __pilota_decoding_field_id = field_ident.id;
                match field_ident.id {
                    Some(1) if field_ident.field_type == ::pilota::thrift::TType::I32  => {
                    var_1 = Some(__protocol.read_i32().await?);

                },Some(2) if field_ident.field_type == ::pilota::thrift::TType::I32  => {
                    var_2 = Some(<TdI32 as ::pilota::thrift::Message>::decode_async(__protocol).await?);

                },Some(3) if field_ident.field_type == ::pilota::thrift::TType::Binary  => {
                    var_3 = Some(__protocol.read_faststr().await?);

                },Some(4) if field_ident.field_type == ::pilota::thrift::TType::Double  => {
                    var_4 = Some(__protocol.read_double().await?);

                },Some(5) if field_ident.field_type == ::pilota::thrift::TType::I64  => {
                    var_5 = Some(__protocol.read_i64().await?);

                },Some(6) if field_ident.field_type == ::pilota::thrift::TType::Bool  => {
                    var_6 = Some(__protocol.read_bool().await?);

                },Some(7) if field_ident.field_type == ::pilota::thrift::TType::I64  => {
                    var_7 = Some(__protocol.read_i64().await?);

                },
                    _ => {
                        __protocol.skip(field_ident.field_type).await?;

                    },
                }

                __protocol.read_field_end().await?;


            };
                    ::std::result::Result::Ok::<_, ::pilota::thrift::ThriftException>(())
                }.await {
                if let Some(field_id) = __pilota_decoding_field_id {
                    err.prepend_msg(&format!("decode struct `DfConst` field(#{}) failed, caused by: ", field_id));
                }
                return ::std::result::Result::Err(err);
            };
            __protocol.read_struct_end().await?;





            let data = Self {
                a: var_1,b: var_2,c: var_3,d: var_4,e: var_5,f: var_6,g: var_7, _unknown_fields: ::pilota::LinkedBytes::new()
            };
            ::std::result::Result::Ok(data)

            })
        }

                fn size<T: ::pilota::thrift::TLengthProtocol>(&self, __protocol: &mut T) -> usize {
                    #[allow(unused_imports)]
                    use ::pilota::thrift::TLengthProtocolExt;
                    __protocol.struct_begin_len(&::pilota::thrift::TStructIdentifier {
                    name: "DfConst",
                }) + self.a.as_ref().map_or(0, |value| __protocol.i32_field_len(Some(1), *value)) +self.b.as_ref().map_or(0, |value| __protocol.struct_field_len(Some(2), value)) +self.c.as_ref().map_or(0, |value| __protocol.faststr_field_len(Some(3), value)) +self.d.as_ref().map_or(0, |value| __protocol.double_field_len(Some(4), *value) ) +self.e.as_ref().map_or(0, |value| __protocol.i64_field_len(Some(5), *value)) +self.f.as_ref().map_or(0, |value| __protocol.bool_field_len(Some(6), *value)) +self.g.as_ref().map_or(0, |value| __protocol.i64_field_len(Some(7), *value)) +self._unknown_fields.size() + __protocol.field_stop_len() + __protocol.struct_end_len()
                }
            }#[derive(Debug)]
#[derive(Default)]#[derive(Clone, PartialEq)]
                pub struct Rec1 {

                        pub v: i8,

                        pub next: ::std::option::Option<::std::boxed::Box<Rec1>>,

                        pub kids: ::std::option::Option<::std::vec::Vec<Rec1>>,

                        pub named: ::std::option::Option<::pilota::AHashMap<::pilota::FastStr, Rec1>>,pub _unknown_fields: ::pilota::LinkedBytes,
                }
            impl ::pilota::thrift::Message for Rec1 {
                fn encode<T: ::pilota::thrift::TOutputProtocol>(
                    &self,
                    __protocol: &mut T,
                ) -> ::std::result::Result<(),::pilota::thrift::ThriftException> {
                    #[allow(unused_imports)]
                    use ::pilota::thrift::TOutputProtocolExt;
                    let struct_ident =::pilota::thrift::TStructIdentifier {
                    name: "Rec1",
                };

                __protocol.write_struct_begin(&struct_ident)?;
                __protocol.write_i8_field(1, *&self.v)?;if let Some(value) = self.next.as_ref() {
                        __protocol.write_struct_field(2, value, ::pilota::thrift::TType::Struct)?;
                    }if let Some(value) = self.kids.as_ref() {
                        __protocol.write_list_field(3, ::pilota::thrift::TType::Struct, &value, |__protocol, val| {
                        __protocol.write_struct(val)?;
                        ::std::result::Result::Ok(())
                    })?;
                    }if let Some(value) = self.named.as_ref() {
                        __protocol.write_map_field(4, ::pilota::thrift::TType::Binary, ::pilota::thrift::TType::Struct, &value, |__protocol, key| {
                __protocol.write_faststr((key).clone())?;
                ::std::result::Result::Ok(())
            }, |__protocol, val| {
                __protocol.write_struct(val)?;
                ::std::result::Result::Ok(())
            })?;
                    }for bytes in self._unknown_fields.list.iter() {
                                __protocol.write_bytes_without_len(bytes.clone());
                            }
                __protocol.write_field_stop()?;
                __protocol.write_struct_end()?;
                ::std::result::Result::Ok(())

                }

                fn decode<T: ::pilota::thrift::TInputProtocol>(
                    __protocol: &mut T,
                ) -> ::std::result::Result<Self,::pilota::thrift::ThriftException>  {
                    #[allow(unused_imports)]
                    use ::pilota::{thrift::TLengthProtocolExt, Buf};


            let mut var_1 = None;let mut var_2 = None;let mut var_3 = None;let mut var_4 = None;let mut _unknown_fields = ::pilota::LinkedBytes::new();

            let mut __pilota_decoding_field_id = None;

            __protocol.read_struct_begin()?;
            if let ::std::result::Result::Err(mut err) = (|| {
                    loop {

                let mut __pilota_offset = 0;
            let __pilota_begin_ptr = __protocol.buf().chunk().as_ptr();
                let field_ident = __protocol.read_field_begin()?;
                if field_ident.field_type == ::pilota::thrift::TType::Stop {
                    __pilota_offset += __protocol.field_stop_len();
                    break;
                } else {
                    __pilota_offset += __protocol.field_begin_len(field_ident.field_type, field_ident.id);
                }
                __pilota_decoding_field_id = field_ident.id;
                match field_ident.id {
                    Some(1) if field_ident.field_type == ::pilota::thrift::TType::I8  => {
                    var_1 = Some(__protocol.read_i8()?);

                },Some(2) if field_ident.field_type == ::pilota::thrift::TType::Struct  => {
                    var_2 = Some(::std::boxed::Box::new(::pilota::thrift::Message::decode(__protocol)?));

                },Some(3) if field_ident.field_type == ::pilota::thrift::TType::List  => {
                    var_3 = Some(unsafe {
                            let list_ident = __protocol.read_list_begin()?;
                            let mut val: ::std::vec::Vec<Rec1> = ::std::vec::Vec::with_capacity(list_ident.size);
                            for i in 0..list_ident.size {
                                val.as_mut_ptr().offset(i as isize).write(::pilota::thrift::Message::decode(__protocol)?);
                            };
                            val.set_len(list_ident.size);
                            __protocol.read_list_end()?;
                            val
                        });

                },Some(4) if field_ident.field_type == ::pilota::thrift::TType::Map  => {
                    var_4 = Some({
                        let map_ident = __protocol.read_map_begin()?;
                        let mut val = ::pilota::AHashMap::with_capacity(map_ident.size);
                        for _ in 0..map_ident.size {
                            val.insert(__protocol.read_faststr()?, ::pilota::thrift::Message::decode(__protocol)?);
                        }
                        __protocol.read_map_end()?;
                        val
                    });

                },
                    _ => {
                        __pilota_offset += __protocol.skip(field_ident.field_type)?;
                        _unknown_fields.push_back(__protocol.get_bytes(Some(__pilota_begin_ptr), __pilota_offset)?);
                    },
                }

                __protocol.read_field_end()?;
                __pilota_offset += __protocol.field_end_len();

            };
                    ::std::result::Result::Ok::<_, ::pilota::thrift::ThriftException>(())
                })() {
                if let Some(field_id) = __pilota_decoding_field_id {
                    err.prepend_msg(&format!("decode struct `Rec1` field(#{}) failed, caused by: ", field_id));
                }
                return ::std::result::Result::Err(err);
            };
            __protocol.read_struct_end()?;

            let Some(var_1) = var_1 else {
                return ::std::result::Result::Err(
                    ::pilota::thrift::new_protocol_exception(
                        ::pilota::thrift::ProtocolExceptionKind::InvalidData,
                            "field v is required".to_string()
                    )
                )
            };



            let data = Self {
                v: var_1,next: var_2,kids: var_3,named: var_4, _unknown_fields
            };
            ::std::result::Result::Ok(data)

                }

                fn decode_async<'a, T: ::pilota::thrift::TAsyncInputProtocol>(
            __protocol: &'a mut T,
        ) -> ::std::pin::Pin<::std::boxed::Box<dyn ::std::future::Future<Output = ::std::result::Result<Self, ::pilota::thrift::ThriftException>> + Send + 'a>> {
            ::std::boxed::Box::pin(async move {


            let mut var_1 = None;let mut var_2 = None;let mut var_3 = None;let mut var_4 = None;

            let mut __pilota_decoding_field_id = None;

            __protocol.read_struct_begin().await?;
            if let ::std::result::Result::Err(mut err) = async {
                    loop {


                let field_ident = __protocol.read_field_begin().await?;
                if field_ident.field_type == ::pilota::thrift::TType::Stop {

                    break;
                } else {

                }
                __pilota_decoding_field_id = field_ident.id;
                match field_ident.id {
                    Some(1) if field_ident.field_type == ::pilota::thrift::TType::I8  => {
                    var_1 = Some(__protocol.read_i8().await?);

                },Some(2) if field_ident.field_type == ::pilota::thrift::TType::Struct  => {
                    var_2 = Some(::std::boxed::Box::new(<Rec1 as ::pilota::thrift::Message>::decode_async(__protocol).await?));

                },Some(3) if field_ident.field_type == ::pilota::thrift::TType::List  => {
                    var_3 = Some({
                            let list_ident = __protocol.read_list_begin().await?;
                            let mut val = ::std::vec::Vec::with_capacity(list_ident.size);
                            for _ in 0..list_ident.size {
                                val.push(<Rec1 as ::pilota::thrift::Message>::decode_async(__protocol).await?);
                            };
                            __protocol.read_list_end().await?;
                            val
                        });

                },Some(4) if field_ident.field_type == ::pilota::thrift::TType::Map  => {
                    var_4 = Some({
                        let map_ident = __protocol.read_map_begin().await?;
                        let mut val = ::pilota::AHashMap::with_capacity(map_ident.size);
                        for _ in 0..map_ident.size {
                            val.insert(__protocol.read_faststr().await?, <Rec1 as ::pilota::thrift::Message>::decode_async(__protocol).await?);
                        }
                        __protocol.read_map_end().await?;
                        val
                    });

                },
                    _ => {
                        __protocol.skip(field_ident.field_type).await?;

                    },
                }

                __protocol.read_field_end().await?;


            };
                    ::std::result::Result::Ok::<_, ::pilota::thrift::ThriftException>(())
                }.await {
                if let Some(field_id) = __pilota_decoding_field_id {
                    err.prepend_msg(&format!("decode struct `Rec1` field(#{}) failed, caused by: ", field_id));
                }
                return ::std::result::Result::Err(err);
            };
            __protocol.read_struct_end().await?;

            let Some(var_1) = var_1 else {
                return ::std::result::Result::Err(
                    ::pilota::thrift::new_protocol_exception(
                        ::pilota::thrift::ProtocolExceptionKind::InvalidData,
                            "field v is required".to_string()
                    )
                )
            };



            let data = Self {
                v: var_1,next: var_2,kids: var_3,named: var_4, _unknown_fields: ::pilota::LinkedBytes::new()
            };
            ::std::result::Result::Ok(data)

            })
        }

                fn size<T: ::pilota::thrift::TLengthProtocol>(&self, __protocol: &mut T) -> usize {
                    #[allow(unused_imports)]
                    use ::pilota::thrift::TLengthProtocolExt;
                    __protocol.struct_begin_len(&::pilota::thrift::TStructIdentifier {
                    name: "Rec1",
                }) + __protocol.i8_field_len(Some(1), *&self.v) +self.next.as_ref().map_or(0, |value| __protocol.struct_field_len(Some(2), value)) +self.kids.as_ref().map_or(0, |value| __protocol.list_field_len(Some(3), ::pilota::thrift::TType::Struct, value, |__protocol, el| {
                        __protocol.struct_len(el)
                    })) +self.named.as_ref().map_or(0, |value| __protocol.map_field_len(Some(4), ::pilota::thrift::TType::Binary, ::pilota::thrift::TType::Struct, value, |__protocol, key| {
                __protocol.faststr_len(key)
            }, |__protocol, val| {
                __protocol.struct_len(val)
            })) +self._unknown_fields.size() + __protocol.field_stop_len() + __protocol.struct_end_len()
                }
            }
                                impl ::std::default::Default for Df52 {
                                    fn default() -> Self {
                                        Df52 {
                                            d1: -9223372036854775807i64,
plain: ::std::default::Default::default(),
d2: 1.5f64,
d3: -2500f64,
_unknown_fields: ::pilota::LinkedBytes::new()
                                        }
                                    }
                                }
                            #[derive(PartialOrd)]
#[derive(Debug)]#[derive(Clone, PartialEq)]
                pub struct Df52 {

                        pub d1: i64,

                        pub plain: ::std::option::Option<i32>,

                        pub d2: f64,

                        pub d3: f64,pub _unknown_fields: ::pilota::LinkedBytes,
                }
            impl ::pilota::thrift::Message for Df52 {
                fn encode<T: ::pilota::thrift::TOutputProtocol>(
                    &self,
                    __protocol: &mut T,
                ) -> ::std::result::Result<(),::pilota::thrift::ThriftException> {
                    #[allow(unused_imports)]
                    use ::pilota::thrift::TOutputProtocolExt;
                    let struct_ident =::pilota::thrift::TStructIdentifier {
                    name: "Df52",
                };

                __protocol.write_struct_begin(&struct_ident)?;
                __protocol.write_i64_field(1, *&self.d1)?;if let Some(value) = self.plain.as_ref() {
                        __protocol.write_i32_field(1053, *value)?;
                    }__protocol.write_double_field(2, *&self.d2)?;__protocol.write_double_field(3, *&self.d3)?;for bytes in self._unknown_fields.list.iter() {
                                __protocol.write_bytes_without_len(bytes.clone());
                            }
                __protocol.write_field_stop()?;
                __protocol.write_struct_end()?;
                ::std::result::Result::Ok(())

                }

                fn decode<T: ::pilota::thrift::TInputProtocol>(
                    __protocol: &mut T,
                ) -> ::std::result::Result<Self,::pilota::thrift::ThriftException>  {
                    #[allow(unused_imports)]
                    use ::pilota::{thrift::TLengthProtocolExt, Buf};


            let mut var_1 = -9223372036854775807i64;let mut var_1053 = None;let mut var_2 = 1.5f64;let mut var_3 = -2500f64;let mut _unknown_fields = ::pilota::LinkedBytes::new();

            let mut __pilota_decoding_field_id = None;

            __protocol.read_struct_begin()?;
            if let ::std::result::Result::Err(mut err) = (|| {
                    loop {

                let mut __pilota_offset = 0;
            let __pilota_begin_ptr = __protocol.buf().chunk().as_ptr();
                let field_ident = __protocol.read_field_begin()?;
                if field_ident.field_type == ::pilota::thrift::TType::Stop {
                    __pilota_offset += __protocol.field_stop_len();
                    break;
                } else {
                    __pilota_offset += __protocol.field_begin_len(field_ident.field_type, field_ident.id);
                }
                __pilota_decoding_field_id = field_ident.id;
                match field_ident.id {
                    Some(1) if field_ident.field_type == ::pilota::thrift::TType::I64  => {
                    var_1 = __protocol.read_i64()?;

                },Some(1053) if field_ident.field_type == ::pilota::thrift::TType::I32  => {
                    var_1053 = Some(__protocol.read_i32()?);

                },Some(2) if field_ident.field_type == ::pilota::thrift::TType::Double  => {
                    var_2 = __protocol.read_double()?;

                },Some(3) if field_ident.field_type == ::pilota::thrift::TType::Double  => {
                    var_3 = __protocol.read_double()?;

                },
                    _ => {
                        __pilota_offset += __protocol.skip(field_ident.field_type)?;
                        _unknown_fields.push_back(__protocol.get_bytes(Some(__pilota_begin_ptr), __pilota_offset)?);
                    },
                }

                __protocol.read_field_end()?;
                __pilota_offset += __protocol.field_end_len();

            };
                    ::std::result::Result::Ok::<_, ::pilota::thrift::ThriftException>(())
                })() {
                if let Some(field_id) = __pilota_decoding_field_id {
                    err.prepend_msg(&format!("decode struct `Df52` field(#{}) failed, caused by: ", field_id));
                }
                return ::std::result::Result::Err(err);
            };
            __protocol.read_struct_end()?;





            let data = Self {
                d1: var_1,plain: var_1053,d2: var_2,d3: var_3, _unknown_fields
            };
            ::std::result::Result::Ok(data)

                }

                fn decode_async<'a, T: ::pilota::thrift::TAsyncInputProtocol>(
            __protocol: &'a mut T,
        ) -> ::std::pin::Pin<::std::boxed::Box<dyn ::std::future::Future<Output = ::std::result::Result<Self, ::pilota::thrift::ThriftException>> + Send + 'a>> {
            ::std::boxed::Box::pin(async move {


            let mut var_1 = -9223372036854775807i64;let mut var_1053 = None;let mut var_2 = 1.5f64;let mut var_3 = -2500f64;

            let mut __pilota_decoding_field_id = None;

            __protocol.read_struct_begin().await?;
            if let ::std::result::Result::Err(mut err) = async {
                    loop {


                let field_ident = __protocol.read_field_begin().await?;
                if field_ident.field_type == ::pilota::thrift::TType::Stop {

                    break;
                } else {

                }
                __pilota_decoding_field_id = field_ident.id;
                match field_ident.id {
                    Some(1) if field_ident.field_type == ::pilota::thrift::TType::I64  => {
                    var_1 = __protocol.read_i64().await?;

                },Some(1053) if field_ident.field_type == ::pilota::thrift::TType::I32  => {
                    var_1053 = Some(__protocol.read_i32().await?);

                },Some(2) if field_ident.field_type == ::pilota::thrift::TType::Double  => {
                    var_2 = __protocol.read_double().await?;

                },Some(3) if field_ident.field_type == ::pilota::thrift::TType::Double  => {
                    var_3 = __protocol.read_double().await?;

                },
                    _ => {
                        __protocol.skip(field_ident.field_type).await?;

                    },
                }

                __protocol.read_field_end().await?;


            };
                    ::std::result::Result::Ok::<_, ::pilota::thrift::ThriftException>(())
                }.await {
                if let Some(field_id) = __pilota_decoding_field_id {
                    err.prepend_msg(&format!("decode struct `Df52` field(#{}) failed, caused by: ", field_id));
                }
                return ::std::result::Result::Err(err);
            };
            __protocol.read_struct_end().await?;





            let data = Self {
                d1: var_1,plain: var_1053,d2: var_2,d3: var_3, _unknown_fields: ::pilota::LinkedBytes::new()
            };
            ::std::result::Result::Ok(data)

            })
        }

                fn size<T: ::pilota::thrift::TLengthProtocol>(&self, __protocol: &mut T) -> usize {
                    #[allow(unused_imports)]
                    use ::pilota::thrift::TLengthProtocolExt;
                    __protocol.struct_begin_len(&::pilota::thrift::TStructIdentifier {
                    name: "Df52",
                }) + __protocol.i64_field_len(Some(1), *&self.d1) +self.plain.as_ref().map_or(0, |value| __protocol.i32_field_len(Some(1053), *value)) +__protocol.double_field_len(Some(2), *&self.d2)  +__protocol.double_field_len(Some(3), *&self.d3)  +self._unknown_fields.size() + __protocol.field_stop_len() + __protocol.struct_end_len()
                }
            }
                                impl ::std::default::Default for Df28 {
                                    fn default() -> Self {
                                        Df28 {
                                            d1: Some(-9223372036854775807i64),
plain: ::std::default::Default::default(),
d2: Some(1.5f64),
d3: Some(-2500f64),
_unknown_fields: ::pilota::LinkedBytes::new()
                                        }
                                    }
                                }
                            #[derive(PartialOrd)]
#[derive(Debug)]#[derive(Clone, PartialEq)]
                pub struct Df28 {

                        pub d1: ::std::option::Option<i64>,

                        pub plain: ::std::option::Option<i32>,

                        pub d2: ::std::option::Option<f64>,

                        pub d3: ::std::option::Option<f64>,pub _unknown_fields: ::pilota::LinkedBytes,
                }
            impl ::pilota::thrift::Message for Df28 {
                fn encode<T: ::pilota::thrift::TOutputProtocol>(
                    &self,
                    __protocol: &mut T,
                ) -> ::std::result::Result<(),::pilota::thrift::ThriftException> {
                    #[allow(unused_imports)]
                    use ::pilota::thrift::TOutputProtocolExt;
                    let struct_ident =::pilota::thrift::TStructIdentifier {
                    name: "Df28",
                };

                __protocol.write_struct_begin(&struct_ident)?;
                if let Some(value) = self.d1.as_ref() {
                        __protocol.write_i64_field(3, *value)?;
                    }if let Some(value) = self.plain.as_ref() {
                        __protocol.write_i32_field(1031, *value)?;
                    }if let Some(value) = self.d2.as_ref() {
                        __protocol.write_double_field(4, *value)?;
                    }if let Some(value) = self.d3.as_ref() {
                        __protocol.write_double_field(17, *value)?;
                    }for bytes in self._unknown_fields.list.iter() {
                                __protocol.write_bytes_without_len(bytes.clone());
                            }
                __protocol.write_field_stop()?;
                __protocol.write_struct_end()?;
                ::std::result::Result::Ok(())

                }

                fn decode<T: ::pilota::thrift::TInputProtocol>(
                    __protocol: &mut T,
                ) -> ::std::result::Result<Self,::pilota::thrift::ThriftException>  {
                    #[allow(unused_imports)]
                    use ::pilota::{thrift::TLengthProtocolExt, Buf};


            let mut var_3 = Some(-9223372036854775807i64);let mut var_1031 = None;let mut var_4 = Some(1.5f64);let mut var_17 = Some(-2500f64);let mut _unknown_fields = ::pilota::LinkedBytes::new();

            let mut __pilota_decoding_field_id = None;

            __protocol.read_struct_begin()?;
            if let ::std::result::Result::Err(mut err) = (|| {
                    loop {

                let mut __pilota_offset = 0;
            let __pilota_begin_ptr = __protocol.buf().chunk().as_ptr();
                let field_ident = __protocol.read_field_begin()?;
                if field_ident.field_type == ::pilota::thrift::TType::Stop {
                    __pilota_offset += __protocol.field_stop_len();
                    break;
                } else {
                    __pilota_offset += __protocol.field_begin_len(field_ident.field_type, field_ident.id);
                }
                __pilota_decoding_field_id = field_ident.id;
                match field_ident.id {
                    Some(3) if field_ident.field_type == ::pilota::thrift::TType::I64  => {
                    var_3 = Some(__protocol.read_i64()?);

                },Some(1031) if field_ident.field_type == ::pilota::thrift::TType::I32  => {
                    var_1031 = Some(__protocol.read_i32()?);

                },Some(4) if field_ident.field_type == ::pilota::thrift::TType::Double  => {
                    var_4 = Some(__protocol.read_double()?);

                },Some(17) if field_ident.field_type == ::pilota::thrift::TType::Double  => {
                    var_17 = Some(__protocol.read_double()?);

                },
                    _ => {
                        __pilota_offset += __protocol.skip(field_ident.field_type)?;
                        _unknown_fields.push_back(__protocol.get_bytes(Some(__pilota_begin_ptr), __pilota_offset)?);
                    },
                }

                __protocol.read_field_end()?;
                __pilota_offset += __protocol.field_end_len();

            };
                    ::std::result::Result::Ok::<_, ::pilota::thrift::ThriftException>(())
                })() {
                if let Some(field_id) = __pilota_decoding_field_id {
                    err.prepend_msg(&format!("decode struct `Df28` field(#{}) failed, caused by: ", field_id));
                }
                return ::std::result::Result::Err(err);
            };
            __protocol.read_struct_end()?;





            let data = Self {
                d1: var_3,plain: var_1031,d2: var_4,d3: var_17, _unknown_fields
            };
            ::std::result::Result::Ok(data)

                }

                fn decode_async<'a, T: ::pilota::thrift::TAsyncInputProtocol>(
            __protocol: &'a mut T,
        ) -> ::std::pin::Pin<::std::boxed::Box<dyn ::std::future::Future<Output = ::std::result::Result<Self, ::pilota::thrift::ThriftException>> + Send + 'a>> {
            ::std::boxed::Box::pin(async move {


            let mut var_3 = Some(-9223372036854775807i64);let mut var_1031 = None;let mut var_4 = Some(1.5f64);let mut var_17 = Some(-2500f64);

            let mut __pilota_decoding_field_id = None;

            __protocol.read_struct_begin().await?;
            if let ::std::result::Result::Err(mut err) = async {
                    loop {


                let field_ident = __protocol.read_field_begin().await?;
                if field_ident.field_type == ::pilota::thrift::TType::Stop {

                    break;
                } else {

                }
                __pilota_decoding_field_id = field_ident.id;
                match field_ident.id {
                    Some(3) if field_ident.field_type == ::pilota::thrift::TType::I64  => {
                    var_3 = Some(__protocol.read_i64().await?);

                },Some(1031) if field_ident.field_type == ::pilota::thrift::TType::I32  => {
                    var_1031 = Some(__protocol.read_i32().await?);

                },Some(4) if field_ident.field_type == ::pilota::thrift::TType::Double  => {
                    var_4 = Some(__protocol.read_double().await?);

                },Some(17) if field_ident.field_type == ::pilota::thrift::TType::Double  => {
                    var_17 = Some(__protocol.read_double().await?);

                },
                    _ => {
                        __protocol.skip(field_ident.field_type).await?;

                    },
                }

                __protocol.read_field_end().await?;


            };
                    ::std::result::Result::Ok::<_, ::pilota::thrift::ThriftException>(())
                }.await {
                if let Some(field_id) = __pilota_decoding_field_id {
                    err.prepend_msg(&format!("decode struct `Df28` field(#{}) failed, caused by: ", field_id));
                }
                return ::std::result::Result::Err(err);
            };
            __protocol.read_struct_end().await?;





            let data = Self {
                d1: var_3,plain: var_1031,d2: var_4,d3: var_17, _unknown_fields: ::pilota::LinkedBytes::new()
            };
            ::std::result::Result::Ok(data)

            })
        }

                fn size<T: ::pilota::thrift::TLengthProtocol>(&self, __protocol: &mut T) -> usize {
                    #[allow(unused_imports)]
                    use ::pilota::thrift::TLengthProtocolExt;
                    __protocol.struct_begin_len(&::pilota::thrift::TStructIdentifier {
                    name: "Df28",
                }) + self.d1.as_ref().map_or(0, |value| __protocol.i64_field_len(Some(3), *value)) +self.plain.as_ref().map_or(0, |value| __protocol.i32_field_len(Some(1031), *value)) +self.d2.as_ref().map_or(0, |value| __protocol.double_field_len(Some(4), *value) ) +self.d3.as_ref().map_or(0, |value| __protocol.double_field_len(Some(17), *value) ) +self._unknown_fields.size() + __protocol.field_stop_len() + __protocol.struct_end_len()
                }
            }
                                impl ::std::default::Default for Df4 {
                                    fn default() -> Self {
                                        Df4 {
                                            d1: Some(-9223372036854775807i64),
plain: ::std::default::Default::default(),
d2: Some(1.5f64),
d3: Some(-2500f64),
_unknown_fields: ::pilota::LinkedBytes::new()
                                        }
                                    }
                                }
                            #[derive(PartialOrd)]
#[derive(Debug)]#[derive(Clone, PartialEq)]
                pub struct Df4 {

                        pub d1: ::std::option::Option<i64>,

                        pub plain: ::std::option::Option<i32>,

                        pub d2: ::std::option::Option<f64>,

                        pub d3: ::std::option::Option<f64>,pub _unknown_fields: ::pilota::LinkedBytes,
                }
            impl ::pilota::thrift::Message for Df4 {
                fn encode<T: ::pilota::thrift::TOutputProtocol>(
                    &self,
                    __protocol: &mut T,
                ) -> ::std::result::Result<(),::pilota::thrift::ThriftException> {
                    #[allow(unused_imports)]
                    use ::pilota::thrift::TOutputProtocolExt;
                    let struct_ident =::pilota::thrift::TStructIdentifier {
                    name: "Df4",
                };

                __protocol.write_struct_begin(&struct_ident)?;
                if let Some(value) = self.d1.as_ref() {
                        __protocol.write_i64_field(1, *value)?;
                    }if let Some(value) = self.plain.as_ref() {
                        __protocol.write_i32_field(1005, *value)?;
                    }if let Some(value) = self.d2.as_ref() {
                        __protocol.write_double_field(2, *value)?;
                    }if let Some(value) = self.d3.as_ref() {
                        __protocol.write_double_field(32767, *value)?;
                    }for bytes in self._unknown_fields.list.iter() {
                                __protocol.write_bytes_without_len(bytes.clone());
                            }
                __protocol.write_field_stop()?;
                __protocol.write_struct_end()?;
                ::std::result::Result::Ok(())

                }

                fn decode<T: ::pilota::thrift::TInputProtocol>(
                    __protocol: &mut T,
                ) -> ::std::result::Result<Self,::pilota::thrift::ThriftException>  {
                    #[allow(unused_imports)]
                    use ::pilota::{thrift::TLengthProtocolExt, Buf};


            let mut var_1 = Some(-9223372036854775807i64);let mut var_1005 = None;let mut var_2 = Some(1.5f64);let mut var_32767 = Some(-2500f64);let mut _unknown_fields = ::pilota::LinkedBytes::new();

            let mut __pilota_decoding_field_id = None;

            __protocol.read_struct_begin()?;
            if let ::std::result::Result::Err(mut err) = (|| {
                    loop {

                let mut __pilota_offset = 0;
            let __pilota_begin_ptr = __protocol.buf().chunk().as_ptr();
                let field_ident = __protocol.read_field_begin()?;
                if field_ident.field_type == ::pilota::thrift::TType::Stop {
                    __pilota_offset += __protocol.field_stop_len();
                    break;
                } else {
                    __pilota_offset += __protocol.field_begin_len(field_ident.field_type, field_ident.id);
                }
                __pilota_decoding_field_id = field_ident.id;
                match field_ident.id {
                    Some(1) if field_ident.field_type == ::pilota::thrift::TType::I64  => {
                    var_1 = Some(__protocol.read_i64()?);

                },Some(1005) if field_ident.field_type == ::pilota::thrift::TType::I32  => {
                    var_1005 = Some(__protocol.read_i32()?);

                },Some(2) if field_ident.field_type == ::pilota::thrift::TType::Double  => {
                    var_2 = Some(__protocol.read_double()?);

                },Some(32767) if field_ident.field_type == ::pilota::thrift::TType::Double  => {
                    var_32767 = Some(__protocol.read_double()?);

                },
                    _ => {
                        __pilota_offset += __protocol.skip(field_ident.field_type)?;
                        _unknown_fields.push_back(__protocol.get_bytes(Some(__pilota_begin_ptr), __pilota_offset)?);
                    },
                }

                __protocol.read_field_end()?;
                __pilota_offset += __protocol.field_end_len();

            };
                    ::std::result::Result::Ok::<_, ::pilota::thrift::ThriftException>(())
                })() {
                if let Some(field_id) = __pilota_decoding_field_id {
                    err.prepend_msg(&format!("decode struct `Df4` field(#{}) failed, caused by: ", field_id));
                }
                return ::std::result::Result::Err(err);
            };
            __protocol.read_struct_end()?;





            let data = Self {
                d1: var_1,plain: var_1005,d2: var_2,d3: var_32767, _unknown_fields
            };
            ::std::result::Result::Ok(data)

                }

                fn decode_async<'a, T: ::pilota::thrift::TAsyncInputProtocol>(
            __protocol: &'a mut T,
        ) -> ::std::pin::Pin<::std::boxed::Box<dyn ::std::future::Future<Output = ::std::result::Result<Self, ::pilota::thrift::ThriftException>> + Send + 'a>> {
            ::std::boxed::Box::pin(async move {


            let mut var_1 = Some(-9223372036854775807i64);let mut var_1005 = None;let mut var_2 = Some(1.5f64);let mut var_32767 = Some(-2500f64);

            let mut __pilota_decoding_field_id = None;

            __protocol.read_struct_begin().await?;
            if let ::std::result::Result::Err(mut err) = async {
                    loop {


                let field_ident = __protocol.read_field_begin().await?;
                if field_ident.field_type == ::pilota::thrift::TType::Stop {

                    break;
                } else {

                }
                __pilota_decoding_field_id = field_ident.id;
                match field_ident.id {
                    Some(1) if field_ident.field_type == ::pilota::thrift::TType::I64  => {
                    var_1 = Some(__protocol.read_i64().await?);

                },Some(1005) if field_ident.field_type == ::pilota::thrift::TType::I32  => {
                    var_1005 = Some(__protocol.read_i32().await?);

                },Some(2) if field_ident.field_type == ::pilota::thrift::TType::Double  => {
                    var_2 = Some(__protocol.read_double().await?);

                },Some(32767) if field_ident.field_type == ::pilota::thrift::TType::Double  => {
                    var_32767 = Some(__protocol.read_double().await?);

                },
                    _ => {
                        __protocol.skip(field_ident.field_type).await?;

                    },
                }

                __protocol.read_field_end().await?;


            };
                    ::std::result::Result::Ok::<_, ::pilota::thrift::ThriftException>(())
                }.await {
                if let Some(field_id) = __pilota_decoding_field_id {
                    err.prepend_msg(&format!("decode struct `Df4` field(#{}) failed, caused by: ", field_id));
                }
                return ::std::result::Result::Err(err);
            };
            __protocol.read_struct_end().await?;





            let data = Self {
                d1: var_1,plain: var_1005,d2: var_2,d3: var_32767, _unknown_fields: ::pilota::LinkedBytes::new()
            };
            ::std::result::Result::Ok(data)

            })
        }

                fn size<T: ::pilota::thrift::TLengthProtocol>(&self, __protocol: &mut T) -> usize {
                    #[allow(unused_imports)]
                    use ::pilota::thrift::TLengthProtocolExt;
                    __protocol.struct_begin_len(&::pilota::thrift::TStructIdentifier {
                    name: "Df4",
                }) + self.d1.as_ref().map_or(0, |value| __protocol.i64_field_len(Some(1), *value)) +self.plain.as_ref().map_or(0, |value| __protocol.i32_field_len(Some(1005), *value)) +self.d2.as_ref().map_or(0, |value| __protocol.double_field_len(Some(2), *value) ) +self.d3.as_ref().map_or(0, |value| __protocol.double_field_len(Some(32767), *value) ) +self._unknown_fields.size() + __protocol.field_stop_len() + __protocol.struct_end_len()
                }
            }
                                impl ::std::default::Default for Df59 {
                                    fn default() -> Self {
                                        Df59 {
                                            d1: TdStr(::pilota::FastStr::from_static_str("td")),
plain: ::std::default::Default::default(),
d2: TdTdI32(TdI32(-45i32)),
d3: TdTdStr(TdStr(::pilota::FastStr::from_static_str("tdtd"))),
_unknown_fields: ::pilota::LinkedBytes::new()
                                        }
                                    }
                                }
                            #[derive(PartialOrd)]
#[derive(Hash, Eq, Ord)]
#[derive(Debug)]#[derive(Clone, PartialEq)]
                pub struct Df59 {

                        pub d1: TdStr,

                        pub plain: ::std::option::Option<i32>,

                        pub d2: TdTdI32,

                        pub d3: TdTdStr,pub _unknown_fields: ::pilota::LinkedBytes,
                }
            impl ::pilota::thrift::Message for Df59 {
                fn encode<T: ::pilota::thrift::TOutputProtocol>(
                    &self,
                    __protocol: &mut T,
                ) -> ::std::result::Result<(),::pilota::thrift::ThriftException> {
                    #[allow(unused_imports)]
                    use ::pilota::thrift::TOutputProtocolExt;
                    let struct_ident =::pilota::thrift::TStructIdentifier {
                    name: "Df59",
                };

                __protocol.write_struct_begin(&struct_ident)?;
                __protocol.write_struct_field(1, &self.d1, ::pilota::thrift::TType::Binary)?;if let Some(value) = self.plain.as_ref() {
                        __protocol.write_i32_field(1060, *value)?;
                    }__protocol.write_struct_field(15, &self.d2, ::pilota::thrift::TType::I32)?;__protocol.write_struct_field(16, &self.d3, ::pilota::thrift::TType::Binary)?;for bytes in self._unknown_fields.list.iter() {
                                __protocol.write_bytes_without_len(bytes.clone());
                            }
                __protocol.write_field_stop()?;
                __protocol.write_struct_end()?;
                ::std::result::Result::Ok(())

                }

                fn decode<T: ::pilota::thrift::TInputProtocol>(
                    __protocol: &mut T,
                ) -> ::std::result::Result<Self,::pilota::thrift::ThriftException>  {
                    #[allow(unused_imports)]
                    use ::pilota::{thrift::TLengthProtocolExt, Buf};


            let mut var_1 = TdStr(::pilota::FastStr::from_static_str("td"));let mut var_1060 = None;let mut var_15 = TdTdI32(TdI32(-45i32));let mut var_16 = TdTdStr(TdStr(::pilota::FastStr::from_static_str("tdtd")));let mut _unknown_fields = ::pilota::LinkedBytes::new();

            let mut __pilota_decoding_field_id = None;

            __protocol.read_struct_begin()?;
            if let ::std::result::Result::Err(mut err) = (|| {
                    loop {

                let mut __pilota_offset = 0;
            let __pilota_begin_ptr = __protocol.buf().chunk().as_ptr();
                let field_ident = __protocol.read_field_begin()?;
                if field_ident.field_type == ::pilota::thrift::TType::Stop {
                    __pilota_offset += __protocol.field_stop_len();
                    break;
                } else {
                    __pilota_offset += __protocol.field_begin_len(field_ident.field_type, field_ident.id);
                }
                __pilota_decoding_field_id = field_ident.id;
                match field_ident.id {
                    Some(1) if field_ident.field_type == ::pilota::thrift::TType::Binary  => {
                    var_1 = ::pilota::thrift::Message::decode(__protocol)?;

                },Some(1060) if field_ident.field_type == ::pilota::thrift::TType::I32  => {
                    var_1060 = Some(__protocol.read_i32()?);

                },Some(15) if field_ident.field_type == ::pilota::thrift::TType::I32  => {
                    var_15 = ::pilota::thrift::Message::decode(__protocol)?;

                },Some(16) if field_ident.field_type == ::pilota::thrift::TType::Binary  => {
                    var_16 = ::pilota::thrift::Message::decode(__protocol)?;

                },
                    _ => {
                        __pilota_offset += __protocol.skip(field_ident.field_type)?;
                        _unknown_fields.push_back(__protocol.get_bytes(Some(__pilota_begin_ptr), __pilota_offset)?);
                    },
                }

                __protocol.read_field_end()?;
                __pilota_offset += __protocol.field_end_len();

            };
                    ::std::result::Result::Ok::<_, ::pilota::thrift::ThriftException>(())
                })() {
                if let Some(field_id) = __pilota_decoding_field_id {
                    err.prepend_msg(&format!("decode struct `Df59` field(#{}) failed, caused by: ", field_id));
                }
                return ::std::result::Result::Err(err);
            };
            __protocol.read_struct_end()?;





            let data = Self {
                d1: var_1,plain: var_1060,d2: var_15,d3: var_16, _unknown_fields
            };
            ::std::result::Result::Ok(data)

                }

                fn decode_async<'a, T: ::pilota::thrift::TAsyncInputProtocol>(
            __protocol: &'a mut T,
        ) -> ::std::pin::Pin<::std::boxed::Box<dyn ::std::future::Future<Output = ::std::result::Result<Self, ::pilota::thrift::ThriftException>> + Send + 'a>> {
            ::std::boxed::Box::pin(async move {


            let mut var_1 = TdStr(::pilota::FastStr::from_static_str("td"));let mut var_1060 = None;let mut var_15 = TdTdI32(TdI32(-45i32));let mut var_16 = TdTdStr(TdStr(::pilota::FastStr::from_static_str("tdtd")));

            let mut __pilota_decoding_field_id = None;

            __protocol.read_struct_begin().await?;
            if let ::std::result::Result::Err(mut err) = async {
                    loop {


                let field_ident = __protocol.read_field_begin().await?;
                if field_ident.field_type == ::pilota::thrift::TType::Stop {

                    break;
                } else {

                }
                __pilota_decoding_field_id = field_ident.id;
                match field_ident.id {
                    Some(1) if field_ident.field_type == ::pilota::thrift::TType::Binary  => {
                    var_1 = <TdStr as ::pilota::thrift::Message>::decode_async(__protocol).await?;

                },Some(1060) if field_ident.field_type == ::pilota::thrift::TType::I32  => {
                    var_1060 = Some(__protocol.read_i32().await?);

                },Some(15) if field_ident.field_type == ::pilota::thrift::TType::I32  => {
                    var_15 = <TdTdI32 as ::pilota::thrift::Message>::decode_async(__protocol).await?;

                },Some(16) if field_ident.field_type == ::pilota::thrift::TType::Binary  => {
                    var_16 = <TdTdStr as ::pilota::thrift::Message>::decode_async(__protocol).await?;

                },
                    _ => {
                        __protocol.skip(field_ident.field_type).await?;

                    },
                }

                __protocol.read_field_end().await?;


            };
                    ::std::result::Result::Ok::<_, ::pilota::thrift::ThriftException>(())
                }.await {
                if let Some(field_id) = __pilota_decoding_field_id {
                    err.prepend_msg(&format!("decode struct `Df59` field(#{}) failed, caused by: ", field_id));
                }
                return ::std::result::Result::Err(err);
            };
            __protocol.read_struct_end().await?;





            let data = Self {
                d1: var_1,plain: var_1060,d2: var_15,d3: var_16, _unknown_fields: ::pilota::LinkedBytes::new()
            };
            ::std::result::Result::Ok(data)

            })
        }

                fn size<T: ::pilota::thrift::TLengthProtocol>(&self, __protocol: &mut T) -> usize {
                    #[allow(unused_imports)]
                    use ::pilota::thrift::TLengthProtocolExt;
                    __protocol.struct_begin_len(&::pilota::thrift::TStructIdentifier {
                    name: "Df59",
                }) + __protocol.struct_field_len(Some(1), &self.d1) +self.plain.as_ref().map_or(0, |value| __protocol.i32_field_len(Some(1060), *value)) +__protocol.struct_field_len(Some(15), &self.d2) +__protocol.struct_field_len(Some(16), &self.d3) +self._unknown_fields.size() + __protocol.field_stop_len() + __protocol.struct_end_len()
                }
            }
                                impl ::std::default::Default for Df35 {
                                    fn default() -> Self {
                                        Df35 {
                                            d1: Some(TdStr(::pilota::FastStr::from_static_str("td"))),
plain: ::std::default::Default::default(),
d2: Some(TdTdI32(TdI32(-45i32))),
d3: Some(TdTdStr(TdStr(::pilota::FastStr::from_static_str("tdtd")))),
_unknown_fields: ::pilota::LinkedBytes::new()
                                        }
                                    }
                                }
                            #[derive(PartialOrd)]
#[derive(Hash, Eq, Ord)]
#[derive(Debug)]#[derive(Clone, PartialEq)]
                pub struct Df35 {

                        pub d1: ::std::option::Option<TdStr>,

                        pub plain: ::std::option::Option<i32>,

                        pub d2: ::std::option::Option<TdTdI32>,

                        pub d3: ::std::option::Option<TdTdStr>,pub _unknown_fields: ::pilota::LinkedBytes,
                }
            impl ::pilota::thrift::Message for Df35 {
                fn encode<T: ::pilota::thrift::TOutputProtocol>(
                    &self,
                    __protocol: &mut T,
                ) -> ::std::result::Result<(),::pilota::thrift::ThriftException> {
                    #[allow(unused_imports)]
                    use ::pilota::thrift::TOutputProtocolExt;
                    let struct_ident =::pilota::thrift::TStructIdentifier {
                    name: "Df35",
                };

                __protocol.write_struct_begin(&struct_ident)?;
                if let Some(value) = self.d1.as_ref() {
                        __protocol.write_struct_field(1, value, ::pilota::thrift::TType::Binary)?;
                    }if let Some(value) = self.plain.as_ref() {
                        __protocol.write_i32_field(1036, *value)?;
                    }if let Some(value) = self.d2.as_ref() {
                        __protocol.write_struct_field(2, value, ::pilota::thrift::TType::I32)?;
                    }if let Some(value) = self.d3.as_ref() {
                        __protocol.write_struct_field(3, value, ::pilota::thrift::TType::Binary)?;
                    }for bytes in self._unknown_fields.list.iter() {
                                __protocol.write_bytes_without_len(bytes.clone());
                            }
                __protocol.write_field_stop()?;
                __protocol.write_struct_end()?;
                ::std::result::Result::Ok(())

                }

                fn decode<T: ::pilota::thrift::TInputProtocol>(
                    __protocol: &mut T,
                ) -> ::std::result::Result<Self,::pilota::thrift::ThriftException>  {
                    #[allow(unused_imports)]
                    use ::pilota::{thrift::TLengthProtocolExt, Buf};


            let mut var_1 = Some(TdStr(::pilota::FastStr::from_static_str("td")));let mut var_1036 = None;let mut var_2 = Some(TdTdI32(TdI32(-45i32)));let mut var_3 = Some(TdTdStr(TdStr(::pilota::FastStr::from_static_str("tdtd"))));let mut _unknown_fields = ::pilota::LinkedBytes::new();

            let mut __pilota_decoding_field_id = None;

            __protocol.read_struct_begin()?;
            if let ::std::result::Result::Err(mut err) = (|| {
                    loop {

                let mut __pilota_offset = 0;
            let __pilota_begin_ptr = __protocol.buf().chunk().as_ptr();
                let field_ident = __protocol.read_field_begin()?;
                if field_ident.field_type == ::pilota::thrift::TType::Stop {
                    __pilota_offset += __protocol.field_stop_len();
                    break;
                } else {
                    __pilota_offset += __protocol.field_begin_len(field_ident.field_type, field_ident.id);
                }
                __pilota_decoding_field_id = field_ident.id;
                match field_ident.id {
                    Some(1) if field_ident.field_type == ::pilota::thrift::TType::Binary  => {
                    var_1 = Some(::pilota::thrift::Message::decode(__protocol)?);

                },Some(1036) if field_ident.field_type == ::pilota::thrift::TType::I32  => {
                    var_1036 = Some(__protocol.read_i32()?);

                },Some(2) if field_ident.field_type == ::pilota::thrift::TType::I32  => {
                    var_2 = Some(::pilota::thrift::Message::decode(__protocol)?);

                },Some(3) if field_ident.field_type == ::pilota::thrift::TType::Binary  => {
                    var_3 = Some(::pilota::thrift::Message::decode(__protocol)?);

                },
                    _ => {
                        __pilota_offset += __protocol.skip(field_ident.field_type)?;
                        _unknown_fields.push_back(__protocol.get_bytes(Some(__pilota_begin_ptr), __pilota_offset)?);
                    },
                }

                __protocol.read_field_end()?;
                __pilota_offset += __protocol.field_end_len();

            };
                    ::std::result::Result::Ok::<_, ::pilota::thrift::ThriftException>(())
                })() {
                if let Some(field_id) = __pilota_decoding_field_id {
                    err.prepend_msg(&format!("decode struct `Df35` field(#{}) failed, caused by: ", field_id));
                }
                return ::std::result::Result::Err(err);
            };
            __protocol.read_struct_end()?;





            let data = Self {
                d1: var_1,plain: var_1036,d2: var_2,d3: var_3, _unknown_fields
            };
            ::std::result::Result::Ok(data)

                }

                fn decode_async<'a, T: ::pilota::thrift::TAsyncInputProtocol>(
            __protocol: &'a mut T,
        ) -> ::std::pin::Pin<::std::boxed::Box<dyn ::std::future::Future<Output = ::std::result::Result<Self, ::pilota::thrift::ThriftException>> + Send + 'a>> {
            ::std::boxed::Box::pin(async move {


            let mut var_1 = Some(TdStr(::pilota::FastStr::from_static_str("td")));let mut var_1036 = None;let mut var_2 = Some(TdTdI32(TdI32(-45i32)));let mut var_3 = Some(TdTdStr(TdStr(::pilota::FastStr::from_static_str("tdtd"))));

            let mut __pilota_decoding_field_id = None;

            __protocol.read_struct_begin().await?;
            if let ::std::result::Result::Err(mut err) = async {
                    loop {


                let field_ident = __protocol.read_field_begin().await?;
                if field_ident.field_type == ::pilota::thrift::TType::Stop {

                    break;
                } else {

                }
                __pilota_decoding_field_id = field_ident.id;
                match field_ident.id {
                    Some(1) if field_ident.field_type == ::pilota::thrift::TType::Binary  => {
                    var_1 = Some(<TdStr as ::pilota::thrift::Message>::decode_async(__protocol).await?);

                },Some(1036) if field_ident.field_type == ::pilota::thrift::TType::I32  => {
                    var_1036 = Some(__protocol.read_i32().await?);

                },Some(2) if field_ident.field_type == ::pilota::thrift::TType::I32  => {
                    var_2 = Some(<TdTdI32 as ::pilota::thrift::Message>::decode_async(__protocol).await?);

                },Some(3) if field_ident.field_type == ::pilota::thrift::TType::Binary  => {
                    var_3 = Some(<TdTdStr as ::pilota::thrift::Message>::decode_async(__protocol).await?);

                },
                    _ => {
                        __protocol.skip(field_ident.field_type).await?;

                    },
                }

                __protocol.read_field_end().await?;


            };
                    ::std::result::Result::Ok::<_, ::pilota::thrift::ThriftException>(())
                }.await {
                if let Some(field_id) = __pilota_decoding_field_id {
                    err.prepend_msg(&format!("decode struct `Df35` field(#{}) failed, caused by: ", field_id));
                }
                return ::std::result::Result::Err(err);
            };
            __protocol.read_struct_end().await?;





            let data = Self {
                d1: var_1,plain: var_1036,d2: var_2,d3: var_3, _unknown_fields: ::pilota::LinkedBytes::new()
            };
            ::std::result::Result::Ok(data)

            })
        }

                fn size<T: ::pilota::thrift::TLengthProtocol>(&self, __protocol: &mut T) -> usize {
                    #[allow(unused_imports)]
                    use ::pilota::thrift::TLengthProtocolExt;
                    __protocol.struct_begin_len(&::pilota::thrift::TStructIdentifier {
                    name: "Df35",
                }) + self.d1.as_ref().map_or(0, |value| __protocol.struct_field_len(Some(1), value)) +self.plain.as_ref().map_or(0, |value| __protocol.i32_field_len(Some(1036), *value)) +self.d2.as_ref().map_or(0, |value| __protocol.struct_field_len(Some(2), value)) +self.d3.as_ref().map_or(0, |value| __protocol.struct_field_len(Some(3), value)) +self._unknown_fields.size() + __protocol.field_stop_len() + __protocol.struct_end_len()
                }
            }
                                impl ::std::default::Default for Df11 {
                                    fn default() -> Self {
                                        Df11 {
                                            d1: Some(TdStr(::pilota::FastStr::from_static_str("td"))),
plain: ::std::default::Default::default(),
d2: Some(TdTdI32(TdI32(-45i32))),
d3: Some(TdTdStr(TdStr(::pilota::FastStr::from_static_str("tdtd")))),
_unknown_fields: ::pilota::LinkedBytes::new()
                                        }
                                    }
                                }
                            #[derive(PartialOrd)]
#[derive(Hash, Eq, Ord)]
#[derive(Debug)]#[derive(Clone, PartialEq)]
                pub struct Df11 {

                        pub d1: ::std::option::Option<TdStr>,

                        pub plain: ::std::option::Option<i32>,

                        pub d2: ::std::option::Option<TdTdI32>,

                        pub d3: ::std::option::Option<TdTdStr>,pub _unknown_fields: ::pilota::LinkedBytes,
                }
            impl ::pilota::thrift::Message for Df11 {
                fn encode<T: ::pilota::thrift::TOutputProtocol>(
                    &self,
                    __protocol: &mut T,
                ) -> ::std::result::Result<(),::pilota::thrift::ThriftException> {
                    #[allow(unused_imports)]
                    use ::pilota::thrift::TOutputProtocolExt;
                    let struct_ident =::pilota::thrift::TStructIdentifier {
                    name: "Df11",
                };

                __protocol.write_struct_begin(&struct_ident)?;
                if let Some(value) = self.d1.as_ref() {
                        __protocol.write_struct_field(3, value, ::pilota::thrift::TType::Binary)?;
                    }if let Some(value) = self.plain.as_ref() {
                        __protocol.write_i32_field(1014, *value)?;
                    }if let Some(value) = self.d2.as_ref() {
                        __protocol.write_struct_field(4, value, ::pilota::thrift::TType::I32)?;
                    }if let Some(value) = self.d3.as_ref() {
                        __protocol.write_struct_field(17, value, ::pilota::thrift::TType::Binary)?;
                    }for bytes in self._unknown_fields.list.iter() {
                                __protocol.write_bytes_without_len(bytes.clone());
                            }
                __protocol.write_field_stop()?;
                __protocol.write_struct_end()?;
                ::std::result::Result::Ok(())

                }

                fn decode<T: ::pilota::thrift::TInputProtocol>(
                    __protocol: &mut T,
                ) -> ::std::result::Result<Self,::pilota::thrift::ThriftException>  {
                    #[allow(unused_imports)]
                    use ::pilota::{thrift::TLengthProtocolExt, Buf};


            let mut var_3 = Some(TdStr(::pilota::FastStr::from_static_str("td")));let mut var_1014 = None;let mut var_4 = Some(TdTdI32(TdI32(-45i32)));let mut var_17 = Some(TdTdStr(TdStr(::pilota::FastStr::from_static_str("tdtd"))));let mut _unknown_fields = ::pilota::LinkedBytes::new();

            let mut __pilota_decoding_field_id = None;

            __protocol.read_struct_begin()?;
            if let ::std::result::Result::Err(mut err) = (|| {
                    loop {

                let mut __pilota_offset = 0;
            let __pilota_begin_ptr = __protocol.buf().chunk().as_ptr();
                let field_ident = __protocol.read_field_begin()?;
                if field_ident.field_type == ::pilota::thrift::TType::Stop {
                    __pilota_offset += __protocol.field_stop_len();
                    break;
                } else {
                    __pilota_offset += __protocol.field_begin_len(field_ident.field_type, field_ident.id);
                }
                __pilota_decoding_field_id = field_ident.id;
                match field_ident.id {
                    Some(3) if field_ident.field_type == ::pilota::thrift::TType::Binary  => {
                    var_3 = Some(::pilota::thrift::Message::decode(__protocol)?);

                },Some(1014) if field_ident.field_type == ::pilota::thrift::TType::I32  => {
                    var_1014 = Some(__protocol.read_i32()?);

                },Some(4) if field_ident.field_type == ::pilota::thrift::TType::I32  => {
                    var_4 = Some(::pilota::thrift::Message::decode(__protocol)?);

                },Some(17) if field_ident.field_type == ::pilota::thrift::TType::Binary  => {
                    var_17 = Some(::pilota::thrift::Message::decode(__protocol)?);

                },
                    _ => {
                        __pilota_offset += __protocol.skip(field_ident.field_type)?;
                        _unknown_fields.push_back(__protocol.get_bytes(Some(__pilota_begin_ptr), __pilota_offset)?);
                    },
                }

                __protocol.read_field_end()?;
                __pilota_offset += __protocol.field_end_len();

            };
                    ::std::result::Result::Ok::<_, ::pilota::thrift::ThriftException>(())
                })() {
                if let Some(field_id) = __pilota_decoding_field_id {
                    err.prepend_msg(&format!("decode struct `Df11` field(#{}) failed, caused by: ", field_id));
                }
                return ::std::result::Result::Err(err);
            };
            __protocol.read_struct_end()?;





            let data = Self {
                d1: var_3,plain: var_1014,d2: var_4,d3: var_17, _unknown_fields
            };
            ::std::result::Result::Ok(data)

                }

                fn decode_async<'a, T: ::pilota::thrift::TAsyncInputProtocol>(
            __protocol: &'a mut T,
        ) -> ::std::pin::Pin<::std::boxed::Box<dyn ::std::future::Future<Output = ::std::result::Result<Self, ::pilota::thrift::ThriftException>> + Send + 'a>> {
            ::std::boxed::Box::pin(async move {


            let mut var_3 = Some(TdStr(::pilota::FastStr::from_static_str("td")));let mut var_1014 = None;let mut var_4 = Some(TdTdI32(TdI32(-45i32)));let mut var_17 = Some(TdTdStr(TdStr(::pilota::FastStr::from_static_str("tdtd"))));

            let mut __pilota_decoding_field_id = None;

            __protocol.read_struct_begin().await?;
            if let ::std::result::Result::Err(mut err) = async {
                    loop {


                let field_ident = __protocol.read_field_begin().await?;
                if field_ident.field_type == ::pilota::thrift::TType::Stop {

                    break;
                } else {

                }
                __pilota_decoding_field_id = field_ident.id;
                match field_ident.id {
                    Some(3) if field_ident.field_type == ::pilota::thrift::TType::Binary  => {
                    var_3 = Some(<TdStr as ::pilota::thrift::Message>::decode_async(__protocol).await?);

                },Some(1014) if field_ident.field_type == ::pilota::thrift::TType::I32  => {
                    var_1014 = Some(__protocol.read_i32().await?);

                },Some(4) if field_ident.field_type == ::pilota::thrift::TType::I32  => {
                    var_4 = Some(<TdTdI32 as ::pilota::thrift::Message>::decode_async(__protocol).await?);

                },Some(17) if field_ident.field_type == ::pilota::thrift::TType::Binary  => {
                    var_17 = Some(<TdTdStr as ::pilota::thrift::Message>::decode_async(__protocol).await?);

                },
                    _ => {
                        __protocol.skip(field_ident.field_type).await?;

                    },
                }

                __protocol.read_field_end().await?;


            };
                    ::std::result::Result::Ok::<_, ::pilota::thrift::ThriftException>(())
                }.await {
                if let Some(field_id) = __pilota_decoding_field_id {
                    err.prepend_msg(&format!("decode struct `Df11` field(#{}) failed, caused by: ", field_id));
                }
                return ::std::result::Result::Err(err);
            };
            __protocol.read_struct_end().await?;





            let data = Self {
                d1: var_3,plain: var_1014,d2: var_4,d3: var_17, _unknown_fields: ::pilota::LinkedBytes::new()
            };
            ::std::result::Result::Ok(data)

            })
        }

                fn size<T: ::pilota::thrift::TLengthProtocol>(&self, __protocol: &mut T) -> usize {
                    #[allow(unused_imports)]
                    use ::pilota::thrift::TLengthProtocolExt;
                    __protocol.struct_begin_len(&::pilota::thrift::TStructIdentifier {
                    name: "Df11",
                }) + self.d1.as_ref().map_or(0, |value| __protocol.struct_field_len(Some(3), value)) +self.plain.as_ref().map_or(0, |value| __protocol.i32_field_len(Some(1014), *value)) +self.d2.as_ref().map_or(0, |value| __protocol.struct_field_len(Some(4), value)) +self.d3.as_ref().map_or(0, |value| __protocol.struct_field_len(Some(17), value)) +self._unknown_fields.size() + __protocol.field_stop_len() + __protocol.struct_end_len()
                }
            }
                                impl ::std::default::Default for Df66 {
                                    fn default() -> Self {
                                        Df66 {
                                            d1: {
                    let mut map = ::pilota::AHashMap::with_capacity(0);

                    map
                },
plain: ::std::default::Default::default(),
d2: {
                    let mut map = ::pilota::AHashMap::with_capacity(2);
                    map.insert(-1i32, ::pilota::FastStr::from_static_str("m"));map.insert(2i32, ::pilota::FastStr::from_static_str(""));
                    map
                },
d3: {
                    let mut map = ::pilota::AHashMap::with_capacity(1);
                    map.insert(E1::A, ::pilota::FastStr::from_static_str("a"));
                    map
                },
_unknown_fields: ::pilota::LinkedBytes::new()
                                        }
                                    }
                                }
                            #[derive(Debug)]#[derive(Clone, PartialEq)]
                pub struct Df66 {

                        pub d1: ::pilota::AHashMap<::pilota::FastStr, i32>,

                        pub plain: ::std::option::Option<i32>,

                        pub d2: ::pilota::AHashMap<i32, ::pilota::FastStr>,

                        pub d3: ::pilota::AHashMap<E1, ::pilota::FastStr>,pub _unknown_fields: ::pilota::LinkedBytes,
                }
            impl ::pilota::thrift::Message for Df66 {
                fn encode<T: ::pilota::thrift::TOutputProtocol>(
                    &self,
                    __protocol: &mut T,
                ) -> ::std::result::Result<(),::pilota::thrift::ThriftException> {
                    #[allow(unused_imports)]
                    use ::pilota::thrift::TOutputProtocolExt;
                    let struct_ident =::pilota::thrift::TStructIdentifier {
                    name: "Df66",
                };

                __protocol.write_struct_begin(&struct_ident)?;
                __protocol.write_map_field(5, ::pilota::thrift::TType::Binary, ::pilota::thrift::TType::I32, &&self.d1, |__protocol, key| {
                __protocol.write_faststr((key).clone())?;
                ::std::result::Result::Ok(())
            }, |__protocol, val| {
                __protocol.write_i32(*val)?;
                ::std::result::Result::Ok(())
            })?;if let Some(value) = self.plain.as_ref() {
                        __protocol.write_i32_field(1071, *value)?;
                    }__protocol.write_map_field(20, ::pilota::thrift::TType::I32, ::pilota::thrift::TType::Binary, &&self.d2, |__protocol, key| {
                __protocol.write_i32(*key)?;
                ::std::result::Result::Ok(())
            }, |__protocol, val| {
                __protocol.write_faststr((val).clone())?;
                ::std::result::Result::Ok(())
            })?;__protocol.write_map_field(21, ::pilota::thrift::TType::I32, ::pilota::thrift::TType::Binary, &&self.d3, |__protocol, key| {
                __protocol.write_struct(key)?;
                ::std::result::Result::Ok(())
            }, |__protocol, val| {
                __protocol.write_faststr((val).clone())?;
                ::std::result::Result::Ok(())
            })?;for bytes in self._unknown_fields.list.iter() {
                                __protocol.write_bytes_without_len(bytes.clone());
                            }
                __protocol.write_field_stop()?;
                __protocol.write_struct_end()?;
                ::std::result::Result::Ok(())

                }

                fn decode<T: ::pilota::thrift::TInputProtocol>(
                    __protocol: &mut T,
                ) -> ::std::result::Result<Self,::pilota::thrift::ThriftException>  {
                    #[allow(unused_imports)]
                    use ::pilota::{thrift::TLengthProtocolExt, Buf};


            let mut var_5 = None;let mut var_1071 = None;let mut var_20 = None;let mut var_21 = None;let mut _unknown_fields = ::pilota::LinkedBytes::new();

            let mut __pilota_decoding_field_id = None;

            __protocol.read_struct_begin()?;
            if let ::std::result::Result::Err(mut err) = (|| {
                    loop {

                let mut __pilota_offset = 0;
            let __pilota_begin_ptr = __protocol.buf().chunk().as_ptr();
                let field_ident = __protocol.read_field_begin()?;
                if field_ident.field_type == ::pilota::thrift::TType::Stop {
                    __pilota_offset += __protocol.field_stop_len();
                    break;
                } else {
                    __pilota_offset += __protocol.field_begin_len(field_ident.field_type, field_ident.id);
                }
                __pilota_decoding_field_id = field_ident.id;
                match field_ident.id {
                    Some(5) if field_ident.field_type == ::pilota::thrift::TType::Map  => {
                    var_5 = Some({
                        let map_ident = __protocol.read_map_begin()?;
                        let mut val = ::pilota::AHashMap::with_capacity(map_ident.size);
                        for _ in 0..map_ident.size {
                            val.insert(__protocol.read_faststr()?, __protocol.read_i32()?);
                        }
                        __protocol.read_map_end()?;
                        val
                    });

                },Some(1071) if field_ident.field_type == ::pilota::thrift::TType::I32  => {
                    var_1071 = Some(__protocol.read_i32()?);

                },Some(20) if field_ident.field_type == ::pilota::thrift::TType::Map  => {
                    var_20 = Some({
                        let map_ident = __protocol.read_map_begin()?;
                        let mut val = ::pilota::AHashMap::with_capacity(map_ident.size);
                        for _ in 0..map_ident.size {
                            val.insert(__protocol.read_i32()?, __protocol.read_faststr()?);
                        }
                        __protocol.read_map_end()?;
                        val
                    });

                },Some(21) if field_ident.field_type == ::pilota::thrift::TType::Map  => {
                    var_21 = Some({
                        let map_ident = __protocol.read_map_begin()?;
                        let mut val = ::pilota::AHashMap::with_capacity(map_ident.size);
                        for _ in 0..map_ident.size {
                            val.insert(::pilota::thrift::Message::decode(__protocol)?, __protocol.read_faststr()?);
                        }
                        __protocol.read_map_end()?;
                        val
                    });

                },
                    _ => {
                        __pilota_offset += __protocol.skip(field_ident.field_type)?;
                        _unknown_fields.push_back(__protocol.get_bytes(Some(__pilota_begin_ptr), __pilota_offset)?);
                    },
                }

                __protocol.read_field_end()?;
                __pilota_offset += __protocol.field_end_len();

            };
                    ::std::result::Result::Ok::<_, ::pilota::thrift::ThriftException>(())
                })() {
                if let Some(field_id) = __pilota_decoding_field_id {
                    err.prepend_msg(&format!("decode struct `Df66` field(#{}) failed, caused by: ", field_id));
                }
                return ::std::result::Result::Err(err);
            };
            __protocol.read_struct_end()?;



            let var_5 = var_5.unwrap_or_else(|| {
                    let mut map = ::pilota::AHashMap::with_capacity(0);

                    map
                });
let var_20 = var_20.unwrap_or_else(|| {
                    let mut map = ::pilota::AHashMap::with_capacity(2);
                    map.insert(-1i32, ::pilota::FastStr::from_static_str("m"));map.insert(2i32, ::pilota::FastStr::from_static_str(""));
                    map
                });
let var_21 = var_21.unwrap_or_else(|| {
                    let mut map = ::pilota::AHashMap::with_capacity(1);
                    map.insert(E1::A, ::pilota::FastStr::from_static_str("a"));
                    map
                });

            let data = Self {
                d1: var_5,plain: var_1071,d2: var_20,d3: var_21, _unknown_fields
            };
            ::std::result::Result::Ok(data)

                }

                fn decode_async<'a, T: ::pilota::thrift::TAsyncInputProtocol>(
            __protocol: &'a mut T,
        ) -> ::std::pin::Pin<::std::boxed::Box<dyn ::std::future::Future<Output = ::std::result::Result<Self, ::pilota::thrift::ThriftException>> + Send + 'a>> {
            ::std::boxed::Box::pin(async move {


            let mut var_5 = None;let mut var_1071 = None;let mut var_20 = None;let mut var_21 = None;

            let mut __pilota_decoding_field_id = None;

            __protocol.read_struct_begin().await?;
            if let ::std::result::Result::Err(mut err) = async {
                    loop {


                let field_ident = __protocol.read_field_begin().await?;
                if field_ident.field_type == ::pilota::thrift::TType::Stop {

                    break;
                } else {

                }
                __pilota_decoding_field_id = field_ident.id;
                match field_ident.id {
                    Some(5) if field_ident.field_type == ::pilota::thrift::TType::Map  => {
                    var_5 = Some({
                        let map_ident = __protocol.read_map_begin().await?;
                        let mut val = ::pilota::AHashMap::with_capacity(map_ident.size);
                        for _ in 0..map_ident.size {
                            val.insert(__protocol.read_faststr().await?, __protocol.read_i32().await?);
                        }
                        __protocol.read_map_end().await?;
                        val
                    });

                },Some(1071) if field_ident.field_type == ::pilota::thrift::TType::I32  => {
                    var_1071 = Some(__protocol.read_i32().await?);

                },Some(20) if field_ident.field_type == ::pilota::thrift::TType::Map  => {
                    var_20 = Some({
                        let map_ident = __protocol.read_map_begin().await?;
                        let mut val = ::pilota::AHashMap::with_capacity(map_ident.size);
                        for _ in 0..map_ident.size {
                            val.insert(__protocol.read_i32().await?, __protocol.read_faststr().await?);
                        }
                        __protocol.read_map_end().await?;
                        val
                    });

                },Some(21) if field_ident.field_type == ::pilota::thrift::TType::Map  => {
                    var_21 = Some({
                        let map_ident = __protocol.read_map_begin().await?;
                        let mut val = ::pilota::AHashMap::with_capacity(map_ident.size);
                        for _ in 0..map_ident.size {
                            val.insert(<E1 as ::pilota::thrift::Message>::decode_async(__protocol).await?, __protocol.read_faststr().await?);
                        }
                        __protocol.read_map_end().await?;
                        val
                    });

                },
                    _ => {
                        __protocol.skip(field_ident.field_type).await?;

                    },
                }

                __protocol.read_field_end().await?;


            };
                    ::std::result::Result::Ok::<_, ::pilota::thrift::ThriftException>(())
                }.await {
                if let Some(field_id) = __pilota_decoding_field_id {
                    err.prepend_msg(&format!("decode struct `Df66` field(#{}) failed, caused by: ", field_id));
                }
                return ::std::result::Result::Err(err);
            };
            __protocol.read_struct_end().await?;



            let var_5 = var_5.unwrap_or_else(|| {
                    let mut map = ::pilota::AHashMap::with_capacity(0);

                    map
                });
let var_20 = var_20.unwrap_or_else(|| {
                    let mut map = ::pilota::AHashMap::with_capacity(2);
                    map.insert(-1i32, ::pilota::FastStr::from_static_str("m"));map.insert(2i32, ::pilota::FastStr::from_static_str(""));
                    map
                });
let var_21 = var_21.unwrap_or_else(|| {
                    let mut map = ::pilota::AHashMap::with_capacity(1);
                    map.insert(E1::A, ::pilota::FastStr::from_static_str("a"));
                    map
                });

            let data = Self {
                d1: var_5,plain: var_1071,d2: var_20,d3: var_21, _unknown_fields: ::pilota::LinkedBytes::new()
            };
            ::std::result::Result::Ok(data)

            })
        }

                fn size<T: ::pilota::thrift::TLengthProtocol>(&self, __protocol: &mut T) -> usize {
                    #[allow(unused_imports)]
                    use ::pilota::thrift::TLengthProtocolExt;
                    __protocol.struct_begin_len(&::pilota::thrift::TStructIdentifier {
                    name: "Df66",
                }) + __protocol.map_field_len(Some(5), ::pilota::thrift::TType::Binary, ::pilota::thrift::TType::I32, &self.d1, |__protocol, key| {
                __protocol.faststr_len(key)
            }, |__protocol, val| {
                __protocol.i32_len(*val)
            }) +self.plain.as_ref().map_or(0, |value| __protocol.i32_field_len(Some(1071), *value)) +__protocol.map_field_len(Some(20), ::pilota::thrift::TType::I32, ::pilota::thrift::TType::Binary, &self.d2, |__protocol, key| {
                __protocol.i32_len(*key)
            }, |__protocol, val| {
                __protocol.faststr_len(val)
            }) +__protocol.map_field_len(Some(21), ::pilota::thrift::TType::I32, ::pilota::thrift::TType::Binary, &self.d3, |__protocol, key| {
                __protocol.struct_len(key)
            }, |__protocol, val| {
                __protocol.faststr_len(val)
            }) +self._unknown_fields.size() + __protocol.field_stop_len() + __protocol.struct_end_len()
                }
            }#[derive(PartialOrd)]
#[derive(Hash, Eq, Ord)]
#[derive(Debug)]
#[derive(Default)]
            #[derive(Clone, PartialEq)]
            pub struct TdTdStr(pub TdStr);

            impl ::std::ops::Deref for TdTdStr {
                type Target = TdStr;

                fn deref(&self) -> &Self::Target {
                    &self.0
                }
            }

            impl From<TdStr> for TdTdStr {
                fn from(v: TdStr) -> Self {
                    Self(v)
                }
            }


            impl ::pilota::thrift::Message for TdTdStr {
                fn encode<T: ::pilota::thrift::TOutputProtocol>(
                    &self,
                    __protocol: &mut T,
                ) -> ::std::result::Result<(),::pilota::thrift::ThriftException> {
                    #[allow(unused_imports)]
                    use ::pilota::thrift::TOutputProtocolExt;
                    __protocol.write_struct((&**self))?;
                ::std::result::Result::Ok(())
                }

                fn decode<T: ::pilota::thrift::TInputProtocol>(
                    __protocol: &mut T,
                ) -> ::std::result::Result<Self,::pilota::thrift::ThriftException>  {
                    #[allow(unused_imports)]
                    use ::pilota::{thrift::TLengthProtocolExt, Buf};
                    ::std::result::Result::Ok(TdTdStr(::pilota::thrift::Message::decode(__protocol)?))
                }

                fn decode_async<'a, T: ::pilota::thrift::TAsyncInputProtocol>(
            __protocol: &'a mut T,
        ) -> ::std::pin::Pin<::std::boxed::Box<dyn ::std::future::Future<Output = ::std::result::Result<Self, ::pilota::thrift::ThriftException>> + Send + 'a>> {
            ::std::boxed::Box::pin(async move {
                ::std::result::Result::Ok(TdTdStr(<TdStr as ::pilota::thrift::Message>::decode_async(__protocol).await?))
            })
        }

                fn size<T: ::pilota::thrift::TLengthProtocol>(&self, __protocol: &mut T) -> usize {
                    #[allow(unused_imports)]
                    use ::pilota::thrift::TLengthProtocolExt;
                    __protocol.struct_len(&**self)
                }
            }
                                impl ::std::default::Default for Df42 {
                                    fn default() -> Self {
                                        Df42 {
                                            d1: Some({
                    let mut map = ::pilota::AHashMap::with_capacity(0);

                    map
                }),
plain: ::std::default::Default::default(),
d2: Some({
                    let mut map = ::pilota::AHashMap::with_capacity(2);
                    map.insert(-1i32, ::pilota::FastStr::from_static_str("m"));map.insert(2i32, ::pilota::FastStr::from_static_str(""));
                    map
                }),
d3: Some({
                    let mut map = ::pilota::AHashMap::with_capacity(1);
                    map.insert(E1::A, ::pilota::FastStr::from_static_str("a"));
                    map
                }),
_unknown_fields: ::pilota::LinkedBytes::new()
                                        }
                                    }
                                }
                            #[derive(Debug)]#[derive(Clone, PartialEq)]
                pub struct Df42 {

                        pub d1: ::std::option::Option<::pilota::AHashMap<::pilota::FastStr, i32>>,

                        pub plain: ::std::option::Option<i32>,

                        pub d2: ::std::option::Option<::pilota::AHashMap<i32, ::pilota::FastStr>>,

                        pub d3: ::std::option::Option<::pilota::AHashMap<E1, ::pilota::FastStr>>,pub _unknown_fields: ::pilota::LinkedBytes,
                }
            impl ::pilota::thrift::Message for Df42 {
                fn encode<T: ::pilota::thrift::TOutputProtocol>(
                    &self,
                    __protocol: &mut T,
                ) -> ::std::result::Result<(),::pilota::thrift::ThriftException> {
                    #[allow(unused_imports)]
                    use ::pilota::thrift::TOutputProtocolExt;
                    let struct_ident =::pilota::thrift::TStructIdentifier {
                    name: "Df42",
                };

                __protocol.write_struct_begin(&struct_ident)?;
                if let Some(value) = self.d1.as_ref() {
                        __protocol.write_map_field(1, ::pilota::thrift::TType::Binary, ::pilota::thrift::TType::I32, &value, |__protocol, key| {
                __protocol.write_faststr((key).clone())?;
                ::std::result::Result::Ok(())
            }, |__protocol, val| {
                __protocol.write_i32(*val)?;
                ::std::result::Result::Ok(())
            })?;
                    }if let Some(value) = self.plain.as_ref() {
                        __protocol.write_i32_field(1043, *value)?;
                    }if let Some(value) = self.d2.as_ref() {
                        __protocol.write_map_field(15, ::pilota::thrift::TType::I32, ::pilota::thrift::TType::Binary, &value, |__protocol, key| {
                __protocol.write_i32(*key)?;
                ::std::result::Result::Ok(())
            }, |__protocol, val| {
                __protocol.write_faststr((val).clone())?;
                ::std::result::Result::Ok(())
            })?;
                    }if let Some(value) = self.d3.as_ref() {
                        __protocol.write_map_field(16, ::pilota::thrift::TType::I32, ::pilota::thrift::TType::Binary, &value, |__protocol, key| {
                __protocol.write_struct(key)?;
                ::std::result::Result::Ok(())
            }, |__protocol, val| {
                __protocol.write_faststr((val).clone())?;
                ::std::result::Result::Ok(())
            })?;
                    }for bytes in self._unknown_fields.list.iter() {
                                __protocol.write_bytes_without_len(bytes.clone());
                            }
                __protocol.write_field_stop()?;
                __protocol.write_struct_end()?;
                ::std::result::Result::Ok(())

                }

                fn decode<T: ::pilota::thrift::TInputProtocol>(
                    __protocol: &mut T,
                ) -> ::std::result::Result<Self,::pilota::thrift::ThriftException>  {
                    #[allow(unused_imports)]
                    use ::pilota::{thrift::TLengthProtocolExt, Buf};


            let mut var_1 = None;let mut var_1043 = None;let mut var_15 = None;let mut var_16 = None;let mut _unknown_fields = ::pilota::LinkedBytes::new();

            let mut __pilota_decoding_field_id = None;

            __protocol.read_struct_begin()?;
            if let ::std::result::Result::Err(mut err) = (|| {
                    loop {

                let mut __pilota_offset = 0;
            let __pilota_begin_ptr = __protocol.buf().chunk().as_ptr();
                let field_ident = __protocol.read_field_begin()?;
                if field_ident.field_type == ::pilota::thrift::TType::Stop {
                    __pilota_offset += __protocol.field_stop_len();
                    break;
                } else {
                    __pilota_offset += __protocol.field_begin_len(field_ident.field_type, field_ident.id);
                }
                __pilota_decoding_field_id = field_ident.id;
                match field_ident.id {
                    Some(1) if field_ident.field_type == ::pilota::thrift::TType::Map  => {
                    var_1 = Some({
                        let map_ident = __protocol.read_map_begin()?;
                        let mut val = ::pilota::AHashMap::with_capacity(map_ident.size);
                        for _ in 0..map_ident.size {
                            val.insert(__protocol.read_faststr()?, __protocol.read_i32()?);
                        }
                        __protocol.read_map_end()?;
                        val
                    });

                },Some(1043) if field_ident.field_type == ::pilota::thrift::TType::I32  => {
                    var_1043 = Some(__protocol.read_i32()?);

                },Some(15) if field_ident.field_type == ::pilota::thrift::TType::Map  => {
                    var_15 = Some({
                        let map_ident = __protocol.read_map_begin()?;
                        let mut val = ::pilota::AHashMap::with_capacity(map_ident.size);
                        for _ in 0..map_ident.size {
                            val.insert(__protocol.read_i32()?, __protocol.read_faststr()?);
                        }
                        __protocol.read_map_end()?;
                        val
                    });

                },Some(16) if field_ident.field_type == ::pilota::thrift::TType::Map  => {
                    var_16 = Some({
                        let map_ident = __protocol.read_map_begin()?;
                        let mut val = ::pilota::AHashMap::with_capacity(map_ident.size);
                        for _ in 0..map_ident.size {
                            val.insert(::pilota::thrift::Message::decode(__protocol)?, __protocol.read_faststr()?);
                        }
                        __protocol.read_map_end()?;
                        val
                    });

                },
                    _ => {
                        __pilota_offset += __protocol.skip(field_ident.field_type)?;
                        _unknown_fields.push_back(__protocol.get_bytes(Some(__pilota_begin_ptr), __pilota_offset)?);
                    },
                }

                __protocol.read_field_end()?;
                __pilota_offset += __protocol.field_end_len();

            };
                    ::std::result::Result::Ok::<_, ::pilota::thrift::ThriftException>(())
                })() {
                if let Some(field_id) = __pilota_decoding_field_id {
                    err.prepend_msg(&format!("decode struct `Df42` field(#{}) failed, caused by: ", field_id));
                }
                return ::std::result::Result::Err(err);
            };
            __protocol.read_struct_end()?;



            if var_1.is_none() {
                                var_1 = Some({
                    let mut map = ::pilota::AHashMap::with_capacity(0);

                    map
                });
                            }
if var_15.is_none() {
                                var_15 = Some({
                    let mut map = ::pilota::AHashMap::with_capacity(2);
                    map.insert(-1i32, ::pilota::FastStr::from_static_str("m"));map.insert(2i32, ::pilota::FastStr::from_static_str(""));
                    map
                });
                            }
if var_16.is_none() {
                                var_16 = Some({
                    let mut map = ::pilota::AHashMap::with_capacity(1);
                    map.insert(E1::A, ::pilota::FastStr::from_static_str("a"));
                    map
                });
                            }

            let data = Self {
                d1: var_1,plain: var_1043,d2: var_15,d3: var_16, _unknown_fields
            };
            ::std::result::Result::Ok(data)

                }

                fn decode_async<'a, T: ::pilota::thrift::TAsyncInputProtocol>(
            __protocol: &'a mut T,
        ) -> ::std::pin::Pin<::std::boxed::Box<dyn ::std::future::Future<Output = ::std::result::Result<Self, ::pilota::thrift::ThriftException>> + Send + 'a>> {
            ::std::boxed::Box::pin(async move {


            let mut var_1 = None;let mut var_1043 = None;let mut var_15 = None;let mut var_16 = None;

            let mut __pilota_decoding_field_id = None;

            __protocol.read_struct_begin().await?;
            if let ::std::result::Result::Err(mut err) = async {
                    loop {


                let field_ident = __protocol.read_field_begin().await?;
                if field_ident.field_type == ::pilota::thrift::TType::Stop {

                    break;
                } else {

                }
                __pilota_decoding_field_id = field_ident.id;
                match field_ident.id {
                    Some(1) if field_ident.field_type == ::pilota::thrift::TType::Map  => {
                    var_1 = Some({
                        let map_ident = __protocol.read_map_begin().await?;
                        let mut val = ::pilota::AHashMap::with_capacity(map_ident.size);
                        for _ in 0..map_ident.size {
                            val.insert(__protocol.read_faststr().await?, __protocol.read_i32().await?);
                        }
                        __protocol.read_map_end().await?;
                        val
                    });

                },Some(1043) if field_ident.field_type == ::pilota::thrift::TType::I32  => {
                    var_1043 = Some(__protocol.read_i32().await?);

                },Some(15) if field_ident.field_type == ::pilota::thrift::TType::Map  => {
                    var_15 = Some({
                        let map_ident = __protocol.read_map_begin().await?;
                        let mut val = ::pilota::AHashMap::with_capacity(map_ident.size);
                        for _ in 0..map_ident.size {
                            val.insert(__protocol.read_i32().await?, __protocol.read_faststr().await?);
                        }
                        __protocol.read_map_end().await?;
                        val
                    });

                },Some(16) if field_ident.field_type == ::pilota::thrift::TType::Map  => {
                    var_16 = Some({
                        let map_ident = __protocol.read_map_begin().await?;
                        let mut val = ::pilota::AHashMap::with_capacity(map_ident.size);
                        for _ in 0..map_ident.size {
                            val.insert(<E1 as ::pilota::thrift::Message>::decode_async(__protocol).await?, __protocol.read_faststr().await?);
                        }
                        __protocol.read_map_end().await?;
                        val
                    });

                },
                    _ => {
                        __protocol.skip(field_ident.field_type).await?;

                    },
                }

                __protocol.read_field_end().await?;


            };
                    ::std::result::Result::Ok::<_, ::pilota::thrift::ThriftException>(())
                }.await {
                if let Some(field_id) = __pilota_decoding_field_id {
                    err.prepend_msg(&format!("decode struct `Df42` field(#{}) failed, caused by: ", field_id));
                }
                return ::std::result::Result::Err(err);
            };
            __protocol.read_struct_end().await?;



            if var_1.is_none() {
                                var_1 = Some({
                    let mut map = ::pilota::AHashMap::with_capacity(0);

                    map
                });
                            }
if var_15.is_none() {
                                var_15 = Some({
                    let mut map = ::pilota::AHashMap::with_capacity(2);
                    map.insert(-1i32, ::pilota::FastStr::from_static_str("m"));map.insert(2i32, ::pilota::FastStr::from_static_str(""));
                    map
                });
                            }
if var_16.is_none() {
                                var_16 = Some({
                    let mut map = ::pilota::AHashMap::with_capacity(1);
                    map.insert(E1::A, ::pilota::FastStr::from_static_str("a"));
                    map
                });
                            }

            let data = Self {
                d1: var_1,plain: var_1043,d2: var_15,d3: var_16, _unknown_fields: ::pilota::LinkedBytes::new()
            };
            ::std::result::Result::Ok(data)

            })
        }

                fn size<T: ::pilota::thrift::TLengthProtocol>(&self, __protocol: &mut T) -> usize {
                    #[allow(unused_imports)]
                    use ::pilota::thrift::TLengthProtocolExt;
                    __protocol.struct_begin_len(&::pilota::thrift::TStructIdentifier {
                    name: "Df42",
                }) + self.d1.as_ref().map_or(0, |value| __protocol.map_field_len(Some(1), ::pilota::thrift::TType::Binary, ::pilota::thrift::TType::I32, value, |__protocol, key| {
                __protocol.faststr_len(key)
            }, |__protocol, val| {
                __protocol.i32_len(*val)
            })) +self.plain.as_ref().map_or(0, |value| __protocol.i32_field_len(Some(1043), *value)) +self.d2.as_ref().map_or(0, |value| __protocol.map_field_len(Some(15), ::pilota::thrift::TType::I32, ::pilota::thrift::TType::Binary, value, |__protocol, key| {
                __protocol.i32_len(*key)
            }, |__protocol, val| {
                __protocol.faststr_len(val)
            })) +self.d3.as_ref().map_or(0, |value| __protocol.map_field_len(Some(16), ::pilota::thrift::TType::I32, ::pilota::thrift::TType::Binary, value, |__protocol, key| {
                __protocol.struct_len(key)
            }, |__protocol, val| {
                __protocol.faststr_len(val)
            })) +self._unknown_fields.size() + __protocol.field_stop_len() + __protocol.struct_end_len()
                }
            }
                                impl ::std::default::Default for Df18 {
                                    fn default() -> Self {
                                        Df18 {
                                            d1: Some({
                    let mut map = ::pilota::AHashMap::with_capacity(0);

                    map
                }),
plain: ::std::default::Default::default(),
d2: Some({
                    let mut map = ::pilota::AHashMap::with_capacity(2);
                    map.insert(-1i32, ::pilota::FastStr::from_static_str("m"));map.insert(2i32, ::pilota::FastStr::from_static_str(""));
                    map
                }),
d3: Some({
                    let mut map = ::pilota::AHashMap::with_capacity(1);
                    map.insert(E1::A, ::pilota::FastStr::from_static_str("a"));
                    map
                }),
_unknown_fields: ::pilota::LinkedBytes::new()
                                        }
                                    }
                                }
                            #[derive(Debug)]#[derive(Clone, PartialEq)]
                pub struct Df18 {

                        pub d1: ::std::option::Option<::pilota::AHashMap<::pilota::FastStr, i32>>,

                        pub plain: ::std::option::Option<i32>,

                        pub d2: ::std::option::Option<::pilota::AHashMap<i32, ::pilota::FastStr>>,

                        pub d3: ::std::option::Option<::pilota::AHashMap<E1, ::pilota::FastStr>>,pub _unknown_fields: ::pilota::LinkedBytes,
                }
            impl ::pilota::thrift::Message for Df18 {
                fn encode<T: ::pilota::thrift::TOutputProtocol>(
                    &self,
                    __protocol: &mut T,
                ) -> ::std::result::Result<(),::pilota::thrift::ThriftException> {
                    #[allow(unused_imports)]
                    use ::pilota::thrift::TOutputProtocolExt;
                    let struct_ident =::pilota::thrift::TStructIdentifier {
                    name: "Df18",
                };

                __protocol.write_struct_begin(&struct_ident)?;
                if let Some(value) = self.d1.as_ref() {
                        __protocol.write_map_field(1, ::pilota::thrift::TType::Binary, ::pilota::thrift::TType::I32, &value, |__protocol, key| {
                __protocol.write_faststr((key).clone())?;
                ::std::result::Result::Ok(())
            }, |__protocol, val| {
                __protocol.write_i32(*val)?;
                ::std::result::Result::Ok(())
            })?;
                    }if let Some(value) = self.plain.as_ref() {
                        __protocol.write_i32_field(1019, *value)?;
                    }if let Some(value) = self.d2.as_ref() {
                        __protocol.write_map_field(2, ::pilota::thrift::TType::I32, ::pilota::thrift::TType::Binary, &value, |__protocol, key| {
                __protocol.write_i32(*key)?;
                ::std::result::Result::Ok(())
            }, |__protocol, val| {
                __protocol.write_faststr((val).clone())?;
                ::std::result::Result::Ok(())
            })?;
                    }if let Some(value) = self.d3.as_ref() {
                        __protocol.write_map_field(3, ::pilota::thrift::TType::I32, ::pilota::thrift::TType::Binary, &value, |__protocol, key| {
                __protocol.write_struct(key)?;
                ::std::result::Result::Ok(())
            }, |__protocol, val| {
                __protocol.write_faststr((val).clone())?;
                ::std::result::Result::Ok(())
            })?;
                    }for bytes in self._unknown_fields.list.iter() {
                                __protocol.write_bytes_without_len(bytes.clone());
                            }
                __protocol.write_field_stop()?;
                __protocol.write_struct_end()?;
                ::std::result::Result::Ok(())

                }

                fn decode<T: ::pilota::thrift::TInputProtocol>(
                    __protocol: &mut T,
                ) -> ::std::result::Result<Self,::pilota::thrift::ThriftException>  {
                    #[allow(unused_imports)]
                    use ::pilota::{thrift::TLengthProtocolExt, Buf};


            let mut var_1 = None;let mut var_1019 = None;let mut var_2 = None;let mut var_3 = None;let mut _unknown_fields = ::pilota::LinkedBytes::new();

            let mut __pilota_decoding_field_id = None;

            __protocol.read_struct_begin()?;
            if let ::std::result::Result::Err(mut err) = (|| {
                    loop {

                let mut __pilota_offset = 0;
            let __pilota_begin_ptr = __protocol.buf().chunk().as_ptr();
                let field_ident = __protocol.read_field_begin()?;
                if field_ident.field_type == ::pilota::thrift::TType::Stop {
                    __pilota_offset += __protocol.field_stop_len();
                    break;
                } else {
                    __pilota_offset += __protocol.field_begin_len(field_ident.field_type, field_ident.id);
                }
                __pilota_decoding_field_id = field_ident.id;
                match field_ident.id {
                    Some(1) if field_ident.field_type == ::pilota::thrift::TType::Map  => {
                    var_1 = Some({
                        let map_ident = __protocol.read_map_begin()?;
                        let mut val = ::pilota::AHashMap::with_capacity(map_ident.size);
                        for _ in 0..map_ident.size {
                            val.insert(__protocol.read_faststr()?, __protocol.read_i32()?);
                        }
                        __protocol.read_map_end()?;
                        val
                    });

                },Some(1019) if field_ident.field_type == ::pilota::thrift::TType::I32  => {
                    var_1019 = Some(__protocol.read_i32()?);

                },Some(2) if field_ident.field_type == ::pilota::thrift::TType::Map  => {
                    var_2 = Some({
                        let map_ident = __protocol.read_map_begin()?;
                        let mut val = ::pilota::AHashMap::with_capacity(map_ident.size);
                        for _ in 0..map_ident.size {
                            val.insert(__protocol.read_i32()?, __protocol.read_faststr()?);
                        }
                        __protocol.read_map_end()?;
                        val
                    });

                },Some(3) if field_ident.field_type == ::pilota::thrift::TType::Map  => {
                    var_3 = Some({
                        let map_ident = __protocol.read_map_begin()?;
                        let mut val = ::pilota::AHashMap::with_capacity(map_ident.size);
                        for _ in 0..map_ident.size {
                            val.insert(::pilota::thrift::Message::decode(__protocol)?, __protocol.read_faststr()?);
                        }
                        __protocol.read_map_end()?;
                        val
                    });

                },
                    _ => {
                        __pilota_offset += __protocol.skip(field_ident.field_type)?;
                        _unknown_fields.push_back(__protocol.get_bytes(Some(__pilota_begin_ptr), __pilota_offset)?);
                    },
                }

                __protocol.read_field_end()?;
                __pilota_offset += __protocol.field_end_len();

            };
                    ::std::result::Result::Ok::<_, ::pilota::thrift::ThriftException>(())
                })() {
                if let Some(field_id) = __pilota_decoding_field_id {
                    err.prepend_msg(&format!("decode struct `Df18` field(#{}) failed, caused by: ", field_id));
                }
                return ::std::result::Result::Err(err);
            };
            __protocol.read_struct_end()?;



            if var_1.is_none() {
                                var_1 = Some({
                    let mut map = ::pilota::AHashMap::with_capacity(0);

                    map
                });
                            }
if var_2.is_none() {
                                var_2 = Some({
                    let mut map = ::pilota::AHashMap::with_capacity(2);
                    map.insert(-1i32, ::pilota::FastStr::from_static_str("m"));map.insert(2i32, ::pilota::FastStr::from_static_str(""));
                    map
                });
                            }
if var_3.is_none() {
                                var_3 = Some({
                    let mut map = ::pilota::AHashMap::with_capacity(1);
                    map.insert(E1::A, ::pilota::FastStr::from_static_str("a"));
                    map
                });
                            }

            let data = Self {
                d1: var_1,plain: var_1019,d2: var_2,d3: var_3, _unknown_fields
            };
            ::std::result::Result::Ok(data)

                }

                fn decode_async<'a, T: ::pilota::thrift::TAsyncInputProtocol>(
            __protocol: &'a mut T,
        ) -> ::std::pin::Pin<::std::boxed::Box<dyn ::std::future::Future<Output = ::std::result::Result<Self, ::pilota::thrift::ThriftException>> + Send + 'a>> {
            ::std::boxed::Box::pin(async move {


            let mut var_1 = None;let mut var_1019 = None;let mut var_2 = None;let mut var_3 = None;

            let mut __pilota_decoding_field_id = None;

            __protocol.read_struct_begin().await?;
            if let ::std::result::Result::Err(mut err) = async {
                    loop {


                let field_ident = __protocol.read_field_begin().await?;
                if field_ident.field_type == ::pilota::thrift::TType::Stop {

                    break;
                } else {

                }
                __pilota_decoding_field_id = field_ident.id;
                match field_ident.id {
                    Some(1) if field_ident.field_type == ::pilota::thrift::TType::Map  => {
                    var_1 = Some({
                        let map_ident = __protocol.read_map_begin().await?;
                        let mut val = ::pilota::AHashMap::with_capacity(map_ident.size);
                        for _ in 0..map_ident.size {
                            val.insert(__protocol.read_faststr().await?, __protocol.read_i32().await?);
                        }
                        __protocol.read_map_end().await?;
                        val
                    });

                },Some(1019) if field_ident.field_type == ::pilota::thrift::TType::I32  => {
                    var_1019 = Some(__protocol.read_i32().await?);

                },Some(2) if field_ident.field_type == ::pilota::thrift::TType::Map  => {
                    var_2 = Some({
                        let map_ident = __protocol.read_map_begin().await?;
                        let mut val = ::pilota::AHashMap::with_capacity(map_ident.size);
                        for _ in 0..map_ident.size {
                            val.insert(__protocol.read_i32().await?, __protocol.read_faststr().await?);
                        }
                        __protocol.read_map_end().await?;
                        val
                    });

                },Some(3) if field_ident.field_type == ::pilota::thrift::TType::Map  => {
                    var_3 = Some({
                        let map_ident = __protocol.read_map_begin().await?;
                        let mut val = ::pilota::AHashMap::with_capacity(map_ident.size);
                        for _ in 0..map_ident.size {
                            val.insert(<E1 as ::pilota::thrift::Message>::decode_async(__protocol).await?, __protocol.read_faststr().await?);
                        }
                        __protocol.read_map_end().await?;
                        val
                    });

                },
                    _ => {
                        __protocol.skip(field_ident.field_type).await?;

                    },
                }

                __protocol.read_field_end().await?;


            };
                    ::std::result::Result::Ok::<_, ::pilota::thrift::ThriftException>(())
                }.await {
                if let Some(field_id) = __pilota_decoding_field_id {
                    err.prepend_msg(&format!("decode struct `Df18` field(#{}) failed, caused by: ", field_id));
                }
                return ::std::result::Result::Err(err);
            };
            __protocol.read_struct_end().await?;



            if var_1.is_none() {
                                var_1 = Some({
                    let mut map = ::pilota::AHashMap::with_capacity(0);

                    map
                });
                            }
if var_2.is_none() {
                                var_2 = Some({
                    let mut map = ::pilota::AHashMap::with_capacity(2);
                    map.insert(-1i32, ::pilota::FastStr::from_static_str("m"));map.insert(2i32, ::pilota::FastStr::from_static_str(""));
                    map
                });
                            }
if var_3.is_none() {
                                var_3 = Some({
                    let mut map = ::pilota::AHashMap::with_capacity(1);
                    map.insert(E1::A, ::pilota::FastStr::from_static_str("a"));
                    map
                });
                            }

            let data = Self {
                d1: var_1,plain: var_1019,d2: var_2,d3: var_3, _unknown_fields: ::pilota::LinkedBytes::new()
            };
            ::std::result::Result::Ok(data)

            })
        }

                fn size<T: ::pilota::thrift::TLengthProtocol>(&self, __protocol: &mut T) -> usize {
                    #[allow(unused_imports)]
                    use ::pilota::thrift::TLengthProtocolExt;
                    __protocol.struct_begin_len(&::pilota::thrift::TStructIdentifier {
                    name: "Df18",
                }) + self.d1.as_ref().map_or(0, |value| __protocol.map_field_len(Some(1), ::pilota::thrift::TType::Binary, ::pilota::thrift::TType::I32, value, |__protocol, key| {
                __protocol.faststr_len(key)
            }, |__protocol, val| {
                __protocol.i32_len(*val)
            })) +self.plain.as_ref().map_or(0, |value| __protocol.i32_field_len(Some(1019), *value)) +self.d2.as_ref().map_or(0, |value| __protocol.map_field_len(Some(2), ::pilota::thrift::TType::I32, ::pilota::thrift::TType::Binary, value, |__protocol, key| {
                __protocol.i32_len(*key)
            }, |__protocol, val| {
                __protocol.faststr_len(val)
            })) +self.d3.as_ref().map_or(0, |value| __protocol.map_field_len(Some(3), ::pilota::thrift::TType::I32, ::pilota::thrift::TType::Binary, value, |__protocol, key| {
                __protocol.struct_len(key)
            }, |__protocol, val| {
                __protocol.faststr_len(val)
            })) +self._unknown_fields.size() + __protocol.field_stop_len() + __protocol.struct_end_len()
                }
            }pub const K_STR: &'static str = "konst";
                                impl ::std::default::Default for Df49 {
                                    fn default() -> Self {
                                        Df49 {
                                            d1: false,
plain: ::std::default::Default::default(),
d2: -128i8,
d3: 127i8,
_unknown_fields: ::pilota::LinkedBytes::new()
                                        }
                                    }
                                }
                            #[derive(PartialOrd)]
#[derive(Hash, Eq, Ord)]
#[derive(Debug)]#[derive(Clone, PartialEq)]
                pub struct Df49 {

                        pub d1: bool,

                        pub plain: ::std::option::Option<i32>,

                        pub d2: i8,

                        pub d3: i8,pub _unknown_fields: ::pilota::LinkedBytes,
                }
            impl ::pilota::thrift::Message for Df49 {
                fn encode<T: ::pilota::thrift::TOutputProtocol>(
                    &self,
                    __protocol: &mut T,
                ) -> ::std::result::Result<(),::pilota::thrift::ThriftException> {
                    #[allow(unused_imports)]
                    use ::pilota::thrift::TOutputProtocolExt;
                    let struct_ident =::pilota::thrift::TStructIdentifier {
                    name: "Df49",
                };

                __protocol.write_struct_begin(&struct_ident)?;
                __protocol.write_bool_field(127, *&self.d1)?;if let Some(value) = self.plain.as_ref() {
                        __protocol.write_i32_field(1176, *value)?;
                    }__protocol.write_i8_field(128, *&self.d2)?;__protocol.write_i8_field(300, *&self.d3)?;for bytes in self._unknown_fields.list.iter() {
                                __protocol.write_bytes_without_len(bytes.clone());
                            }
                __protocol.write_field_stop()?;
                __protocol.write_struct_end()?;
                ::std::result::Result::Ok(())

                }

                fn decode<T: ::pilota::thrift::TInputProtocol>(
                    __protocol: &mut T,
                ) -> ::std::result::Result<Self,::pilota::thrift::ThriftException>  {
                    #[allow(unused_imports)]
                    use ::pilota::{thrift::TLengthProtocolExt, Buf};


            let mut var_127 = false;let mut var_1176 = None;let mut var_128 = -128i8;let mut var_300 = 127i8;let mut _unknown_fields = ::pilota::LinkedBytes::new();

            let mut __pilota_decoding_field_id = None;

            __protocol.read_struct_begin()?;
            if let ::std::result::Result::Err(mut err) = (|| {
                    loop {

                let mut __pilota_offset = 0;
            let __pilota_begin_ptr = __protocol.buf().chunk().as_ptr();
                let field_ident = __protocol.read_field_begin()?;
                if field_ident.field_type == ::pilota::thrift::TType::Stop {
                    __pilota_offset += __protocol.field_stop_len();
                    break;
                } else {
                    __pilota_offset += __protocol.field_begin_len(field_ident.field_type, field_ident.id);
                }
                __pilota_decoding_field_id = field_ident.id;
                match field_ident.id {
                    Some(127) if field_ident.field_type == ::pilota::thrift::TType::Bool  => {
                    var_127 = __protocol.read_bool()?;

                },Some(1176) if field_ident.field_type == ::pilota::thrift::TType::I32  => {
                    var_1176 = Some(__protocol.read_i32()?);

                },Some(128) if field_ident.field_type == ::pilota::thrift::TType::I8  => {
                    var_128 = __protocol.read_i8()?;

                },Some(300) if field_ident.field_type == ::pilota::thrift::TType::I8  => {
                    var_300 = __protocol.read_i8()?;

                },
                    _ => {
                        __pilota_offset += __protocol.skip(field_ident.field_type)?;
                        _unknown_fields.push_back(__protocol.get_bytes(Some(__pilota_begin_ptr), __pilota_offset)?);
                    },
                }

                __protocol.read_field_end()?;
                __pilota_offset += __protocol.field_end_len();

            };
                    ::std::result::Result::Ok::<_, ::pilota::thrift::ThriftException>(())
                })() {
                if let Some(field_id) = __pilota_decoding_field_id {
                    err.prepend_msg(&format!("decode struct `Df49` field(#{}) failed, caused by: ", field_id));
                }
                return ::std::result::Result::Err(err);
            };
            __protocol.read_struct_end()?;





            let data = Self {
                d1: var_127,plain: var_1176,d2: var_128,d3: var_300, _unknown_fields
            };
            ::std::result::Result::Ok(data)

                }

                fn decode_async<'a, T: ::pilota::thrift::TAsyncInputProtocol>(
            __protocol: &'a mut T,
        ) -> ::std::pin::Pin<::std::boxed::Box<dyn ::std::future::Future<Output = ::std::result::Result<Self, ::pilota::thrift::ThriftException>> + Send + 'a>> {
            ::std::boxed::Box::pin(async move {


            let mut var_127 = false;let mut var_1176 = None;let mut var_128 = -128i8;let mut var_300 = 127i8;

            let mut __pilota_decoding_field_id = None;

            __protocol.read_struct_begin().await?;
            if let ::std::result::Result::Err(mut err) = async {
                    loop {


                let field_ident = __protocol.read_field_begin().await?;
                if field_ident.field_type == ::pilota::thrift::TType::Stop {

                    break;
                } else {

                }
                __pilota_decoding_field_id = field_ident.id;
                match field_ident.id {
                    Some(127) if field_ident.field_type == ::pilota::thrift::TType::Bool  => {
                    var_127 = __protocol.read_bool().await?;

                },Some(1176) if field_ident.field_type == ::pilota::thrift::TType::I32  => {
                    var_1176 = Some(__protocol.read_i32().await?);

                },Some(128) if field_ident.field_type == ::pilota::thrift::TType::I8  => {
                    var_128 = __protocol.read_i8().await?;

                },Some(300) if field_ident.field_type == ::pilota::thrift::TType::I8  => {
                    var_300 = __protocol.read_i8().await?;

                },
                    _ => {
                        __protocol.skip(field_ident.field_type).await?;

                    },
                }

                __protocol.read_field_end().await?;


            };
                    ::std::result::Result::Ok::<_, ::pilota::thrift::ThriftException>(())
                }.await {
                if let Some(field_id) = __pilota_decoding_field_id {
                    err.prepend_msg(&format!("decode struct `Df49` field(#{}) failed, caused by: ", field_id));
                }
                return ::std::result::Result::Err(err);
            };
            __protocol.read_struct_end().await?;





            let data = Self {
                d1: var_127,plain: var_1176,d2: var_128,d3: var_300, _unknown_fields: ::pilota::LinkedBytes::new()
            };
            ::std::result::Result::Ok(data)

            })
        }

                fn size<T: ::pilota::thrift::TLengthProtocol>(&self, __protocol: &mut T) -> usize {
                    #[allow(unused_imports)]
                    use ::pilota::thrift::TLengthProtocolExt;
                    __protocol.struct_begin_len(&::pilota::thrift::TStructIdentifier {
                    name: "Df49",
                }) + __protocol.bool_field_len(Some(127), *&self.d1) +self.plain.as_ref().map_or(0, |value| __protocol.i32_field_len(Some(1176), *value)) +__protocol.i8_field_len(Some(128), *&self.d2) +__protocol.i8_field_len(Some(300), *&self.d3) +self._unknown_fields.size() + __protocol.field_stop_len() + __protocol.struct_end_len()
                }
            }
                                impl ::std::default::Default for Df25 {
                                    fn default() -> Self {
                                        Df25 {
                                            d1: Some(false),
plain: ::std::default::Default::default(),
d2: Some(-128i8),
d3: Some(127i8),
_unknown_fields: ::pilota::LinkedBytes::new()
                                        }
                                    }
                                }
                            #[derive(PartialOrd)]
#[derive(Hash, Eq, Ord)]
#[derive(Debug)]#[derive(Clone, PartialEq)]
                pub struct Df25 {

                        pub d1: ::std::option::Option<bool>,

                        pub plain: ::std::option::Option<i32>,

                        pub d2: ::std::option::Option<i8>,

                        pub d3: ::std::option::Option<i8>,pub _unknown_fields: ::pilota::LinkedBytes,
                }
            impl ::pilota::thrift::Message for Df25 {
                fn encode<T: ::pilota::thrift::TOutputProtocol>(
                    &self,
                    __protocol: &mut T,
                ) -> ::std::result::Result<(),::pilota::thrift::ThriftException> {
                    #[allow(unused_imports)]
                    use ::pilota::thrift::TOutputProtocolExt;
                    let struct_ident =::pilota::thrift::TStructIdentifier {
                    name: "Df25",
                };

                __protocol.write_struct_begin(&struct_ident)?;
                if let Some(value) = self.d1.as_ref() {
                        __protocol.write_bool_field(5, *value)?;
                    }if let Some(value) = self.plain.as_ref() {
                        __protocol.write_i32_field(1030, *value)?;
                    }if let Some(value) = self.d2.as_ref() {
                        __protocol.write_i8_field(20, *value)?;
                    }if let Some(value) = self.d3.as_ref() {
                        __protocol.write_i8_field(21, *value)?;
                    }for bytes in self._unknown_fields.list.iter() {
                                __protocol.write_bytes_without_len(bytes.clone());
                            }
                __protocol.write_field_stop()?;
                __protocol.write_struct_end()?;
                ::std::result::Result::Ok(())

                }

                fn decode<T: ::pilota::thrift::TInputProtocol>(
                    __protocol: &mut T,
                ) -> ::std::result::Result<Self,::pilota::thrift::ThriftException>  {
                    #[allow(unused_imports)]
                    use ::pilota::{thrift::TLengthProtocolExt, Buf};


            let mut var_5 = Some(false);let mut var_1030 = None;let mut var_20 = Some(-128i8);let mut var_21 = Some(127i8);let mut _unknown_fields = ::pilota::LinkedBytes::new();

            let mut __pilota_decoding_field_id = None;

            __protocol.read_struct_begin()?;
            if let ::std::result::Result::Err(mut err) = (|| {
                    loop {

                let mut __pilota_offset = 0;
            let __pilota_begin_ptr = __protocol.buf().chunk().as_ptr();
                let field_ident = __protocol.read_field_begin()?;
                if field_ident.field_type == ::pilota::thrift::TType::Stop {
                    __pilota_offset += __protocol.field_stop_len();
                    break;
                } else {
                    __pilota_offset += __protocol.field_begin_len(field_ident.field_type, field_ident.id);
                }
                __pilota_decoding_field_id = field_ident.id;
                match field_ident.id {
                    Some(5) if field_ident.field_type == ::pilota::thrift::TType::Bool  => {
                    var_5 = Some(__protocol.read_bool()?);

                },Some(1030) if field_ident.field_type == ::pilota::thrift::TType::I32  => {
                    var_1030 = Some(__protocol.read_i32()?);

                },Some(20) if field_ident.field_type == ::pilota::thrift::TType::I8  => {
                    var_20 = Some(__protocol.read_i8()?);

                },Some(21) if field_ident.field_type == ::pilota::thrift::TType::I8  => {
                    var_21 = Some(__protocol.read_i8()?);

                },
                    _ => {
                        __pilota_offset += __protocol.skip(field_ident.field_type)?;
                        _unknown_fields.push_back(__protocol.get_bytes(Some(__pilota_begin_ptr), __pilota_offset)?);
                    },
                }

                __protocol.read_field_end()?;
                __pilota_offset += __protocol.field_end_len();

            };
                    ::std::result::Result::Ok::<_, ::pilota::thrift::ThriftException>(())
                })() {
                if let Some(field_id) = __pilota_decoding_field_id {
                    err.prepend_msg(&format!("decode struct `Df25` field(#{}) failed, caused by: ", field_id));
                }
                return ::std::result::Result::Err(err);
            };
            __protocol.read_struct_end()?;





            let data = Self {
                d1: var_5,plain: var_1030,d2: var_20,d3: var_21, _unknown_fields
            };
            ::std::result::Result::Ok(data)

                }

                fn decode_async<'a, T: ::pilota::thrift::TAsyncInputProtocol>(
            __protocol: &'a mut T,
        ) -> ::std::pin::Pin<::std::boxed::Box<dyn ::std::future::Future<Output = ::std::result::Result<Self, ::pilota::thrift::ThriftException>> + Send + 'a>> {
            ::std::boxed::Box::pin(async move {


            let mut var_5 = Some(false);let mut var_1030 = None;let mut var_20 = Some(-128i8);let mut var_21 = Some(127i8);

            let mut __pilota_decoding_field_id = None;

            __protocol.read_struct_begin().await?;
            if let ::std::result::Result::Err(mut err) = async {
                    loop {


                let field_ident = __protocol.read_field_begin().await?;
                if field_ident.field_type == ::pilota::thrift::TType::Stop {

                    break;
                } else {

                }
                __pilota_decoding_field_id = field_ident.id;
                match field_ident.id {
                    Some(5) if field_ident.field_type == ::pilota::thrift::TType::Bool  => {
                    var_5 = Some(__protocol.read_bool().await?);

                },Some(1030) if field_ident.field_type == ::pilota::thrift::TType::I32  => {
                    var_1030 = Some(__protocol.read_i32().await?);

                },Some(20) if field_ident.field_type == ::pilota::thrift::TType::I8  => {
                    var_20 = Some(__protocol.read_i8().await?);

                },Some(21) if field_ident.field_type == ::pilota::thrift::TType::I8  => {
                    var_21 = Some(__protocol.read_i8().await?);

                },
                    _ => {
                        __protocol.skip(field_ident.field_type).await?;

                    },
                }

                __protocol.read_field_end().await?;


            };
                    ::std::result::Result::Ok::<_, ::pilota::thrift::ThriftException>(())
                }.await {
                if let Some(field_id) = __pilota_decoding_field_id {
                    err.prepend_msg(&format!("decode struct `Df25` field(#{}) failed, caused by: ", field_id));
                }
                return ::std::result::Result::Err(err);
            };
            __protocol.read_struct_end().await?;





            let data = Self {
                d1: var_5,plain: var_1030,d2: var_20,d3: var_21, _unknown_fields: ::pilota::LinkedBytes::new()
            };
            ::std::result::Result::Ok(data)

            })
        }

                fn size<T: ::pilota::thrift::TLengthProtocol>(&self, __protocol: &mut T) -> usize {
                    #[allow(unused_imports)]
                    use ::pilota::thrift::TLengthProtocolExt;
                    __protocol.struct_begin_len(&::pilota::thrift::TStructIdentifier {
                    name: "Df25",
                }) + self.d1.as_ref().map_or(0, |value| __protocol.bool_field_len(Some(5), *value)) +self.plain.as_ref().map_or(0, |value| __protocol.i32_field_len(Some(1030), *value)) +self.d2.as_ref().map_or(0, |value| __protocol.i8_field_len(Some(20), *value)) +self.d3.as_ref().map_or(0, |value| __protocol.i8_field_len(Some(21), *value)) +self._unknown_fields.size() + __protocol.field_stop_len() + __protocol.struct_end_len()
                }
            }#[derive(PartialOrd)]
#[derive(Hash, Eq, Ord)]
#[derive(Debug)]
#[derive(Default)]#[derive(Clone, PartialEq)]
                pub struct DfOuter {

                        pub first: ::std::option::Option<Df0>,

                        pub mid: ::std::option::Option<Df37>,

                        pub many: ::std::option::Option<::std::vec::Vec<DfAnn>>,pub _unknown_fields: ::pilota::LinkedBytes,
                }
            impl ::pilota::thrift::Message for DfOuter {
                fn encode<T: ::pilota::thrift::TOutputProtocol>(
                    &self,
                    __protocol: &mut T,
                ) -> ::std::result::Result<(),::pilota::thrift::ThriftException> {
                    #[allow(unused_imports)]
                    use ::pilota::thrift::TOutputProtocolExt;
                    let struct_ident =::pilota::thrift::TStructIdentifier {
                    name: "DfOuter",
                };

                __protocol.write_struct_begin(&struct_ident)?;
                if let Some(value) = self.first.as_ref() {
                        __protocol.write_struct_field(1, value, ::pilota::thrift::TType::Struct)?;
                    }if let Some(value) = self.mid.as_ref() {
                        __protocol.write_struct_field(2, value, ::pilota::thrift::TType::Struct)?;
                    }if let Some(value) = self.many.as_ref() {
                        __protocol.write_list_field(3, ::pilota::thrift::TType::Struct, &value, |__protocol, val| {
                        __protocol.write_struct(val)?;
                        ::std::result::Result::Ok(())
                    })?;
                    }for bytes in self._unknown_fields.list.iter() {
                                __protocol.write_bytes_without_len(bytes.clone());
                            }
                __protocol.write_field_stop()?;
                __protocol.write_struct_end()?;
                ::std::result::Result::Ok(())

                }

                fn decode<T: ::pilota::thrift::TInputProtocol>(
                    __protocol: &mut T,
                ) -> ::std::result::Result<Self,::pilota::thrift::ThriftException>  {
                    #[allow(unused_imports)]
                    use ::pilota::{thrift::TLengthProtocolExt, Buf};


            let mut var_1 = None;let mut var_2 = None;let mut var_3 = None;let mut _unknown_fields = ::pilota::LinkedBytes::new();

            let mut __pilota_decoding_field_id = None;

            __protocol.read_struct_begin()?;
            if let ::std::result::Result::Err(mut err) = (|| {
                    loop {

                let mut __pilota_offset = 0;
            let __pilota_begin_ptr = __protocol.buf().chunk().as_ptr();
                let field_ident = __protocol.read_field_begin()?;
                if field_ident.field_type == ::pilota::thrift::TType::Stop {
                    __pilota_offset += __protocol.field_stop_len();
                    break;
                } else {
                    __pilota_offset += __protocol.field_begin_len(field_ident.field_type, field_ident.id);
                }
                __pilota_decoding_field_id = field_ident.id;
                match field_ident.id {
                    Some(1) if field_ident.field_type == ::pilota::thrift::TType::Struct  => {
                    var_1 = Some(::pilota::thrift::Message::decode(__protocol)?);

                },Some(2) if field_ident.field_type == ::pilota::thrift::TType::Struct  => {
                    var_2 = Some(::pilota::thrift::Message::decode(__protocol)?);

                },Some(3) if field_ident.field_type == ::pilota::thrift::TType::List  => {
                    var_3 = Some(unsafe {
                            let list_ident = __protocol.read_list_begin()?;
                            let mut val: ::std::vec::Vec<DfAnn> = ::std::vec::Vec::with_capacity(list_ident.size);
                            for i in 0..list_ident.size {
                                val.as_mut_ptr().offset(i as isize).write(::pilota::thrift::Message::decode(__protocol)?);
                            };
                            val.set_len(list_ident.size);
                            __protocol.read_list_end()?;
                            val
                        });

                },
                    _ => {
                        __pilota_offset += __protocol.skip(field_ident.field_type)?;
                        _unknown_fields.push_back(__protocol.get_bytes(Some(__pilota_begin_ptr), __pilota_offset)?);
                    },
                }

                __protocol.read_field_end()?;
                __pilota_offset += __protocol.field_end_len();

            };
                    ::std::result::Result::Ok::<_, ::pilota::thrift::ThriftException>(())
                })() {
                if let Some(field_id) = __pilota_decoding_field_id {
                    err.prepend_msg(&format!("decode struct `DfOuter` field(#{}) failed, caused by: ", field_id));
                }
                return ::std::result::Result::Err(err);
            };
            __protocol.read_struct_end()?;





            let data = Self {
                first: var_1,mid: var_2,many: var_3, _unknown_fields
            };
            ::std::result::Result::Ok(data)

                }

                fn decode_async<'a, T: ::pilota::thrift::TAsyncInputProtocol>(
            __protocol: &'a mut T,
        ) -> ::std::pin::Pin<::std::boxed::Box<dyn ::std::future::Future<Output = ::std::result::Result<Self, ::pilota::thrift::ThriftException>> + Send + 'a>> {
            ::std::boxed::Box::pin(async move {


            let mut var_1 = None;let mut var_2 = None;let mut var_3 = None;

            let mut __pilota_decoding_field_id = None;

            __protocol.read_struct_begin().await?;
            if let ::std::result::Result::Err(mut err) = async {
                    loop {


                let field_ident = __protocol.read_field_begin().await?;
                if field_ident.field_type == ::pilota::thrift::TType::Stop {

                    break;
                } else {

                }
                __pilota_decoding_field_id = field_ident.id;
                match field_ident.id {
                    Some(1) if field_ident.field_type == ::pilota::thrift::TType::Struct  => {
                    var_1 = Some(<Df0 as ::pilota::thrift::Message>::decode_async(__protocol).await?);

                },Some(2) if field_ident.field_type == ::pilota::thrift::TType::Struct  => {
                    var_2 = Some(<Df37 as ::pilota::thrift::Message>::decode_async(__protocol).await?);

                },Some(3) if field_ident.field_type == ::pilota::thrift::TType::List  => {
                    var_3 = Some({
                            let list_ident = __protocol.read_list_begin().await?;
                            let mut val = ::std::vec::Vec::with_capacity(list_ident.size);
                            for _ in 0..list_ident.size {
                                val.push(<DfAnn as ::pilota::thrift::Message>::decode_async(__protocol).await?);
                            };
                            __protocol.read_list_end().await?;
                            val
                        });

                },
                    _ => {
                        __protocol.skip(field_ident.field_type).await?;

                    },
                }

                __protocol.read_field_end().await?;


            };
                    ::std::result::Result::Ok::<_, ::pilota::thrift::ThriftException>(())
                }.await {
                if let Some(field_id) = __pilota_decoding_field_id {
                    err.prepend_msg(&format!("decode struct `DfOuter` field(#{}) failed, caused by: ", field_id));
                }
                return ::std::result::Result::Err(err);
            };
            __protocol.read_struct_end().await?;





            let data = Self {
                first: var_1,mid: var_2,many: var_3, _unknown_fields: ::pilota::LinkedBytes::new()
            };
            ::std::result::Result::Ok(data)

            })
        }

                fn size<T: ::pilota::thrift::TLengthProtocol>(&self, __protocol: &mut T) -> usize {
                    #[allow(unused_imports)]
                    use ::pilota::thrift::TLengthProtocolExt;
                    __protocol.struct_begin_len(&::pilota::thrift::TStructIdentifier {
                    name: "DfOuter",
                }) + self.first.as_ref().map_or(0, |value| __protocol.struct_field_len(Some(1), value)) +self.mid.as_ref().map_or(0, |value| __protocol.struct_field_len(Some(2), value)) +self.many.as_ref().map_or(0, |value| __protocol.list_field_len(Some(3), ::pilota::thrift::TType::Struct, value, |__protocol, el| {
                        __protocol.struct_len(el)
                    })) +self._unknown_fields.size() + __protocol.field_stop_len() + __protocol.struct_end_len()
                }
            }
                                impl ::std::default::Default for Df1 {
                                    fn default() -> Self {
                                        Df1 {
                                            d1: Some(false),
plain: ::std::default::Default::default(),
d2: Some(-128i8),
d3: Some(127i8),
_unknown_fields: ::pilota::LinkedBytes::new()
                                        }
                                    }
                                }
                            #[derive(PartialOrd)]
#[derive(Hash, Eq, Ord)]
#[derive(Debug)]#[derive(Clone, PartialEq)]
                pub struct Df1 {

                        pub d1: ::std::option::Option<bool>,

                        pub plain: ::std::option::Option<i32>,

                        pub d2: ::std::option::Option<i8>,

                        pub d3: ::std::option::Option<i8>,pub _unknown_fields: ::pilota::LinkedBytes,
                }
            impl ::pilota::thrift::Message for Df1 {
                fn encode<T: ::pilota::thrift::TOutputProtocol>(
                    &self,
                    __protocol: &mut T,
                ) -> ::std::result::Result<(),::pilota::thrift::ThriftException> {
                    #[allow(unused_imports)]
                    use ::pilota::thrift::TOutputProtocolExt;
                    let struct_ident =::pilota::thrift::TStructIdentifier {
                    name: "Df1",
                };

                __protocol.write_struct_begin(&struct_ident)?;
                if let Some(value) = self.d1.as_ref() {
                        __protocol.write_bool_field(1, *value)?;
                    }if let Some(value) = self.plain.as_ref() {
                        __protocol.write_i32_field(1002, *value)?;
                    }if let Some(value) = self.d2.as_ref() {
                        __protocol.write_i8_field(15, *value)?;
                    }if let Some(value) = self.d3.as_ref() {
                        __protocol.write_i8_field(16, *value)?;
                    }for bytes in self._unknown_fields.list.iter() {
                                __protocol.write_bytes_without_len(bytes.clone());
                            }
                __protocol.write_field_stop()?;
                __protocol.write_struct_end()?;
                ::std::result::Result::Ok(())

                }

                fn decode<T: ::pilota::thrift::TInputProtocol>(
                    __protocol: &mut T,
                ) -> ::std::result::Result<Self,::pilota::thrift::ThriftException>  {
                    #[allow(unused_imports)]
                    use ::pilota::{thrift::TLengthProtocolExt, Buf};


            let mut var_1 = Some(false);let mut var_1002 = None;let mut var_15 = Some(-128i8);let mut var_16 = Some(127i8);let mut _unknown_fields = ::pilota::LinkedBytes::new();

            let mut __pilota_decoding_field_id = None;

            __protocol.read_struct_begin()?;
            if let ::std::result::Result::Err(mut err) = (|| {
                    loop {

                let mut __pilota_offset = 0;
            let __pilota_begin_ptr = __protocol.buf().chunk().as_ptr();
                let field_ident = __protocol.read_field_begin()?;
                if field_ident.field_type == ::pilota::thrift::TType::Stop {
                    __pilota_offset += __protocol.field_stop_len();
                    break;
                } else {
                    __pilota_offset += __protocol.field_begin_len(field_ident.field_type, field_ident.id);
                }
                __pilota_decoding_field_id = field_ident.id;
                match field_ident.id {
                    Some(1) if field_ident.field_type == ::pilota::thrift::TType::Bool  => {
                    var_1 = Some(__protocol.read_bool()?);

                },Some(1002) if field_ident.field_type == ::pilota::thrift::TType::I32  => {
                    var_1002 = Some(__protocol.read_i32()?);

                },Some(15) if field_ident.field_type == ::pilota::thrift::TType::I8  => {
                    var_15 = Some(__protocol.read_i8()?);

                },Some(16) if field_ident.field_type == ::pilota::thrift::TType::I8  => {
                    var_16 = Some(__protocol.read_i8()?);

                },
                    _ => {
                        __pilota_offset += __protocol.skip(field_ident.field_type)?;
                        _unknown_fields.push_back(__protocol.get_bytes(Some(__pilota_begin_ptr), __pilota_offset)?);
                    },
                }

                __protocol.read_field_end()?;
                __pilota_offset += __protocol.field_end_len();

            };
                    ::std::result::Result::Ok::<_, ::pilota::thrift::ThriftException>(())
                })() {
                if let Some(field_id) = __pilota_decoding_field_id {
                    err.prepend_msg(&format!("decode struct `Df1` field(#{}) failed, caused by: ", field_id));
                }
                return ::std::result::Result::Err(err);
            };
            __protocol.read_struct_end()?;





            let data = Self {
                d1: var_1,plain: var_1002,d2: var_15,d3: var_16, _unknown_fields
            };
            ::std::result::Result::Ok(data)

                }

                fn decode_async<'a, T: ::pilota::thrift::TAsyncInputProtocol>(
            __protocol: &'a mut T,
        ) -> ::std::pin::Pin<::std::boxed::Box<dyn ::std::future::Future<Output = ::std::result::Result<Self, ::pilota::thrift::ThriftException>> + Send + 'a>> {
            ::std::boxed::Box::pin(async move {


            let mut var_1 = Some(false);let mut var_1002 = None;let mut var_15 = Some(-128i8);let mut var_16 = Some(127i8);

            let mut __pilota_decoding_field_id = None;

            __protocol.read_struct_begin().await?;
            if let ::std::result::Result::Err(mut err) = async {
                    loop {


                let field_ident = __protocol.read_field_begin().await?;
                if field_ident.field_type == ::pilota::thrift::TType::Stop {

                    break;
                } else {

                }
                __pilota_decoding_field_id = field_ident.id;
                match field_ident.id {
                    Some(1) if field_ident.field_type == ::pilota::thrift::TType::Bool  => {
                    var_1 = Some(__protocol.read_bool().await?);

                },Some(1002) if field_ident.field_type == ::pilota::thrift::TType::I32  => {
                    var_1002 = Some(__protocol.read_i32().await?);

                },Some(15) if field_ident.field_type == ::pilota::thrift::TType::I8  => {
                    var_15 = Some(__protocol.read_i8().await?);

                },Some(16) if field_ident.field_type == ::pilota::thrift::TType::I8  => {
                    var_16 = Some(__protocol.read_i8().await?);

                },
                    _ => {
                        __protocol.skip(field_ident.field_type).await?;

                    },
                }

                __protocol.read_field_end().await?;


            };
                    ::std::result::Result::Ok::<_, ::pilota::thrift::ThriftException>(())
                }.await {
                if let Some(field_id) = __pilota_decoding_field_id {
                    err.prepend_msg(&format!("decode struct `Df1` field(#{}) failed, caused by: ", field_id));
                }
                return ::std::result::Result::Err(err);
            };
            __protocol.read_struct_end().await?;





            let data = Self {
                d1: var_1,plain: var_1002,d2: var_15,d3: var_16, _unknown_fields: ::pilota::LinkedBytes::new()
            };
            ::std::result::Result::Ok(data)

            })
        }

                fn size<T: ::pilota::thrift::TLengthProtocol>(&self, __protocol: &mut T) -> usize {
                    #[allow(unused_imports)]
                    use ::pilota::thrift::TLengthProtocolExt;
                    __protocol.struct_begin_len(&::pilota::thrift::TStructIdentifier {
                    name: "Df1",
                }) + self.d1.as_ref().map_or(0, |value| __protocol.bool_field_len(Some(1), *value)) +self.plain.as_ref().map_or(0, |value| __protocol.i32_field_len(Some(1002), *value)) +self.d2.as_ref().map_or(0, |value| __protocol.i8_field_len(Some(15), *value)) +self.d3.as_ref().map_or(0, |value| __protocol.i8_field_len(Some(16), *value)) +self._unknown_fields.size() + __protocol.field_stop_len() + __protocol.struct_end_len()
                }
            }
                                impl ::std::default::Default for Df56 {
                                    fn default() -> Self {
                                        Df56 {
                                            d1: ::pilota::FastStr::from_static_str("héllo wörld 世界"),
plain: ::std::default::Default::default(),
d2: ::pilota::FastStr::from_static_str(""),
d3: ::pilota::Bytes::from_static("bin".as_bytes()),
_unknown_fields: ::pilota::LinkedBytes::new()
                                        }
                                    }
                                }
                            #[derive(PartialOrd)]
#[derive(Hash, Eq, Ord)]
#[derive(Debug)]#[derive(Clone, PartialEq)]
                pub struct Df56 {

                        pub d1: ::pilota::FastStr,

                        pub plain: ::std::option::Option<i32>,

                        pub d2: ::pilota::FastStr,

                        pub d3: ::pilota::Bytes,pub _unknown_fields: ::pilota::LinkedBytes,
                }
            impl ::pilota::thrift::Message for Df56 {
                fn encode<T: ::pilota::thrift::TOutputProtocol>(
                    &self,
                    __protocol: &mut T,
                ) -> ::std::result::Result<(),::pilota::thrift::ThriftException> {
                    #[allow(unused_imports)]
                    use ::pilota::thrift::TOutputProtocolExt;
                    let struct_ident =::pilota::thrift::TStructIdentifier {
                    name: "Df56",
                };

                __protocol.write_struct_begin(&struct_ident)?;
                __protocol.write_faststr_field(1, (&self.d1).clone())?;if let Some(value) = self.plain.as_ref() {
                        __protocol.write_i32_field(1057, *value)?;
                    }__protocol.write_faststr_field(2, (&self.d2).clone())?;__protocol.write_bytes_field(32767, (&self.d3).clone())?;for bytes in self._unknown_fields.list.iter() {
                                __protocol.write_bytes_without_len(bytes.clone());
                            }
                __protocol.write_field_stop()?;
                __protocol.write_struct_end()?;
                ::std::result::Result::Ok(())

                }

                fn decode<T: ::pilota::thrift::TInputProtocol>(
                    __protocol: &mut T,
                ) -> ::std::result::Result<Self,::pilota::thrift::ThriftException>  {
                    #[allow(unused_imports)]
                    use ::pilota::{thrift::TLengthProtocolExt, Buf};


            let mut var_1 = ::pilota::FastStr::from_static_str("héllo wörld 世界");let mut var_1057 = None;let mut var_2 = ::pilota::FastStr::from_static_str("");let mut var_32767 = ::pilota::Bytes::from_static("bin".as_bytes());let mut _unknown_fields = ::pilota::LinkedBytes::new();

            let mut __pilota_decoding_field_id = None;

            __protocol.read_struct_begin()?;
            if let ::std::result::Result::Err(mut err) = (|| {
                    loop {

                let mut __pilota_offset = 0;
            let __pilota_begin_ptr = __protocol.buf().chunk().as_ptr();
                let field_ident = __protocol.read_field_begin()?;
                if field_ident.field_type == ::pilota::thrift::TType::Stop {
                    __pilota_offset += __protocol.field_stop_len();
                    break;
                } else {
                    __pilota_offset += __protocol.field_begin_len(field_ident.field_type, field_ident.id);
                }
                __pilota_decoding_field_id = field_ident.id;
                match field_ident.id {
                    Some(1) if field_ident.field_type == ::pilota::thrift::TType::Binary  => {
                    var_1 = __protocol.read_faststr()?;

                },Some(1057) if field_ident.field_type == ::pilota::thrift::TType::I32  => {
                    var_1057 = Some(__protocol.read_i32()?);

                },Some(2) if field_ident.field_type == ::pilota::thrift::TType::Binary  => {
                    var_2 = __protocol.read_faststr()?;

                },Some(32767) if field_ident.field_type == ::pilota::thrift::TType::Binary  => {
                    var_32767 = __protocol.read_bytes()?;

                },
                    _ => {
                        __pilota_offset += __protocol.skip(field_ident.field_type)?;
                        _unknown_fields.push_back(__protocol.get_bytes(Some(__pilota_begin_ptr), __pilota_offset)?);
                    },
                }

                __protocol.read_field_end()?;
                __pilota_offset += __protocol.field_end_len();

            };
                    ::std::result::Result::Ok::<_, ::pilota::thrift::ThriftException>(())
                })() {
                if let Some(field_id) = __pilota_decoding_field_id {
                    err.prepend_msg(&format!("decode struct `Df56` field(#{}) failed, caused by: ", field_id));
                }
                return ::std::result::Result::Err(err);
            };
            __protocol.read_struct_end()?;





            let data = Self {
                d1: var_1,plain: var_1057,d2: var_2,d3: var_32767, _unknown_fields
            };
            ::std::result::Result::Ok(data)

                }

                fn decode_async<'a, T: ::pilota::thrift::TAsyncInputProtocol>(
            __protocol: &'a mut T,
        ) -> ::std::pin::Pin<::std::boxed::Box<dyn ::std::future::Future<Output = ::std::result::Result<Self, ::pilota::thrift::ThriftException>> + Send + 'a>> {
            ::std::boxed::Box::pin(async move {


            let mut var_1 = ::pilota::FastStr::from_static_str("héllo wörld 世界");let mut var_1057 = None;let mut var_2 = ::pilota::FastStr::from_static_str("");let mut var_32767 = ::pilota::Bytes::from_static("bin".as_bytes());

            let mut __pilota_decoding_field_id = None;

            __protocol.read_struct_begin().await?;
            if let ::std::result::Result::Err(mut err) = async {
                    loop {


                let field_ident = __protocol.read_field_begin().await?;
                if field_ident.field_type == ::pilota::thrift::TType::Stop {

                    break;
                } else {

                }
                __pilota_decoding_field_id = field_ident.id;
                match field_ident.id {
                    Some(1) if field_ident.field_type == ::pilota::thrift::TType::Binary  => {
                    var_1 = __protocol.read_faststr().await?;

                },Some(1057) if field_ident.field_type == ::pilota::thrift::TType::I32  => {
                    var_1057 = Some(__protocol.read_i32().await?);

                },Some(2) if field_ident.field_type == ::pilota::thrift::TType::Binary  => {
                    var_2 = __protocol.read_faststr().await?;

                },Some(32767) if field_ident.field_type == ::pilota::thrift::TType::Binary  => {
                    var_32767 = __protocol.read_bytes().await?;

                },
                    _ => {
                        __protocol.skip(field_ident.field_type).await?;

                    },
                }

                __protocol.read_field_end().await?;


            };
                    ::std::result::Result::Ok::<_, ::pilota::thrift::ThriftException>(())
                }.await {
                if let Some(field_id) = __pilota_decoding_field_id {
                    err.prepend_msg(&format!("decode struct `Df56` field(#{}) failed, caused by: ", field_id));
                }
                return ::std::result::Result::Err(err);
            };
            __protocol.read_struct_end().await?;





            let data = Self {
                d1: var_1,plain: var_1057,d2: var_2,d3: var_32767, _unknown_fields: ::pilota::LinkedBytes::new()
            };
            ::std::result::Result::Ok(data)

            })
        }

                fn size<T: ::pilota::thrift::TLengthProtocol>(&self, __protocol: &mut T) -> usize {
                    #[allow(unused_imports)]
                    use ::pilota::thrift::TLengthProtocolExt;
                    __protocol.struct_begin_len(&::pilota::thrift::TStructIdentifier {
                    name: "Df56",
                }) + __protocol.faststr_field_len(Some(1), &self.d1) +self.plain.as_ref().map_or(0, |value| __protocol.i32_field_len(Some(1057), *value)) +__protocol.faststr_field_len(Some(2), &self.d2) +__protocol.bytes_field_len(Some(32767), &self.d3) +self._unknown_fields.size() + __protocol.field_stop_len() + __protocol.struct_end_len()
                }
            }
                                impl ::std::default::Default for Df32 {
                                    fn default() -> Self {
                                        Df32 {
                                            d1: Some(::pilota::FastStr::from_static_str("héllo wörld 世界")),
plain: ::std::default::Default::default(),
d2: Some(::pilota::FastStr::from_static_str("")),
d3: Some(::pilota::Bytes::from_static("bin".as_bytes())),
_unknown_fields: ::pilota::LinkedBytes::new()
                                        }
                                    }
                                }
                            #[derive(PartialOrd)]
#[derive(Hash, Eq, Ord)]
#[derive(Debug)]#[derive(Clone, PartialEq)]
                pub struct Df32 {

                        pub d1: ::std::option::Option<::pilota::FastStr>,

                        pub plain: ::std::option::Option<i32>,

                        pub d2: ::std::option::Option<::pilota::FastStr>,

                        pub d3: ::std::option::Option<::pilota::Bytes>,pub _unknown_fields: ::pilota::LinkedBytes,
                }
            impl ::pilota::thrift::Message for Df32 {
                fn encode<T: ::pilota::thrift::TOutputProtocol>(
                    &self,
                    __protocol: &mut T,
                ) -> ::std::result::Result<(),::pilota::thrift::ThriftException> {
                    #[allow(unused_imports)]
                    use ::pilota::thrift::TOutputProtocolExt;
                    let struct_ident =::pilota::thrift::TStructIdentifier {
                    name: "Df32",
                };

                __protocol.write_struct_begin(&struct_ident)?;
                if let Some(value) = self.d1.as_ref() {
                        __protocol.write_faststr_field(127, (value).clone())?;
                    }if let Some(value) = self.plain.as_ref() {
                        __protocol.write_i32_field(1159, *value)?;
                    }if let Some(value) = self.d2.as_ref() {
                        __protocol.write_faststr_field(128, (value).clone())?;
                    }if let Some(value) = self.d3.as_ref() {
                        __protocol.write_bytes_field(300, (value).clone())?;
                    }for bytes in self._unknown_fields.list.iter() {
                                __protocol.write_bytes_without_len(bytes.clone());
                            }
                __protocol.write_field_stop()?;
                __protocol.write_struct_end()?;
                ::std::result::Result::Ok(())

                }

                fn decode<T: ::pilota::thrift::TInputProtocol>(
                    __protocol: &mut T,
                ) -> ::std::result::Result<Self,::pilota::thrift::ThriftException>  {
                    #[allow(unused_imports)]
                    use ::pilota::{thrift::TLengthProtocolExt, Buf};


            let mut var_127 = Some(::pilota::FastStr::from_static_str("héllo wörld 世界"));let mut var_1159 = None;let mut var_128 = Some(::pilota::FastStr::from_static_str(""));let mut var_300 = Some(::pilota::Bytes::from_static("bin".as_bytes()));let mut _unknown_fields = ::pilota::LinkedBytes::new();

            let mut __pilota_decoding_field_id = None;

            __protocol.read_struct_begin()?;
            if let ::std::result::Result::Err(mut err) = (|| {
                    loop {

                let mut __pilota_offset = 0;
            let __pilota_begin_ptr = __protocol.buf().chunk().as_ptr();
                let field_ident = __protocol.read_field_begin()?;
                if field_ident.field_type == ::pilota::thrift::TType::Stop {
                    __pilota_offset += __protocol.field_stop_len();
                    break;
                } else {
                    __pilota_offset += __protocol.field_begin_len(field_ident.field_type, field_ident.id);
                }
                __pilota_decoding_field_id = field_ident.id;
                match field_ident.id {
                    Some(127) if field_ident.field_type == ::pilota::thrift::TType::Binary  => {
                    var_127 = Some(__protocol.read_faststr()?);

                },Some(1159) if field_ident.field_type == ::pilota::thrift::TType::I32  => {
                    var_1159 = Some(__protocol.read_i32()?);

                },Some(128) if field_ident.field_type == ::pilota::thrift::TType::Binary  => {
                    var_128 = Some(__protocol.read_faststr()?);

                },Some(300) if field_ident.field_type == ::pilota::thrift::TType::Binary  => {
                    var_300 = Some(__protocol.read_bytes()?);

                },
                    _ => {
                        __pilota_offset += __protocol.skip(field_ident.field_type)?;
                        _unknown_fields.push_back(__protocol.get_bytes(Some(__pilota_begin_ptr), __pilota_offset)?);
                    },
                }

                __protocol.read_field_end()?;
                __pilota_offset += __protocol.field_end_len();

            };
                    ::std::result::Result::Ok::<_, ::pilota::thrift::ThriftException>(())
                })() {
                if let Some(field_id) = __pilota_decoding_field_id {
                    err.prepend_msg(&format!("decode struct `Df32` field(#{}) failed, caused by: ", field_id));
                }
                return ::std::result::Result::Err(err);
            };
            __protocol.read_struct_end()?;





            let data = Self {
                d1: var_127,plain: var_1159,d2: var_128,d3: var_300, _unknown_fields
            };
            ::std::result::Result::Ok(data)

                }

                fn decode_async<'a, T: ::pilota::thrift::TAsyncInputProtocol>(
            __protocol: &'a mut T,
        ) -> ::std::pin::Pin<::std::boxed::Box<dyn ::std::future::Future<Output = ::std::result::Result<Self, ::pilota::thrift::ThriftException>> + Send + 'a>> {
            ::std::boxed::Box::pin(async move {


            let mut var_127 = Some(::pilota::FastStr::from_static_str("héllo wörld 世界"));let mut var_1159 = None;let mut var_128 = Some(::pilota::FastStr::from_static_str(""));let mut var_300 = Some(::pilota::Bytes::from_static("bin".as_bytes()));

            let mut __pilota_decoding_field_id = None;

            __protocol.read_struct_begin().await?;
            if let ::std::result::Result::Err(mut err) = async {
                    loop {


                let field_ident = __protocol.read_field_begin().await?;
                if field_ident.field_type == ::pilota::thrift::TType::Stop {

                    break;
                } else {

                }
                __pilota_decoding_field_id = field_ident.id;
                match field_ident.id {
                    Some(127) if field_ident.field_type == ::pilota::thrift::TType::Binary  => {
                    var_127 = Some(__protocol.read_faststr().await?);

                },Some(1159) if field_ident.field_type == ::pilota::thrift::TType::I32  => {
                    var_1159 = Some(__protocol.read_i32().await?);

                },Some(128) if field_ident.field_type == ::pilota::thrift::TType::Binary  => {
                    var_128 = Some(__protocol.read_faststr().await?);

                },Some(300) if field_ident.field_type == ::pilota::thrift::TType::Binary  => {
                    var_300 = Some(__protocol.read_bytes().await?);

                },
                    _ => {
                        __protocol.skip(field_ident.field_type).await?;

                    },
                }

                __protocol.read_field_end().await?;


            };
                    ::std::result::Result::Ok::<_, ::pilota::thrift::ThriftException>(())
                }.await {
                if let Some(field_id) = __pilota_decoding_field_id {
                    err.prepend_msg(&format!("decode struct `Df32` field(#{}) failed, caused by: ", field_id));
                }
                return ::std::result::Result::Err(err);
            };
            __protocol.read_struct_end().await?;





            let data = Self {
                d1: var_127,plain: var_1159,d2: var_128,d3: var_300, _unknown_fields: ::pilota::LinkedBytes::new()
            };
            ::std::result::Result::Ok(data)

            })
        }

                fn size<T: ::pilota::thrift::TLengthProtocol>(&self, __protocol: &mut T) -> usize {
                    #[allow(unused_imports)]
                    use ::pilota::thrift::TLengthProtocolExt;
                    __protocol.struct_begin_len(&::pilota::thrift::TStructIdentifier {
                    name: "Df32",
                }) + self.d1.as_ref().map_or(0, |value| __protocol.faststr_field_len(Some(127), value)) +self.plain.as_ref().map_or(0, |value| __protocol.i32_field_len(Some(1159), *value)) +self.d2.as_ref().map_or(0, |value| __protocol.faststr_field_len(Some(128), value)) +self.d3.as_ref().map_or(0, |value| __protocol.bytes_field_len(Some(300), value)) +self._unknown_fields.size() + __protocol.field_stop_len() + __protocol.struct_end_len()
                }
            }
                                impl ::std::default::Default for Df8 {
                                    fn default() -> Self {
                                        Df8 {
                                            d1: Some(::pilota::FastStr::from_static_str("héllo wörld 世界")),
plain: ::std::default::Default::default(),
d2: Some(::pilota::FastStr::from_static_str("")),
d3: Some(::pilota::Bytes::from_static("bin".as_bytes())),
_unknown_fields: ::pilota::LinkedBytes::new()
                                        }
                                    }
                                }
                            #[derive(PartialOrd)]
#[derive(Hash, Eq, Ord)]
#[derive(Debug)]#[derive(Clone, PartialEq)]
                pub struct Df8 {

                        pub d1: ::std::option::Option<::pilota::FastStr>,

                        pub plain: ::std::option::Option<i32>,

                        pub d2: ::std::option::Option<::pilota::FastStr>,

                        pub d3: ::std::option::Option<::pilota::Bytes>,pub _unknown_fields: ::pilota::LinkedBytes,
                }
            impl ::pilota::thrift::Message for Df8 {
                fn encode<T: ::pilota::thrift::TOutputProtocol>(
                    &self,
                    __protocol: &mut T,
                ) -> ::std::result::Result<(),::pilota::thrift::ThriftException> {
                    #[allow(unused_imports)]
                    use ::pilota::thrift::TOutputProtocolExt;
                    let struct_ident =::pilota::thrift::TStructIdentifier {
                    name: "Df8",
                };

                __protocol.write_struct_begin(&struct_ident)?;
                if let Some(value) = self.d1.as_ref() {
                        __protocol.write_faststr_field(5, (value).clone())?;
                    }if let Some(value) = self.plain.as_ref() {
                        __protocol.write_i32_field(1013, *value)?;
                    }if let Some(value) = self.d2.as_ref() {
                        __protocol.write_faststr_field(20, (value).clone())?;
                    }if let Some(value) = self.d3.as_ref() {
                        __protocol.write_bytes_field(21, (value).clone())?;
                    }for bytes in self._unknown_fields.list.iter() {
                                __protocol.write_bytes_without_len(bytes.clone());
                            }
                __protocol.write_field_stop()?;
                __protocol.write_struct_end()?;
                ::std::result::Result::Ok(())

                }

                fn decode<T: ::pilota::thrift::TInputProtocol>(
                    __protocol: &mut T,
                ) -> ::std::result::Result<Self,::pilota::thrift::ThriftException>  {
                    #[allow(unused_imports)]
                    use ::pilota::{thrift::TLengthProtocolExt, Buf};


            let mut var_5 = Some(::pilota::FastStr::from_static_str("héllo wörld 世界"));let mut var_1013 = None;let mut var_20 = Some(::pilota::FastStr::from_static_str(""));let mut var_21 = Some(::pilota::Bytes::from_static("bin".as_bytes()));let mut _unknown_fields = ::pilota::LinkedBytes::new();

            let mut __pilota_decoding_field_id = None;

            __protocol.read_struct_begin()?;
            if let ::std::result::Result::Err(mut err) = (|| {
                    loop {

                let mut __pilota_offset = 0;
            let __pilota_begin_ptr = __protocol.buf().chunk().as_ptr();
                let field_ident = __protocol.read_field_begin()?;
                if field_ident.field_type == ::pilota::thrift::TType::Stop {
                    __pilota_offset += __protocol.field_stop_len();
                    break;
                } else {
                    __pilota_offset += __protocol.field_begin_len(field_ident.field_type, field_ident.id);
                }
                __pilota_decoding_field_id = field_ident.id;
                match field_ident.id {
                    Some(5) if field_ident.field_type == ::pilota::thrift::TType::Binary  => {
                    var_5 = Some(__protocol.read_faststr()?);

                },Some(1013) if field_ident.field_type == ::pilota::thrift::TType::I32  => {
                    var_1013 = Some(__protocol.read_i32()?);

                },Some(20) if field_ident.field_type == ::pilota::thrift::TType::Binary  => {
                    var_20 = Some(__protocol.read_faststr()?);

                },Some(21) if field_ident.field_type == ::pilota::thrift::TType::Binary  => {
                    var_21 = Some(__protocol.read_bytes()?);

                },
                    _ => {
                        __pilota_offset += __protocol.skip(field_ident.field_type)?;
                        _unknown_fields.push_back(__protocol.get_bytes(Some(__pilota_begin_ptr), __pilota_offset)?);
                    },
                }

                __protocol.read_field_end()?;
                __pilota_offset += __protocol.field_end_len();

            };
                    ::std::result::Result::Ok::<_, ::pilota::thrift::ThriftException>(())
                })() {
                if let Some(field_id) = __pilota_decoding_field_id {
                    err.prepend_msg(&format!("decode struct `Df8` field(#{}) failed, caused by: ", field_id));
                }
                return ::std::result::Result::Err(err);
            };
            __protocol.read_struct_end()?;





            let data = Self {
                d1: var_5,plain: var_1013,d2: var_20,d3: var_21, _unknown_fields
            };
            ::std::result::Result::Ok(data)

                }

                fn decode_async<'a, T: ::pilota::thrift::TAsyncInputProtocol>(
            __protocol: &'a mut T,
        ) -> ::std::pin::Pin<::std::boxed::Box<dyn ::std::future::Future<Output = ::std::result::Result<Self, ::pilota::thrift::ThriftException>> + Send + 'a>> {
            ::std::boxed::Box::pin(async move {


            let mut var_5 = Some(::pilota::FastStr::from_static_str("héllo wörld 世界"));let mut var_1013 = None;let mut var_20 = Some(::pilota::FastStr::from_static_str(""));let mut var_21 = Some(::pilota::Bytes::from_static("bin".as_bytes()));

            let mut __pilota_decoding_field_id = None;

            __protocol.read_struct_begin().await?;
            if let ::std::result::Result::Err(mut err) = async {
                    loop {


                let field_ident = __protocol.read_field_begin().await?;
                if field_ident.field_type == ::pilota::thrift::TType::Stop {

                    break;
                } else {

                }
                __pilota_decoding_field_id = field_ident.id;
                match field_ident.id {
                    Some(5) if field_ident.field_type == ::pilota::thrift::TType::Binary  => {
                    var_5 = Some(__protocol.read_faststr().await?);

                },Some(1013) if field_ident.field_type == ::pilota::thrift::TType::I32  => {
                    var_1013 = Some(__protocol.read_i32().await?);

                },Some(20) if field_ident.field_type == ::pilota::thrift::TType::Binary  => {
                    var_20 = Some(__protocol.read_faststr().await?);

                },Some(21) if field_ident.field_type == ::pilota::thrift::TType::Binary  => {
                    var_21 = Some(__protocol.read_bytes().await?);

                },
                    _ => {
                        __protocol.skip(field_ident.field_type).await?;

                    },
                }

                __protocol.read_field_end().await?;


            };
                    ::std::result::Result::Ok::<_, ::pilota::thrift::ThriftException>(())
                }.await {
                if let Some(field_id) = __pilota_decoding_field_id {
                    err.prepend_msg(&format!("decode struct `Df8` field(#{}) failed, caused by: ", field_id));
                }
                return ::std::result::Result::Err(err);
            };
            __protocol.read_struct_end().await?;





            let data = Self {
                d1: var_5,plain: var_1013,d2: var_20,d3: var_21, _unknown_fields: ::pilota::LinkedBytes::new()
            };
            ::std::result::Result::Ok(data)

            })
        }

                fn size<T: ::pilota::thrift::TLengthProtocol>(&self, __protocol: &mut T) -> usize {
                    #[allow(unused_imports)]
                    use ::pilota::thrift::TLengthProtocolExt;
                    __protocol.struct_begin_len(&::pilota::thrift::TStructIdentifier {
                    name: "Df8",
                }) + self.d1.as_ref().map_or(0, |value| __protocol.faststr_field_len(Some(5), value)) +self.plain.as_ref().map_or(0, |value| __protocol.i32_field_len(Some(1013), *value)) +self.d2.as_ref().map_or(0, |value| __protocol.faststr_field_len(Some(20), value)) +self.d3.as_ref().map_or(0, |value| __protocol.bytes_field_len(Some(21), value)) +self._unknown_fields.size() + __protocol.field_stop_len() + __protocol.struct_end_len()
                }
            }
                                impl ::std::default::Default for Df63 {
                                    fn default() -> Self {
                                        Df63 {
                                            d1: ::std::vec![1099511627776i64],
plain: ::std::default::Default::default(),
d2: ::std::vec![16777217f64,2.5f64],
d3: ::std::vec![::pilota::FastStr::from_static_str("a"),::pilota::FastStr::from_static_str("b")],
_unknown_fields: ::pilota::LinkedBytes::new()
                                        }
                                    }
                                }
                            #[derive(PartialOrd)]
#[derive(Debug)]#[derive(Clone, PartialEq)]
                pub struct Df63 {

                        pub d1: ::std::vec::Vec<i64>,

                        pub plain: ::std::option::Option<i32>,

                        pub d2: ::std::vec::Vec<f64>,

                        pub d3: ::std::vec::Vec<::pilota::FastStr>,pub _unknown_fields: ::pilota::LinkedBytes,
                }
            impl ::pilota::thrift::Message for Df63 {
                fn encode<T: ::pilota::thrift::TOutputProtocol>(
                    &self,
                    __protocol: &mut T,
                ) -> ::std::result::Result<(),::pilota::thrift::ThriftException> {
                    #[allow(unused_imports)]
                    use ::pilota::thrift::TOutputProtocolExt;
                    let struct_ident =::pilota::thrift::TStructIdentifier {
                    name: "Df63",
                };

                __protocol.write_struct_begin(&struct_ident)?;
                __protocol.write_list_field(3, ::pilota::thrift::TType::I64, &&self.d1, |__protocol, val| {
                        __protocol.write_i64(*val)?;
                        ::std::result::Result::Ok(())
                    })?;if let Some(value) = self.plain.as_ref() {
                        __protocol.write_i32_field(1066, *value)?;
                    }__protocol.write_list_field(4, ::pilota::thrift::TType::Double, &&self.d2, |__protocol, val| {
                        __protocol.write_double(*val)?;
                        ::std::result::Result::Ok(())
                    })?;__protocol.write_list_field(17, ::pilota::thrift::TType::Binary, &&self.d3, |__protocol, val| {
                        __protocol.write_faststr((val).clone())?;
                        ::std::result::Result::Ok(())
                    })?;for bytes in self._unknown_fields.list.iter() {
                                __protocol.write_bytes_without_len(bytes.clone());
                            }
                __protocol.write_field_stop()?;
                __protocol.write_struct_end()?;
                ::std::result::Result::Ok(())

                }

                fn decode<T: ::pilota::thrift::TInputProtocol>(
                    __protocol: &mut T,
                ) -> ::std::result::Result<Self,::pilota::thrift::ThriftException>  {
                    #[allow(unused_imports)]
                    use ::pilota::{thrift::TLengthProtocolExt, Buf};


            let mut var_3 = None;let mut var_1066 = None;let mut var_4 = None;let mut var_17 = None;let mut _unknown_fields = ::pilota::LinkedBytes::new();

            let mut __pilota_decoding_field_id = None;

            __protocol.read_struct_begin()?;
            if let ::std::result::Result::Err(mut err) = (|| {
                    loop {

                let mut __pilota_offset = 0;
            let __pilota_begin_ptr = __protocol.buf().chunk().as_ptr();
                let field_ident = __protocol.read_field_begin()?;
                if field_ident.field_type == ::pilota::thrift::TType::Stop {
                    __pilota_offset += __protocol.field_stop_len();
                    break;
                } else {
                    __pilota_offset += __protocol.field_begin_len(field_ident.field_type, field_ident.id);
                }
                __pilota_decoding_field_id = field_ident.id;
                match field_ident.id {
                    Some(3) if field_ident.field_type == ::pilota::thrift::TType::List  => {
                    var_3 = Some(unsafe {
                            let list_ident = __protocol.read_list_begin()?;
                            let mut val: ::std::vec::Vec<i64> = ::std::vec::Vec::with_capacity(list_ident.size);
                            for i in 0..list_ident.size {
                                val.as_mut_ptr().offset(i as isize).write(__protocol.read_i64()?);
                            };
                            val.set_len(list_ident.size);
                            __protocol.read_list_end()?;
                            val
                        });

                },Some(1066) if field_ident.field_type == ::pilota::thrift::TType::I32  => {
                    var_1066 = Some(__protocol.read_i32()?);

                },Some(4) if field_ident.field_type == ::pilota::thrift::TType::List  => {
                    var_4 = Some(unsafe {
                            let list_ident = __protocol.read_list_begin()?;
                            let mut val: ::std::vec::Vec<f64> = ::std::vec::Vec::with_capacity(list_ident.size);
                            for i in 0..list_ident.size {
                                val.as_mut_ptr().offset(i as isize).write(__protocol.read_double()?);
                            };
                            val.set_len(list_ident.size);
                            __protocol.read_list_end()?;
                            val
                        });

                },Some(17) if field_ident.field_type == ::pilota::thrift::TType::List  => {
                    var_17 = Some(unsafe {
                            let list_ident = __protocol.read_list_begin()?;
                            let mut val: ::std::vec::Vec<::pilota::FastStr> = ::std::vec::Vec::with_capacity(list_ident.size);
                            for i in 0..list_ident.size {
                                val.as_mut_ptr().offset(i as isize).write(__protocol.read_faststr()?);
                            };
                            val.set_len(list_ident.size);
                            __protocol.read_list_end()?;
                            val
                        });

                },
                    _ => {
                        __pilota_offset += __protocol.skip(field_ident.field_type)?;
                        _unknown_fields.push_back(__protocol.get_bytes(Some(__pilota_begin_ptr), __pilota_offset)?);
                    },
                }

                __protocol.read_field_end()?;
                __pilota_offset += __protocol.field_end_len();

            };
                    ::std::result::Result::Ok::<_, ::pilota::thrift::ThriftException>(())
                })() {
                if let Some(field_id) = __pilota_decoding_field_id {
                    err.prepend_msg(&format!("decode struct `Df63` field(#{}) failed, caused by: ", field_id));
                }
                return ::std::result::Result::Err(err);
            };
            __protocol.read_struct_end()?;



            let var_3 = var_3.unwrap_or_else(|| ::std::vec![1099511627776i64]);
let var_4 = var_4.unwrap_or_else(|| ::std::vec![16777217f64,2.5f64]);
let var_17 = var_17.unwrap_or_else(|| ::std::vec![::pilota::FastStr::from_static_str("a"),::pilota::FastStr::from_static_str("b")]);

            let data = Self {
                d1: var_3,plain: var_1066,d2: var_4,d3: var_17, _unknown_fields
            };
            ::std::result::Result::Ok(data)

                }

                fn decode_async<'a, T: ::pilota::thrift::TAsyncInputProtocol>(
            __protocol: &'a mut T,
        ) -> ::std::pin::Pin<::std::boxed::Box<dyn ::std::future::Future<Output = ::std::result::Result<Self, ::pilota::thrift::ThriftException>> + Send + 'a>> {
            ::std::boxed::Box::pin(async move {


            let mut var_3 = None;let mut var_1066 = None;let mut var_4 = None;let mut var_17 = None;

            let mut __pilota_decoding_field_id = None;

            __protocol.read_struct_begin().await?;
            if let ::std::result::Result::Err(mut err) = async {
                    loop {


                let field_ident = __protocol.read_field_begin().await?;
                if field_ident.field_type == ::pilota::thrift::TType::Stop {

                    break;
                } else {

                }
                __pilota_decoding_field_id = field_ident.id;
                match field_ident.id {
                    Some(3) if field_ident.field_type == ::pilota::thrift::TType::List  => {
                    var_3 = Some({
                            let list_ident = __protocol.read_list_begin().await?;
                            let mut val = ::std::vec::Vec::with_capacity(list_ident.size);
                            for _ in 0..list_ident.size {
                                val.push(__protocol.read_i64().await?);
                            };
                            __protocol.read_list_end().await?;
                            val
                        });

                },Some(1066) if field_ident.field_type == ::pilota::thrift::TType::I32  => {
                    var_1066 = Some(__protocol.read_i32().await?);

                },Some(4) if field_ident.field_type == ::pilota::thrift::TType::List  => {
                    var_4 = Some({
                            let list_ident = __protocol.read_list_begin().await?;
                            let mut val = ::std::vec::Vec::with_capacity(list_ident.size);
                            for _ in 0..list_ident.size {
                                val.push(__protocol.read_double().await?);
                            };
                            __protocol.read_list_end().await?;
                            val
                        });

                },Some(17) if field_ident.field_type == ::pilota::thrift::TType::List  => {
                    var_17 = Some({
                            let list_ident = __protocol.read_list_begin().await?;
                            let mut val = ::std::vec::Vec::with_capacity(list_ident.size);
                            for _ in 0..list_ident.size {
                                val.push(__protocol.read_faststr().await?);
                            };
                            __protocol.read_list_end().await?;
                            val
                        });

                },
                    _ => {
                        __protocol.skip(field_ident.field_type).await?;

                    },
                }

                __protocol.read_field_end().await?;


            };
                    ::std::result::Result::Ok::<_, ::pilota::thrift::ThriftException>(())
                }.await {
                if let Some(field_id) = __pilota_decoding_field_id {
                    err.prepend_msg(&format!("decode struct `Df63` field(#{}) failed, caused by: ", field_id));
                }
                return ::std::result::Result::Err(err);
            };
            __protocol.read_struct_end().await?;



            let var_3 = var_3.unwrap_or_else(|| ::std::vec![1099511627776i64]);
let var_4 = var_4.unwrap_or_else(|| ::std::vec![16777217f64,2.5f64]);
let var_17 = var_17.unwrap_or_else(|| ::std::vec![::pilota::FastStr::from_static_str("a"),::pilota::FastStr::from_static_str("b")]);

            let data = Self {
                d1: var_3,plain: var_1066,d2: var_4,d3: var_17, _unknown_fields: ::pilota::LinkedBytes::new()
            };
            ::std::result::Result::Ok(data)

            })
        }

                fn size<T: ::pilota::thrift::TLengthProtocol>(&self, __protocol: &mut T) -> usize {
                    #[allow(unused_imports)]
                    use ::pilota::thrift::TLengthProtocolExt;
                    __protocol.struct_begin_len(&::pilota::thrift::TStructIdentifier {
                    name: "Df63",
                }) + __protocol.list_field_len(Some(3), ::pilota::thrift::TType::I64, &self.d1, |__protocol, el| {
                        __protocol.i64_len(*el)
                    }) +self.plain.as_ref().map_or(0, |value| __protocol.i32_field_len(Some(1066), *value)) +__protocol.list_field_len(Some(4), ::pilota::thrift::TType::Double, &self.d2, |__protocol, el| {
                        __protocol.double_len(*el)
                    }) +__protocol.list_field_len(Some(17), ::pilota::thrift::TType::Binary, &self.d3, |__protocol, el| {
                        __protocol.faststr_len(el)
                    }) +self._unknown_fields.size() + __protocol.field_stop_len() + __protocol.struct_end_len()
                }
            }#[derive(PartialOrd)]
#[derive(Hash, Eq, Ord)]
#[derive(Debug)]
#[derive(Default)]
            #[derive(Clone, PartialEq)]
            pub struct TdList(pub ::std::vec::Vec<::pilota::FastStr>);

            impl ::std::ops::Deref for TdList {
                type Target = ::std::vec::Vec<::pilota::FastStr>;

                fn deref(&self) -> &Self::Target {
                    &self.0
                }
            }

            impl From<::std::vec::Vec<::pilota::FastStr>> for TdList {
                fn from(v: ::std::vec::Vec<::pilota::FastStr>) -> Self {
                    Self(v)
                }
            }


            impl ::pilota::thrift::Message for TdList {
                fn encode<T: ::pilota::thrift::TOutputProtocol>(
                    &self,
                    __protocol: &mut T,
                ) -> ::std::result::Result<(),::pilota::thrift::ThriftException> {
                    #[allow(unused_imports)]
                    use ::pilota::thrift::TOutputProtocolExt;
                    __protocol.write_list(::pilota::thrift::TType::Binary, &(&**self), |__protocol, val| {
                        __protocol.write_faststr((val).clone())?;
                        ::std::result::Result::Ok(())
                    })?;
                ::std::result::Result::Ok(())
                }

                fn decode<T: ::pilota::thrift::TInputProtocol>(
                    __protocol: &mut T,
                ) -> ::std::result::Result<Self,::pilota::thrift::ThriftException>  {
                    #[allow(unused_imports)]
                    use ::pilota::{thrift::TLengthProtocolExt, Buf};
                    ::std::result::Result::Ok(TdList(unsafe {
                            let list_ident = __protocol.read_list_begin()?;
                            let mut val: ::std::vec::Vec<::pilota::FastStr> = ::std::vec::Vec::with_capacity(list_ident.size);
                            for i in 0..list_ident.size {
                                val.as_mut_ptr().offset(i as isize).write(__protocol.read_faststr()?);
                            };
                            val.set_len(list_ident.size);
                            __protocol.read_list_end()?;
                            val
                        }))
                }

                fn decode_async<'a, T: ::pilota::thrift::TAsyncInputProtocol>(
            __protocol: &'a mut T,
        ) -> ::std::pin::Pin<::std::boxed::Box<dyn ::std::future::Future<Output = ::std::result::Result<Self, ::pilota::thrift::ThriftException>> + Send + 'a>> {
            ::std::boxed::Box::pin(async move {
                ::std::result::Result::Ok(TdList({
                            let list_ident = __protocol.read_list_begin().await?;
                            let mut val = ::std::vec::Vec::with_capacity(list_ident.size);
                            for _ in 0..list_ident.size {
                                val.push(__protocol.read_faststr().await?);
                            };
                            __protocol.read_list_end().await?;
                            val
                        }))
            })
        }

                fn size<T: ::pilota::thrift::TLengthProtocol>(&self, __protocol: &mut T) -> usize {
                    #[allow(unused_imports)]
                    use ::pilota::thrift::TLengthProtocolExt;
                    __protocol.list_len(::pilota::thrift::TType::Binary, &**self, |__protocol, el| {
                        __protocol.faststr_len(el)
                    })
                }
            }
                                impl ::std::default::Default for Df39 {
                                    fn default() -> Self {
                                        Df39 {
                                            d1: Some(::std::vec![1099511627776i64]),
plain: ::std::default::Default::default(),
d2: Some(::std::vec![16777217f64,2.5f64]),
d3: Some(::std::vec![::pilota::FastStr::from_static_str("a"),::pilota::FastStr::from_static_str("b")]),
_unknown_fields: ::pilota::LinkedBytes::new()
                                        }
                                    }
                                }
                            #[derive(PartialOrd)]
#[derive(Debug)]#[derive(Clone, PartialEq)]
                pub struct Df39 {

                        pub d1: ::std::option::Option<::std::vec::Vec<i64>>,

                        pub plain: ::std::option::Option<i32>,

                        pub d2: ::std::option::Option<::std::vec::Vec<f64>>,

                        pub d3: ::std::option::Option<::std::vec::Vec<::pilota::FastStr>>,pub _unknown_fields: ::pilota::LinkedBytes,
                }
            impl ::pilota::thrift::Message for Df39 {
                fn encode<T: ::pilota::thrift::TOutputProtocol>(
                    &self,
                    __protocol: &mut T,
                ) -> ::std::result::Result<(),::pilota::thrift::ThriftException> {
                    #[allow(unused_imports)]
                    use ::pilota::thrift::TOutputProtocolExt;
                    let struct_ident =::pilota::thrift::TStructIdentifier {
                    name: "Df39",
                };

                __protocol.write_struct_begin(&struct_ident)?;
                if let Some(value) = self.d1.as_ref() {
                        __protocol.write_list_field(1, ::pilota::thrift::TType::I64, &value, |__protocol, val| {
                        __protocol.write_i64(*val)?;
                        ::std::result::Result::Ok(())
                    })?;
                    }if let Some(value) = self.plain.as_ref() {
                        __protocol.write_i32_field(1040, *value)?;
                    }if let Some(value) = self.d2.as_ref() {
                        __protocol.write_list_field(2, ::pilota::thrift::TType::Double, &value, |__protocol, val| {
                        __protocol.write_double(*val)?;
                        ::std::result::Result::Ok(())
                    })?;
                    }if let Some(value) = self.d3.as_ref() {
                        __protocol.write_list_field(32767, ::pilota::thrift::TType::Binary, &value, |__protocol, val| {
                        __protocol.write_faststr((val).clone())?;
                        ::std::result::Result::Ok(())
                    })?;
                    }for bytes in self._unknown_fields.list.iter() {
                                __protocol.write_bytes_without_len(bytes.clone());
                            }
                __protocol.write_field_stop()?;
                __protocol.write_struct_end()?;
                ::std::result::Result::Ok(())

                }

                fn decode<T: ::pilota::thrift::TInputProtocol>(
                    __protocol: &mut T,
                ) -> ::std::result::Result<Self,::pilota::thrift::ThriftException>  {
                    #[allow(unused_imports)]
                    use ::pilota::{thrift::TLengthProtocolExt, Buf};


            let mut var_1 = None;let mut var_1040 = None;let mut var_2 = None;let mut var_32767 = None;let mut _unknown_fields = ::pilota::LinkedBytes::new();

            let mut __pilota_decoding_field_id = None;

            __protocol.read_struct_begin()?;
            if let ::std::result::Result::Err(mut err) = (|| {
                    loop {

                let mut __pilota_offset = 0;
            let __pilota_begin_ptr = __protocol.buf().chunk().as_ptr();
                let field_ident = __protocol.read_field_begin()?;
                if field_ident.field_type == ::pilota::thrift::TType::Stop {
                    __pilota_offset += __protocol.field_stop_len();
                    break;
                } else {
                    __pilota_offset += __protocol.field_begin_len(field_ident.field_type, field_ident.id);
                }
                __pilota_decoding_field_id = field_ident.id;
                match field_ident.id {
                    Some(1) if field_ident.field_type == ::pilota::thrift::TType::List  => {
                    var_1 = Some(unsafe {
                            let list_ident = __protocol.read_list_begin()?;
                            let mut val: ::std::vec::Vec<i64> = ::std::vec::Vec::with_capacity(list_ident.size);
                            for i in 0..list_ident.size {
                                val.as_mut_ptr().offset(i as isize).write(__protocol.read_i64()?);
                            };
                            val.set_len(list_ident.size);
                            __protocol.read_list_end()?;
                            val
                        });

                },Some(1040) if field_ident.field_type == ::pilota::thrift::TType::I32  => {
                    var_1040 = Some(__protocol.read_i32()?);

                },Some(2) if field_ident.field_type == ::pilota::thrift::TType::List  => {
                    var_2 = Some(unsafe {
                            let list_ident = __protocol.read_list_begin()?;
                            let mut val: ::std::vec::Vec<f64> = ::std::vec::Vec::with_capacity(list_ident.size);
                            for i in 0..list_ident.size {
                                val.as_mut_ptr().offset(i as isize).write(__protocol.read_double()?);
                            };
                            val.set_len(list_ident.size);
                            __protocol.read_list_end()?;
                            val
                        });

                },Some(32767) if field_ident.field_type == ::pilota::thrift::TType::List  => {
                    var_32767 = Some(unsafe {
                            let list_ident = __protocol.read_list_begin()?;
                            let mut val: ::std::vec::Vec<::pilota::FastStr> = ::std::vec::Vec::with_capacity(list_ident.size);
                            for i in 0..list_ident.size {
                                val.as_mut_ptr().offset(i as isize).write(__protocol.read_faststr()?);
                            };
                            val.set_len(list_ident.size);
                            __protocol.read_list_end()?;
                            val
                        });

                },
                    _ => {
                        __pilota_offset += __protocol.skip(field_ident.field_type)?;
                        _unknown_fields.push_back(__protocol.get_bytes(Some(__pilota_begin_ptr), __pilota_offset)?);
                    },
                }

                __protocol.read_field_end()?;
                __pilota_offset += __protocol.field_end_len();

            };
                    ::std::result::Result::Ok::<_, ::pilota::thrift::ThriftException>(())
                })() {
                if let Some(field_id) = __pilota_decoding_field_id {
                    err.prepend_msg(&format!("decode struct `Df39` field(#{}) failed, caused by: ", field_id));
                }
                return ::std::result::Result::Err(err);
            };
            __protocol.read_struct_end()?;



            if var_1.is_none() {
                                var_1 = Some(::std::vec![1099511627776i64]);
                            }
if var_2.is_none() {
                                var_2 = Some(::std::vec![16777217f64,2.5f64]);
                            }
if var_32767.is_none() {
                                var_32767 = Some(::std::vec![::pilota::FastStr::from_static_str("a"),::pilota::FastStr::from_static_str("b")]);
                            }

            let data = Self {
                d1: var_1,plain: var_1040,d2: var_2,d3: var_32767, _unknown_fields
            };
            ::std::result::Result::Ok(data)

                }

                fn decode_async<'a, T: ::pilota::thrift::TAsyncInputProtocol>(
            __protocol: &'a mut T,
        ) -> ::std::pin::Pin<::std::boxed::Box<dyn ::std::future::Future<Output = ::std::result::Result<Self, ::pilota::thrift::ThriftException>> + Send + 'a>> {
            ::std::boxed::Box::pin(async move {


            let mut var_1 = None;let mut var_1040 = None;let mut var_2 = None;let mut var_32767 = None;

            let mut __pilota_decoding_field_id = None;

            __protocol.read_struct_begin().await?;
            if let ::std::result::Result::Err(mut err) = async {
                    loop {


                let field_ident = __protocol.read_field_begin().await?;
                if field_ident.field_type == ::pilota::thrift::TType::Stop {

                    break;
                } else {

                }
                __pilota_decoding_field_id = field_ident.id;
                match field_ident.id {
                    Some(1) if field_ident.field_type == ::pilota::thrift::TType::List  => {
                    var_1 = Some({
                            let list_ident = __protocol.read_list_begin().await?;
                            let mut val = ::std::vec::Vec::with_capacity(list_ident.size);
                            for _ in 0..list_ident.size {
                                val.push(__protocol.read_i64().await?);
                            };
                            __protocol.read_list_end().await?;
                            val
                        });

                },Some(1040) if field_ident.field_type == ::pilota::thrift::TType::I32  => {
                    var_1040 = Some(__protocol.read_i32().await?);

                },Some(2) if field_ident.field_type == ::pilota::thrift::TType::List  => {
                    var_2 = Some({
                            let list_ident = __protocol.read_list_begin().await?;
                            let mut val = ::std::vec::Vec::with_capacity(list_ident.size);
                            for _ in 0..list_ident.size {
                                val.push(__protocol.read_double().await?);
                            };
                            __protocol.read_list_end().await?;
                            val
                        });

                },Some(32767) if field_ident.field_type == ::pilota::thrift::TType::List  => {
                    var_32767 = Some({
                            let list_ident = __protocol.read_list_begin().await?;
                            let mut val = ::std::vec::Vec::with_capacity(list_ident.size);
                            for _ in 0..list_ident.size {
                                val.push(__protocol.read_faststr().await?);
                            };
                            __protocol.read_list_end().await?;
                            val
                        });

                },
                    _ => {
                        __protocol.skip(field_ident.field_type).await?;

                    },
                }

                __protocol.read_field_end().await?;


            };
                    ::std::result::Result::Ok::<_, ::pilota::thrift::ThriftException>(())
                }.await {
                if let Some(field_id) = __pilota_decoding_field_id {
                    err.prepend_msg(&format!("decode struct `Df39` field(#{}) failed, caused by: ", field_id));
                }
                return ::std::result::Result::Err(err);
            };
            __protocol.read_struct_end().await?;



            if var_1.is_none() {
                                var_1 = Some(::std::vec![1099511627776i64]);
                            }
if var_2.is_none() {
                                var_2 = Some(::std::vec![16777217f64,2.5f64]);
                            }
if var_32767.is_none() {
                                var_32767 = Some(::std::vec![::pilota::FastStr::from_static_str("a"),::pilota::FastStr::from_static_str("b")]);
                            }

            let data = Self {
                d1: var_1,plain: var_1040,d2: var_2,d3: var_32767, _unknown_fields: ::pilota::LinkedBytes::new()
            };
            ::std::result::Result::Ok(data)

            })
        }

                fn size<T: ::pilota::thrift::TLengthProtocol>(&self, __protocol: &mut T) -> usize {
                    #[allow(unused_imports)]
                    use ::pilota::thrift::TLengthProtocolExt;
                    __protocol.struct_begin_len(&::pilota::thrift::TStructIdentifier {
                    name: "Df39",
                }) + self.d1.as_ref().map_or(0, |value| __protocol.list_field_len(Some(1), ::pilota::thrift::TType::I64, value, |__protocol, el| {
                        __protocol.i64_len(*el)
                    })) +self.plain.as_ref().map_or(0, |value| __protocol.i32_field_len(Some(1040), *value)) +self.d2.as_ref().map_or(0, |value| __protocol.list_field_len(Some(2), ::pilota::thrift::TType::Double, value, |__protocol, el| {
                        __protocol.double_len(*el)
                    })) +self.d3.as_ref().map_or(0, |value| __protocol.list_field_len(Some(32767), ::pilota::thrift::TType::Binary, value, |__protocol, el| {
                        __protocol.faststr_len(el)
                    })) +self._unknown_fields.size() + __protocol.field_stop_len() + __protocol.struct_end_len()
                }
            }
                                impl ::std::default::Default for Df15 {
                                    fn default() -> Self {
                                        Df15 {
                                            d1: Some(::std::vec![1099511627776i64]),
plain: ::std::default::Default::default(),
d2: Some(::std::vec![16777217f64,2.5f64]),
d3: Some(::std::vec![::pilota::FastStr::from_static_str("a"),::pilota::FastStr::from_static_str("b")]),
_unknown_fields: ::pilota::LinkedBytes::new()
                                        }
                                    }
                                }
                            #[derive(PartialOrd)]
#[derive(Debug)]#[derive(Clone, PartialEq)]
                pub struct Df15 {

                        pub d1: ::std::option::Option<::std::vec::Vec<i64>>,

                        pub plain: ::std::option::Option<i32>,

                        pub d2: ::std::option::Option<::std::vec::Vec<f64>>,

                        pub d3: ::std::option::Option<::std::vec::Vec<::pilota::FastStr>>,pub _unknown_fields: ::pilota::LinkedBytes,
                }
            impl ::pilota::thrift::Message for Df15 {
                fn encode<T: ::pilota::thrift::TOutputProtocol>(
                    &self,
                    __protocol: &mut T,
                ) -> ::std::result::Result<(),::pilota::thrift::ThriftException> {
                    #[allow(unused_imports)]
                    use ::pilota::thrift::TOutputProtocolExt;
                    let struct_ident =::pilota::thrift::TStructIdentifier {
                    name: "Df15",
                };

                __protocol.write_struct_begin(&struct_ident)?;
                if let Some(value) = self.d1.as_ref() {
                        __protocol.write_list_field(127, ::pilota::thrift::TType::I64, &value, |__protocol, val| {
                        __protocol.write_i64(*val)?;
                        ::std::result::Result::Ok(())
                    })?;
                    }if let Some(value) = self.plain.as_ref() {
                        __protocol.write_i32_field(1142, *value)?;
                    }if let Some(value) = self.d2.as_ref() {
                        __protocol.write_list_field(128, ::pilota::thrift::TType::Double, &value, |__protocol, val| {
                        __protocol.write_double(*val)?;
                        ::std::result::Result::Ok(())
                    })?;
                    }if let Some(value) = self.d3.as_ref() {
                        __protocol.write_list_field(300, ::pilota::thrift::TType::Binary, &value, |__protocol, val| {
                        __protocol.write_faststr((val).clone())?;
                        ::std::result::Result::Ok(())
                    })?;
                    }for bytes in self._unknown_fields.list.iter() {
                                __protocol.write_bytes_without_len(bytes.clone());
                            }
                __protocol.write_field_stop()?;
                __protocol.write_struct_end()?;
                ::std::result::Result::Ok(())

                }

                fn decode<T: ::pilota::thrift::TInputProtocol>(
                    __protocol: &mut T,
                ) -> ::std::result::Result<Self,::pilota::thrift::ThriftException>  {
                    #[allow(unused_imports)]
                    use ::pilota::{thrift::TLengthProtocolExt, Buf};


            let mut var_127 = None;let mut var_1142 = None;let mut var_128 = None;let mut var_300 = None;let mut _unknown_fields = ::pilota::LinkedBytes::new();

            let mut __pilota_decoding_field_id = None;

            __protocol.read_struct_begin()?;
            if let ::std::result::Result::Err(mut err) = (|| {
                    loop {

                let mut __pilota_offset = 0;
            let __pilota_begin_ptr = __protocol.buf().chunk().as_ptr();
                let field_ident = __protocol.read_field_begin()?;
                if field_ident.field_type == ::pilota::thrift::TType::Stop {
                    __pilota_offset += __protocol.field_stop_len();
                    break;
                } else {
                    __pilota_offset += __protocol.field_begin_len(field_ident.field_type, field_ident.id);
                }
                __pilota_decoding_field_id = field_ident.id;
                match field_ident.id {
                    Some(127) if field_ident.field_type == ::pilota::thrift::TType::List  => {
                    var_127 = Some(unsafe {
                            let list_ident = __protocol.read_list_begin()?;
                            let mut val: ::std::vec::Vec<i64> = ::std::vec::Vec::with_capacity(list_ident.size);
                            for i in 0..list_ident.size {
                                val.as_mut_ptr().offset(i as isize).write(__protocol.read_i64()?);
                            };
                            val.set_len(list_ident.size);
                            __protocol.read_list_end()?;
                            val
                        });

                },Some(1142) if field_ident.field_type == ::pilota::thrift::TType::I32  => {
                    var_1142 = Some(__protocol.read_i32()?);

                },Some(128) if field_ident.field_type == ::pilota::thrift::TType::List  => {
                    var_128 = Some(unsafe {
                            let list_ident = __protocol.read_list_begin()?;
                            let mut val: ::std::vec::Vec<f64> = ::std::vec::Vec::with_capacity(list_ident.size);
                            for i in 0..list_ident.size {
                                val.as_mut_ptr().offset(i as isize).write(__protocol.read_double()?);
                            };
                            val.set_len(list_ident.size);
                            __protocol.read_list_end()?;
                            val
                        });

                },Some(300) if field_ident.field_type == ::pilota::thrift::TType::List  => {
                    var_300 = Some(unsafe {
                            let list_ident = __protocol.read_list_begin()?;
                            let mut val: ::std::vec::Vec<::pilota::FastStr> = ::std::vec::Vec::with_capacity(list_ident.size);
                            for i in 0..list_ident.size {
                                val.as_mut_ptr().offset(i as isize).write(__protocol.read_faststr()?);
                            };
                            val.set_len(list_ident.size);
                            __protocol.read_list_end()?;
                            val
                        });

                },
                    _ => {
                        __pilota_offset += __protocol.skip(field_ident.field_type)?;
                        _unknown_fields.push_back(__protocol.get_bytes(Some(__pilota_begin_ptr), __pilota_offset)?);
                    },
                }

                __protocol.read_field_end()?;
                __pilota_offset += __protocol.field_end_len();

            };
                    ::std::result::Result::Ok::<_, ::pilota::thrift::ThriftException>(())
                })() {
                if let Some(field_id) = __pilota_decoding_field_id {
                    err.prepend_msg(&format!("decode struct `Df15` field(#{}) failed, caused by: ", field_id));
                }
                return ::std::result::Result::Err(err);
            };
            __protocol.read_struct_end()?;



            if var_127.is_none() {
                                var_127 = Some(::std::vec![1099511627776i64]);
                            }
if var_128.is_none() {
                                var_128 = Some(::std::vec![16777217f64,2.5f64]);
                            }
if var_300.is_none() {
                                var_300 = Some(::std::vec![::pilota::FastStr::from_static_str("a"),::pilota::FastStr::from_static_str("b")]);
                            }

            let data = Self {
                d1: var_127,plain: var_1142,d2: var_128,d3: var_300, _unknown_fields
            };
            ::std::result::Result::Ok(data)

                }

                fn decode_async<'a, T: ::pilota::thrift::TAsyncInputProtocol>(
            __protocol: &'a mut T,
        ) -> ::std::pin::Pin<::std::boxed::Box<dyn ::std::future::Future<Output = ::std::result::Result<Self, ::pilota::thrift::ThriftException>> + Send + 'a>> {
            ::std::boxed::Box::pin(async move {


            let mut var_127 = None;let mut var_1142 = None;let mut var_128 = None;let mut var_300 = None;

            let mut __pilota_decoding_field_id = None;

            __protocol.read_struct_begin().await?;
            if let ::std::result::Result::Err(mut err) = async {
                    loop {


                let field_ident = __protocol.read_field_begin().await?;
                if field_ident.field_type == ::pilota::thrift::TType::Stop {

                    break;
                } else {

                }
                __pilota_decoding_field_id = field_ident.id;
                match field_ident.id {
                    Some(127) if field_ident.field_type == ::pilota::thrift::TType::List  => {
                    var_127 = Some({
                            let list_ident = __protocol.read_list_begin().await?;
                            let mut val = ::std::vec::Vec::with_capacity(list_ident.size);
                            for _ in 0..list_ident.size {
                                val.push(__protocol.read_i64().await?);
                            };
                            __protocol.read_list_end().await?;
                            val
                        });

                },Some(1142) if field_ident.field_type == ::pilota::thrift::TType::I32  => {
                    var_1142 = Some(__protocol.read_i32().await?);

                },Some(128) if field_ident.field_type == ::pilota::thrift::TType::List  => {
                    var_128 = Some({
                            let list_ident = __protocol.read_list_begin().await?;
                            let mut val = ::std::vec::Vec::with_capacity(list_ident.size);
                            for _ in 0..list_ident.size {
                                val.push(__protocol.read_double().await?);
                            };
                            __protocol.read_list_end().await?;
                            val
                        });

                },Some(300) if field_ident.field_type == ::pilota::thrift::TType::List  => {
                    var_300 = Some({
                            let list_ident = __protocol.read_list_begin().await?;
                            let mut val = ::std::vec::Vec::with_capacity(list_ident.size);
                            for _ in 0..list_ident.size {
                                val.push(__protocol.read_faststr().await?);
                            };
                            __protocol.read_list_end().await?;
                            val
                        });

                },
                    _ => {
                        __protocol.skip(field_ident.field_type).await?;

                    },
                }

                __protocol.read_field_end().await?;


            };
                    ::std::result::Result::Ok::<_, ::pilota::thrift::ThriftException>(())
                }.await {
                if let Some(field_id) = __pilota_decoding_field_id {
                    err.prepend_msg(&format!("decode struct `Df15` field(#{}) failed, caused by: ", field_id));
                }
                return ::std::result::Result::Err(err);
            };
            __protocol.read_struct_end().await?;



            if var_127.is_none() {
                                var_127 = Some(::std::vec![1099511627776i64]);
                            }
if var_128.is_none() {
                                var_128 = Some(::std::vec![16777217f64,2.5f64]);
                            }
if var_300.is_none() {
                                var_300 = Some(::std::vec![::pilota::FastStr::from_static_str("a"),::pilota::FastStr::from_static_str("b")]);
                            }

            let data = Self {
                d1: var_127,plain: var_1142,d2: var_128,d3: var_300, _unknown_fields: ::pilota::LinkedBytes::new()
            };
            ::std::result::Result::Ok(data)

            })
        }

                fn size<T: ::pilota::thrift::TLengthProtocol>(&self, __protocol: &mut T) -> usize {
                    #[allow(unused_imports)]
                    use ::pilota::thrift::TLengthProtocolExt;
                    __protocol.struct_begin_len(&::pilota::thrift::TStructIdentifier {
                    name: "Df15",
                }) + self.d1.as_ref().map_or(0, |value| __protocol.list_field_len(Some(127), ::pilota::thrift::TType::I64, value, |__protocol, el| {
                        __protocol.i64_len(*el)
                    })) +self.plain.as_ref().map_or(0, |value| __protocol.i32_field_len(Some(1142), *value)) +self.d2.as_ref().map_or(0, |value| __protocol.list_field_len(Some(128), ::pilota::thrift::TType::Double, value, |__protocol, el| {
                        __protocol.double_len(*el)
                    })) +self.d3.as_ref().map_or(0, |value| __protocol.list_field_len(Some(300), ::pilota::thrift::TType::Binary, value, |__protocol, el| {
                        __protocol.faststr_len(el)
                    })) +self._unknown_fields.size() + __protocol.field_stop_len() + __protocol.struct_end_len()
                }
            }
                                impl ::std::default::Default for Df70 {
                                    fn default() -> Self {
                                        Df70 {
                                            d1: ::std::vec![100i32,100i32,200i32,100i32],
plain: ::std::default::Default::default(),
d2: ::std::vec![::pilota::FastStr::from_static_str("x"),::pilota::FastStr::from_static_str("x"),::pilota::FastStr::from_static_str("y")],
d3: ::std::vec![true,true,false,false],
_unknown_fields: ::pilota::LinkedBytes::new()
                                        }
                                    }
                                }
                            #[derive(PartialOrd)]
#[derive(Hash, Eq, Ord)]
#[derive(Debug)]#[derive(Clone, PartialEq)]
                pub struct Df70 {

                        pub d1: ::std::vec::Vec<i32>,

                        pub plain: ::std::option::Option<i32>,

                        pub d2: ::std::vec::Vec<::pilota::FastStr>,

                        pub d3: ::std::vec::Vec<bool>,pub _unknown_fields: ::pilota::LinkedBytes,
                }
            impl ::pilota::thrift::Message for Df70 {
                fn encode<T: ::pilota::thrift::TOutputProtocol>(
                    &self,
                    __protocol: &mut T,
                ) -> ::std::result::Result<(),::pilota::thrift::ThriftException> {
                    #[allow(unused_imports)]
                    use ::pilota::thrift::TOutputProtocolExt;
                    let struct_ident =::pilota::thrift::TStructIdentifier {
                    name: "Df70",
                };

                __protocol.write_struct_begin(&struct_ident)?;
                __protocol.write_list_field(1, ::pilota::thrift::TType::I32, &&self.d1, |__protocol, val| {
                        __protocol.write_i32(*val)?;
                        ::std::result::Result::Ok(())
                    })?;if let Some(value) = self.plain.as_ref() {
                        __protocol.write_i32_field(1071, *value)?;
                    }__protocol.write_list_field(2, ::pilota::thrift::TType::Binary, &&self.d2, |__protocol, val| {
                        __protocol.write_faststr((val).clone())?;
                        ::std::result::Result::Ok(())
                    })?;__protocol.write_list_field(3, ::pilota::thrift::TType::Bool, &&self.d3, |__protocol, val| {
                        __protocol.write_bool(*val)?;
                        ::std::result::Result::Ok(())
                    })?;for bytes in self._unknown_fields.list.iter() {
                                __protocol.write_bytes_without_len(bytes.clone());
                            }
                __protocol.write_field_stop()?;
                __protocol.write_struct_end()?;
                ::std::result::Result::Ok(())

                }

                fn decode<T: ::pilota::thrift::TInputProtocol>(
                    __protocol: &mut T,
                ) -> ::std::result::Result<Self,::pilota::thrift::ThriftException>  {
                    #[allow(unused_imports)]
                    use ::pilota::{thrift::TLengthProtocolExt, Buf};


            let mut var_1 = None;let mut var_1071 = None;let mut var_2 = None;let mut var_3 = None;let mut _unknown_fields = ::pilota::LinkedBytes::new();

            let mut __pilota_decoding_field_id = None;

            __protocol.read_struct_begin()?;
            if let ::std::result::Result::Err(mut err) = (|| {
                    loop {

                let mut __pilota_offset = 0;
            let __pilota_begin_ptr = __protocol.buf().chunk().as_ptr();
                let field_ident = __protocol.read_field_begin()?;
                if field_ident.field_type == ::pilota::thrift::TType::Stop {
                    __pilota_offset += __protocol.field_stop_len();
                    break;
                } else {
                    __pilota_offset += __protocol.field_begin_len(field_ident.field_type, field_ident.id);
                }
                __pilota_decoding_field_id = field_ident.id;
                match field_ident.id {
                    Some(1) if field_ident.field_type == ::pilota::thrift::TType::List  => {
                    var_1 = Some(unsafe {
                            let list_ident = __protocol.read_list_begin()?;
                            let mut val: ::std::vec::Vec<i32> = ::std::vec::Vec::with_capacity(list_ident.size);
                            for i in 0..list_ident.size {
                                val.as_mut_ptr().offset(i as isize).write(__protocol.read_i32()?);
                            };
                            val.set_len(list_ident.size);
                            __protocol.read_list_end()?;
                            val
                        });

                },Some(1071) if field_ident.field_type == ::pilota::thrift::TType::I32  => {
                    var_1071 = Some(__protocol.read_i32()?);

                },Some(2) if field_ident.field_type == ::pilota::thrift::TType::List  => {
                    var_2 = Some(unsafe {
                            let list_ident = __protocol.read_list_begin()?;
                            let mut val: ::std::vec::Vec<::pilota::FastStr> = ::std::vec::Vec::with_capacity(list_ident.size);
                            for i in 0..list_ident.size {
                                val.as_mut_ptr().offset(i as isize).write(__protocol.read_faststr()?);
                            };
                            val.set_len(list_ident.size);
                            __protocol.read_list_end()?;
                            val
                        });

                },Some(3) if field_ident.field_type == ::pilota::thrift::TType::List  => {
                    var_3 = Some(unsafe {
                            let list_ident = __protocol.read_list_begin()?;
                            let mut val: ::std::vec::Vec<bool> = ::std::vec::Vec::with_capacity(list_ident.size);
                            for i in 0..list_ident.size {
                                val.as_mut_ptr().offset(i as isize).write(__protocol.read_bool()?);
                            };
                            val.set_len(list_ident.size);
                            __protocol.read_list_end()?;
                            val
                        });

                },
                    _ => {
                        __pilota_offset += __protocol.skip(field_ident.field_type)?;
                        _unknown_fields.push_back(__protocol.get_bytes(Some(__pilota_begin_ptr), __pilota_offset)?);
                    },
                }

                __protocol.read_field_end()?;
                __pilota_offset += __protocol.field_end_len();

            };
                    ::std::result::Result::Ok::<_, ::pilota::thrift::ThriftException>(())
                })() {
                if let Some(field_id) = __pilota_decoding_field_id {
                    err.prepend_msg(&format!("decode struct `Df70` field(#{}) failed, caused by: ", field_id));
                }
                return ::std::result::Result::Err(err);
            };
            __protocol.read_struct_end()?;



            let var_1 = var_1.unwrap_or_else(|| ::std::vec![100i32,100i32,200i32,100i32]);
let var_2 = var_2.unwrap_or_else(|| ::std::vec![::pilota::FastStr::from_static_str("x"),::pilota::FastStr::from_static_str("x"),::pilota::FastStr::from_static_str("y")]);
let var_3 = var_3.unwrap_or_else(|| ::std::vec![true,true,false,false]);

            let data = Self {
                d1: var_1,plain: var_1071,d2: var_2,d3: var_3, _unknown_fields
            };
            ::std::result::Result::Ok(data)

                }

                fn decode_async<'a, T: ::pilota::thrift::TAsyncInputProtocol>(
            __protocol: &'a mut T,
        ) -> ::std::pin::Pin<::std::boxed::Box<dyn ::std::future::Future<Output = ::std::result::Result<Self, ::pilota::thrift::ThriftException>> + Send + 'a>> {
            ::std::boxed::Box::pin(async move {


            let mut var_1 = None;let mut var_1071 = None;let mut var_2 = None;let mut var_3 = None;

            let mut __pilota_decoding_field_id = None;

            __protocol.read_struct_begin().await?;
            if let ::std::result::Result::Err(mut err) = async {
                    loop {


                let field_ident = __protocol.read_field_begin().await?;
                if field_ident.field_type == ::pilota::thrift::TType::Stop {

                    break;
                } else {

                }
                __pilota_decoding_field_id = field_ident.id;
                match field_ident.id {
                    Some(1) if field_ident.field_type == ::pilota::thrift::TType::List  => {
                    var_1 = Some({
                            let list_ident = __protocol.read_list_begin().await?;
                            let mut val = ::std::vec::Vec::with_capacity(list_ident.size);
                            for _ in 0..list_ident.size {
                                val.push(__protocol.read_i32().await?);
                            };
                            __protocol.read_list_end().await?;
                            val
                        });

                },Some(1071) if field_ident.field_type == ::pilota::thrift::TType::I32  => {
                    var_1071 = Some(__protocol.read_i32().await?);

                },Some(2) if field_ident.field_type == ::pilota::thrift::TType::List  => {
                    var_2 = Some({
                            let list_ident = __protocol.read_list_begin().await?;
                            let mut val = ::std::vec::Vec::with_capacity(list_ident.size);
                            for _ in 0..list_ident.size {
                                val.push(__protocol.read_faststr().await?);
                            };
                            __protocol.read_list_end().await?;
                            val
                        });

                },Some(3) if field_ident.field_type == ::pilota::thrift::TType::List  => {
                    var_3 = Some({
                            let list_ident = __protocol.read_list_begin().await?;
                            let mut val = ::std::vec::Vec::with_capacity(list_ident.size);
                            for _ in 0..list_ident.size {
                                val.push(__protocol.read_bool().await?);
                            };
                            __protocol.read_list_end().await?;
                            val
                        });

                },
                    _ => {
                        __protocol.skip(field_ident.field_type).await?;

                    },
                }

                __protocol.read_field_end().await?;


            };
                    ::std::result::Result::Ok::<_, ::pilota::thrift::ThriftException>(())
                }.await {
                if let Some(field_id) = __pilota_decoding_field_id {
                    err.prepend_msg(&format!("decode struct `Df70` field(#{}) failed, caused by: ", field_id));
                }
                return ::std::result::Result::Err(err);
            };
            __protocol.read_struct_end().await?;



            let var_1 = var_1.unwrap_or_else(|| ::std::vec![100i32,100i32,200i32,100i32]);
let var_2 = var_2.unwrap_or_else(|| ::std::vec![::pilota::FastStr::from_static_str("x"),::pilota::FastStr::from_static_str("x"),::pilota::FastStr::from_static_str("y")]);
let var_3 = var_3.unwrap_or_else(|| ::std::vec![true,true,false,false]);

            let data = Self {
                d1: var_1,plain: var_1071,d2: var_2,d3: var_3, _unknown_fields: ::pilota::LinkedBytes::new()
            };
            ::std::result::Result::Ok(data)

            })
        }

                fn size<T: ::pilota::thrift::TLengthProtocol>(&self, __protocol: &mut T) -> usize {
                    #[allow(unused_imports)]
                    use ::pilota::thrift::TLengthProtocolExt;
                    __protocol.struct_begin_len(&::pilota::thrift::TStructIdentifier {
                    name: "Df70",
                }) + __protocol.list_field_len(Some(1), ::pilota::thrift::TType::I32, &self.d1, |__protocol, el| {
                        __protocol.i32_len(*el)
                    }) +self.plain.as_ref().map_or(0, |value| __protocol.i32_field_len(Some(1071), *value)) +__protocol.list_field_len(Some(2), ::pilota::thrift::TType::Binary, &self.d2, |__protocol, el| {
                        __protocol.faststr_len(el)
                    }) +__protocol.list_field_len(Some(3), ::pilota::thrift::TType::Bool, &self.d3, |__protocol, el| {
                        __protocol.bool_len(*el)
                    }) +self._unknown_fields.size() + __protocol.field_stop_len() + __protocol.struct_end_len()
                }
            }
                                    impl ::std::default::Default for U1 {
                                        fn default() -> Self {
                                            U1::N (::std::default::Default::default())
                                        }
                                    }
                                #[derive(PartialOrd)]
#[derive(Hash, Eq, Ord)]
#[derive(Debug)]
            #[derive(Clone, PartialEq)]
            pub enum U1 {

                        N (i64),

                        S (::pilota::FastStr),

                        L (Leaf1),

                        Xs (::std::vec::Vec<i16>),_UnknownFields(::pilota::LinkedBytes),
            }

            impl ::pilota::thrift::Message for U1 {
                fn encode<T: ::pilota::thrift::TOutputProtocol>(
                    &self,
                    __protocol: &mut T,
                ) -> ::std::result::Result<(),::pilota::thrift::ThriftException> {
                    #[allow(unused_imports)]
                    use ::pilota::thrift::TOutputProtocolExt;
                    __protocol.write_struct_begin(&::pilota::thrift::TStructIdentifier {
                            name: "U1",
                        })?;
                        match self {
                            U1::N(value) => {
                            __protocol.write_i64_field(1, *value)?;
                        },U1::S(value) => {
                            __protocol.write_faststr_field(2, (value).clone())?;
                        },U1::L(value) => {
                            __protocol.write_struct_field(3, value, ::pilota::thrift::TType::Struct)?;
                        },U1::Xs(value) => {
                            __protocol.write_list_field(16, ::pilota::thrift::TType::I16, &value, |__protocol, val| {
                        __protocol.write_i16(*val)?;
                        ::std::result::Result::Ok(())
                    })?;
                        },U1::_UnknownFields(value) => {
                                        for bytes in value.list.iter() {
                                            __protocol.write_bytes_without_len(bytes.clone());
                                        }
                                    }
                        }
                        __protocol.write_field_stop()?;
                        __protocol.write_struct_end()?;
                        ::std::result::Result::Ok(())
                }

                fn decode<T: ::pilota::thrift::TInputProtocol>(
                    __protocol: &mut T,
                ) -> ::std::result::Result<Self,::pilota::thrift::ThriftException>  {
                    #[allow(unused_imports)]
                    use ::pilota::{thrift::TLengthProtocolExt, Buf};
                    let mut ret = None;
                            __protocol.read_struct_begin()?;
                            loop {
                                let mut __pilota_offset = 0;
                            let __pilota_begin_ptr = __protocol.buf().chunk().as_ptr();
                                let field_ident = __protocol.read_field_begin()?;
                                if field_ident.field_type == ::pilota::thrift::TType::Stop {
                                    __pilota_offset += __protocol.field_stop_len();
                                    break;
                                } else {
                                    __pilota_offset += __protocol.field_begin_len(field_ident.field_type, field_ident.id);
                                }
                                match field_ident.id {
                                    Some(1) => {
                                    if ret.is_none() {
                                        let field_ident = __protocol.read_i64()?;
                                        __pilota_offset += __protocol.i64_len(*&field_ident);
                                        ret = Some(U1::N(field_ident));
                                    } else {
                                        return ::std::result::Result::Err(::pilota::thrift::new_protocol_exception(
                                            ::pilota::thrift::ProtocolExceptionKind::InvalidData,
                                            "received multiple fields for union from remote Message"
                                        ));
                                    }
                                },Some(2) => {
                                    if ret.is_none() {
                                        let field_ident = __protocol.read_faststr()?;
                                        __pilota_offset += __protocol.faststr_len(&field_ident);
                                        ret = Some(U1::S(field_ident));
                                    } else {
                                        return ::std::result::Result::Err(::pilota::thrift::new_protocol_exception(
                                            ::pilota::thrift::ProtocolExceptionKind::InvalidData,
                                            "received multiple fields for union from remote Message"
                                        ));
                                    }
                                },Some(3) => {
                                    if ret.is_none() {
                                        let field_ident = ::pilota::thrift::Message::decode(__protocol)?;
                                        __pilota_offset += __protocol.struct_len(&field_ident);
                                        ret = Some(U1::L(field_ident));
                                    } else {
                                        return ::std::result::Result::Err(::pilota::thrift::new_protocol_exception(
                                            ::pilota::thrift::ProtocolExceptionKind::InvalidData,
                                            "received multiple fields for union from remote Message"
                                        ));
                                    }
                                },Some(16) => {
                                    if ret.is_none() {
                                        let field_ident = unsafe {
                            let list_ident = __protocol.read_list_begin()?;
                            let mut val: ::std::vec::Vec<i16> = ::std::vec::Vec::with_capacity(list_ident.size);
                            for i in 0..list_ident.size {
                                val.as_mut_ptr().offset(i as isize).write(__protocol.read_i16()?);
                            };
                            val.set_len(list_ident.size);
                            __protocol.read_list_end()?;
                            val
                        };
                                        __pilota_offset += __protocol.list_len(::pilota::thrift::TType::I16, &field_ident, |__protocol, el| {
                        __protocol.i16_len(*el)
                    });
                                        ret = Some(U1::Xs(field_ident));
                                    } else {
                                        return ::std::result::Result::Err(::pilota::thrift::new_protocol_exception(
                                            ::pilota::thrift::ProtocolExceptionKind::InvalidData,
                                            "received multiple fields for union from remote Message"
                                        ));
                                    }
                                },
                                    _ => {
                                        __pilota_offset += __protocol.skip(field_ident.field_type)?;
                                        if ret.is_none() {
                                unsafe {
                                    let mut __pilota_linked_bytes = ::pilota::LinkedBytes::new();
                                    __pilota_linked_bytes.push_back(__protocol.get_bytes(Some(__pilota_begin_ptr), __pilota_offset)?);
                                    ret = Some(U1::_UnknownFields(__pilota_linked_bytes));
                                }
                            } else {
                                return ::std::result::Result::Err(::pilota::thrift::new_protocol_exception(
                                    ::pilota::thrift::ProtocolExceptionKind::InvalidData,
                                    "received multiple fields for union from remote Message"
                                ));
                            }
                                    },
                                }
                            }
                            __protocol.read_field_end()?;
                            __protocol.read_struct_end()?;
                            if let Some(ret) = ret {
                                ::std::result::Result::Ok(ret)
                            } else {
                                ::std::result::Result::Err(::pilota::thrift::new_protocol_exception(
                                    ::pilota::thrift::ProtocolExceptionKind::InvalidData,
                                    "received empty union from remote Message")
                                )
                            }
                }

                fn decode_async<'a, T: ::pilota::thrift::TAsyncInputProtocol>(
            __protocol: &'a mut T,
        ) -> ::std::pin::Pin<::std::boxed::Box<dyn ::std::future::Future<Output = ::std::result::Result<Self, ::pilota::thrift::ThriftException>> + Send + 'a>> {
            ::std::boxed::Box::pin(async move {
                let mut ret = None;
                            __protocol.read_struct_begin().await?;
                            loop {

                                let field_ident = __protocol.read_field_begin().await?;
                                if field_ident.field_type == ::pilota::thrift::TType::Stop {

                                    break;
                                } else {

                                }
                                match field_ident.id {
                                    Some(1) => {
                                    if ret.is_none() {
                                        let field_ident = __protocol.read_i64().await?;

                                        ret = Some(U1::N(field_ident));
                                    } else {
                                        return ::std::result::Result::Err(::pilota::thrift::new_protocol_exception(
                                            ::pilota::thrift::ProtocolExceptionKind::InvalidData,
                                            "received multiple fields for union from remote Message"
                                        ));
                                    }
                                },Some(2) => {
                                    if ret.is_none() {
                                        let field_ident = __protocol.read_faststr().await?;

                                        ret = Some(U1::S(field_ident));
                                    } else {
                                        return ::std::result::Result::Err(::pilota::thrift::new_protocol_exception(
                                            ::pilota::thrift::ProtocolExceptionKind::InvalidData,
                                            "received multiple fields for union from remote Message"
                                        ));
                                    }
                                },Some(3) => {
                                    if ret.is_none() {
                                        let field_ident = <Leaf1 as ::pilota::thrift::Message>::decode_async(__protocol).await?;

                                        ret = Some(U1::L(field_ident));
                                    } else {
                                        return ::std::result::Result::Err(::pilota::thrift::new_protocol_exception(
                                            ::pilota::thrift::ProtocolExceptionKind::InvalidData,
                                            "received multiple fields for union from remote Message"
                                        ));
                                    }
                                },Some(16) => {
                                    if ret.is_none() {
                                        let field_ident = {
                            let list_ident = __protocol.read_list_begin().await?;
                            let mut val = ::std::vec::Vec::with_capacity(list_ident.size);
                            for _ in 0..list_ident.size {
                                val.push(__protocol.read_i16().await?);
                            };
                            __protocol.read_list_end().await?;
                            val
                        };

                                        ret = Some(U1::Xs(field_ident));
                                    } else {
                                        return ::std::result::Result::Err(::pilota::thrift::new_protocol_exception(
                                            ::pilota::thrift::ProtocolExceptionKind::InvalidData,
                                            "received multiple fields for union from remote Message"
                                        ));
                                    }
                                },
                                    _ => {
                                        __protocol.skip(field_ident.field_type).await?;

                                    },
                                }
                            }
                            __protocol.read_field_end().await?;
                            __protocol.read_struct_end().await?;
                            if let Some(ret) = ret {
                                ::std::result::Result::Ok(ret)
                            } else {
                                ::std::result::Result::Err(::pilota::thrift::new_protocol_exception(
                                    ::pilota::thrift::ProtocolExceptionKind::InvalidData,
                                    "received empty union from remote Message")
                                )
                            }
            })
        }

                fn size<T: ::pilota::thrift::TLengthProtocol>(&self, __protocol: &mut T) -> usize {
                    #[allow(unused_imports)]
                    use ::pilota::thrift::TLengthProtocolExt;
                    __protocol.struct_begin_len(&::pilota::thrift::TStructIdentifier {
                                name: "U1",
                            }) + match self {
                                U1::N(value) => {
                            __protocol.i64_field_len(Some(1), *value)
                        },U1::S(value) => {
                            __protocol.faststr_field_len(Some(2), value)
                        },U1::L(value) => {
                            __protocol.struct_field_len(Some(3), value)
                        },U1::Xs(value) => {
                            __protocol.list_field_len(Some(16), ::pilota::thrift::TType::I16, value, |__protocol, el| {
                        __protocol.i16_len(*el)
                    })
                        },U1::_UnknownFields(value) => {
                                value.size()
                            }
                            } +  __protocol.field_stop_len() + __protocol.struct_end_len()
                }
            }
                                impl ::std::default::Default for Df46 {
                                    fn default() -> Self {
                                        Df46 {
                                            d1: Some(::std::vec![100i32,100i32,200i32,100i32]),
plain: ::std::default::Default::default(),
d2: Some(::std::vec![::pilota::FastStr::from_static_str("x"),::pilota::FastStr::from_static_str("x"),::pilota::FastStr::from_static_str("y")]),
d3: Some(::std::vec![true,true,false,false]),
_unknown_fields: ::pilota::LinkedBytes::new()
                                        }
                                    }
                                }
                            #[derive(PartialOrd)]
#[derive(Hash, Eq, Ord)]
#[derive(Debug)]#[derive(Clone, PartialEq)]
                pub struct Df46 {

                        pub d1: ::std::option::Option<::std::vec::Vec<i32>>,

                        pub plain: ::std::option::Option<i32>,

                        pub d2: ::std::option::Option<::std::vec::Vec<::pilota::FastStr>>,

                        pub d3: ::std::option::Option<::std::vec::Vec<bool>>,pub _unknown_fields: ::pilota::LinkedBytes,
                }
            impl ::pilota::thrift::Message for Df46 {
                fn encode<T: ::pilota::thrift::TOutputProtocol>(
                    &self,
                    __protocol: &mut T,
                ) -> ::std::result::Result<(),::pilota::thrift::ThriftException> {
                    #[allow(unused_imports)]
                    use ::pilota::thrift::TOutputProtocolExt;
                    let struct_ident =::pilota::thrift::TStructIdentifier {
                    name: "Df46",
                };

                __protocol.write_struct_begin(&struct_ident)?;
                if let Some(value) = self.d1.as_ref() {
                        __protocol.write_list_field(3, ::pilota::thrift::TType::I32, &value, |__protocol, val| {
                        __protocol.write_i32(*val)?;
                        ::std::result::Result::Ok(())
                    })?;
                    }if let Some(value) = self.plain.as_ref() {
                        __protocol.write_i32_field(1049, *value)?;
                    }if let Some(value) = self.d2.as_ref() {
                        __protocol.write_list_field(4, ::pilota::thrift::TType::Binary, &value, |__protocol, val| {
                        __protocol.write_faststr((val).clone())?;
                        ::std::result::Result::Ok(())
                    })?;
                    }if let Some(value) = self.d3.as_ref() {
                        __protocol.write_list_field(17, ::pilota::thrift::TType::Bool, &value, |__protocol, val| {
                        __protocol.write_bool(*val)?;
                        ::std::result::Result::Ok(())
                    })?;
                    }for bytes in self._unknown_fields.list.iter() {
                                __protocol.write_bytes_without_len(bytes.clone());
                            }
                __protocol.write_field_stop()?;
                __protocol.write_struct_end()?;
                ::std::result::Result::Ok(())

                }

                fn decode<T: ::pilota::thrift::TInputProtocol>(
                    __protocol: &mut T,
                ) -> ::std::result::Result<Self,::pilota::thrift::ThriftException>  {
                    #[allow(unused_imports)]
                    use ::pilota::{thrift::TLengthProtocolExt, Buf};


            let mut var_3 = None;let mut var_1049 = None;let mut var_4 = None;let mut var_17 = None;let mut _unknown_fields = ::pilota::LinkedBytes::new();

            let mut __pilota_decoding_field_id = None;

            __protocol.read_struct_begin()?;
            if let ::std::result::Result::Err(mut err) = (|| {
                    loop {

                let mut __pilota_offset = 0;
            let __pilota_begin_ptr = __protocol.buf().chunk().as_ptr();
                let field_ident = __protocol.read_field_begin()?;
                if field_ident.field_type == ::pilota::thrift::TType::Stop {
                    __pilota_offset += __protocol.field_stop_len();
                    break;
                } else {
                    __pilota_offset += __protocol.field_begin_len(field_ident.field_type, field_ident.id);
                }
                __pilota_decoding_field_id = field_ident.id;
                match field_ident.id {
                    Some(3) if field_ident.field_type == ::pilota::thrift::TType::List  => {
                    var_3 = Some(unsafe {
                            let list_ident = __protocol.read_list_begin()?;
                            let mut val: ::std::vec::Vec<i32> = ::std::vec::Vec::with_capacity(list_ident.size);
                            for i in 0..list_ident.size {
                                val.as_mut_ptr().offset(i as isize).write(__protocol.read_i32()?);
                            };
                            val.set_len(list_ident.size);
                            __protocol.read_list_end()?;
                            val
                        });

                },Some(1049) if field_ident.field_type == ::pilota::thrift::TType::I32  => {
                    var_1049 = Some(__protocol.read_i32()?);

                },Some(4) if field_ident.field_type == ::pilota::thrift::TType::List  => {
                    var_4 = Some(unsafe {
                            let list_ident = __protocol.read_list_begin()?;
                            let mut val: ::std::vec::Vec<::pilota::FastStr> = ::std::vec::Vec::with_capacity(list_ident.size);
                            for i in 0..list_ident.size {
                                val.as_mut_ptr().offset(i as isize).write(__protocol.read_faststr()?);
                            };
                            val.set_len(list_ident.size);
                            __protocol.read_list_end()?;
                            val
                        });

                },Some(17) if field_ident.field_type == ::pilota::thrift::TType::List  => {
                    var_17 = Some(unsafe {
                            let list_ident = __protocol.read_list_begin()?;
                            let mut val: ::std::vec::Vec<bool> = ::std::vec::Vec::with_capacity(list_ident.size);
                            for i in 0..list_ident.size {
                                val.as_mut_ptr().offset(i as isize).write(__protocol.read_bool()?);
                            };
                            val.set_len(list_ident.size);
                            __protocol.read_list_end()?;
                            val
                        });

                },
                    _ => {
                        __pilota_offset += __protocol.skip(field_ident.field_type)?;
                        _unknown_fields.push_back(__protocol.get_bytes(Some(__pilota_begin_ptr), __pilota_offset)?);
                    },
                }

                __protocol.read_field_end()?;
                __pilota_offset += __protocol.field_end_len();

            };
                    ::std::result::Result::Ok::<_, ::pilota::thrift::ThriftException>(())
                })() {
                if let Some(field_id) = __pilota_decoding_field_id {
                    err.prepend_msg(&format!("decode struct `Df46` field(#{}) failed, caused by: ", field_id));
                }
                return ::std::result::Result::Err(err);
            };
            __protocol.read_struct_end()?;



            if var_3.is_none() {
                                var_3 = Some(::std::vec![100i32,100i32,200i32,100i32]);
                            }
if var_4.is_none() {
                                var_4 = Some(::std::vec![::pilota::FastStr::from_static_str("x"),::pilota::FastStr::from_static_str("x"),::pilota::FastStr::from_static_str("y")]);
                            }
if var_17.is_none() {
                                var_17 = Some(::std::vec![true,true,false,false]);
                            }

            let data = Self {
                d1: var_3,plain: var_1049,d2: var_4,d3: var_17, _unknown_fields
            };
            ::std::result::Result::Ok(data)

                }

                fn decode_async<'a, T: ::pilota::thrift::TAsyncInputProtocol>(
            __protocol: &'a mut T,
        ) -> ::std::pin::Pin<::std::boxed::Box<dyn ::std::future::Future<Output = ::std::result::Result<Self, ::pilota::thrift::ThriftException>> + Send + 'a>> {
            ::std::boxed::Box::pin(async move {


            let mut var_3 = None;let mut var_1049 = None;let mut var_4 = None;let mut var_17 = None;

            let mut __pilota_decoding_field_id = None;

            __protocol.read_struct_begin().await?;
            if let ::std::result::Result::Err(mut err) = async {
                    loop {


                let field_ident = __protocol.read_field_begin().await?;
                if field_ident.field_type == ::pilota::thrift::TType::Stop {

                    break;
                } else {

                }
                __pilota_decoding_field_id = field_ident.id;
                match field_ident.id {
                    Some(3) if field_ident.field_type == ::pilota::thrift::TType::List  => {
                    var_3 = Some({
                            let list_ident = __protocol.read_list_begin().await?;
                            let mut val = ::std::vec::Vec::with_capacity(list_ident.size);
                            for _ in 0..list_ident.size {
                                val.push(__protocol.read_i32().await?);
                            };
                            __protocol.read_list_end().await?;
                            val
                        });

                },Some(1049) if field_ident.field_type == ::pilota::thrift::TType::I32  => {
                    var_1049 = Some(__protocol.read_i32().await?);

                },Some(4) if field_ident.field_type == ::pilota::thrift::TType::List  => {
                    var_4 = Some({
                            let list_ident = __protocol.read_list_begin().await?;
                            let mut val = ::std::vec::Vec::with_capacity(list_ident.size);
                            for _ in 0..list_ident.size {
                                val.push(__protocol.read_faststr().await?);
                            };
                            __protocol.read_list_end().await?;
                            val
                        });

                },Some(17) if field_ident.field_type == ::pilota::thrift::TType::List  => {
                    var_17 = Some({
                            let list_ident = __protocol.read_list_begin().await?;
                            let mut val = ::std::vec::Vec::with_capacity(list_ident.size);
                            for _ in 0..list_ident.size {
                                val.push(__protocol.read_bool().await?);
                            };
                            __protocol.read_list_end().await?;
                            val
                        });

                },
                    _ => {
                        __protocol.skip(field_ident.field_type).await?;

                    },
                }

                __protocol.read_field_end().await?;


            };
                    ::std::result::Result::Ok::<_, ::pilota::thrift::ThriftException>(())
                }.await {
                if let Some(field_id) = __pilota_decoding_field_id {
                    err.prepend_msg(&format!("decode struct `Df46` field(#{}) failed, caused by: ", field_id));
                }
                return ::std::result::Result::Err(err);
            };
            __protocol.read_struct_end().await?;



            if var_3.is_none() {
                                var_3 = Some(::std::vec![100i32,100i32,200i32,100i32]);
                            }
if var_4.is_none() {
                                var_4 = Some(::std::vec![::pilota::FastStr::from_static_str("x"),::pilota::FastStr::from_static_str("x"),::pilota::FastStr::from_static_str("y")]);
                            }
if var_17.is_none() {
                                var_17 = Some(::std::vec![true,true,false,false]);
                            }

            let data = Self {
                d1: var_3,plain: var_1049,d2: var_4,d3: var_17, _unknown_fields: ::pilota::LinkedBytes::new()
            };
            ::std::result::Result::Ok(data)

            })
        }

                fn size<T: ::pilota::thrift::TLengthProtocol>(&self, __protocol: &mut T) -> usize {
                    #[allow(unused_imports)]
                    use ::pilota::thrift::TLengthProtocolExt;
                    __protocol.struct_begin_len(&::pilota::thrift::TStructIdentifier {
                    name: "Df46",
                }) + self.d1.as_ref().map_or(0, |value| __protocol.list_field_len(Some(3), ::pilota::thrift::TType::I32, value, |__protocol, el| {
                        __protocol.i32_len(*el)
                    })) +self.plain.as_ref().map_or(0, |value| __protocol.i32_field_len(Some(1049), *value)) +self.d2.as_ref().map_or(0, |value| __protocol.list_field_len(Some(4), ::pilota::thrift::TType::Binary, value, |__protocol, el| {
                        __protocol.faststr_len(el)
                    })) +self.d3.as_ref().map_or(0, |value| __protocol.list_field_len(Some(17), ::pilota::thrift::TType::Bool, value, |__protocol, el| {
                        __protocol.bool_len(*el)
                    })) +self._unknown_fields.size() + __protocol.field_stop_len() + __protocol.struct_end_len()
                }
            }
                                impl ::std::default::Default for Df22 {
                                    fn default() -> Self {
                                        Df22 {
                                            d1: Some(::std::vec![100i32,100i32,200i32,100i32]),
plain: ::std::default::Default::default(),
d2: Some(::std::vec![::pilota::FastStr::from_static_str("x"),::pilota::FastStr::from_static_str("x"),::pilota::FastStr::from_static_str("y")]),
d3: Some(::std::vec![true,true,false,false]),
_unknown_fields: ::pilota::LinkedBytes::new()
                                        }
                                    }
                                }
                            #[derive(PartialOrd)]
#[derive(Hash, Eq, Ord)]
#[derive(Debug)]#[derive(Clone, PartialEq)]
                pub struct Df22 {

                        pub d1: ::std::option::Option<::std::vec::Vec<i32>>,

                        pub plain: ::std::option::Option<i32>,

                        pub d2: ::std::option::Option<::std::vec::Vec<::pilota::FastStr>>,

                        pub d3: ::std::option::Option<::std::vec::Vec<bool>>,pub _unknown_fields: ::pilota::LinkedBytes,
                }
            impl ::pilota::thrift::Message for Df22 {
                fn encode<T: ::pilota::thrift::TOutputProtocol>(
                    &self,
                    __protocol: &mut T,
                ) -> ::std::result::Result<(),::pilota::thrift::ThriftException> {
                    #[allow(unused_imports)]
                    use ::pilota::thrift::TOutputProtocolExt;
                    let struct_ident =::pilota::thrift::TStructIdentifier {
                    name: "Df22",
                };

                __protocol.write_struct_begin(&struct_ident)?;
                if let Some(value) = self.d1.as_ref() {
                        __protocol.write_list_field(1, ::pilota::thrift::TType::I32, &value, |__protocol, val| {
                        __protocol.write_i32(*val)?;
                        ::std::result::Result::Ok(())
                    })?;
                    }if let Some(value) = self.plain.as_ref() {
                        __protocol.write_i32_field(1023, *value)?;
                    }if let Some(value) = self.d2.as_ref() {
                        __protocol.write_list_field(2, ::pilota::thrift::TType::Binary, &value, |__protocol, val| {
                        __protocol.write_faststr((val).clone())?;
                        ::std::result::Result::Ok(())
                    })?;
                    }if let Some(value) = self.d3.as_ref() {
                        __protocol.write_list_field(32767, ::pilota::thrift::TType::Bool, &value, |__protocol, val| {
                        __protocol.write_bool(*val)?;
                        ::std::result::Result::Ok(())
                    })?;
                    }for bytes in self._unknown_fields.list.iter() {
                                __protocol.write_bytes_without_len(bytes.clone());
                            }
                __protocol.write_field_stop()?;
                __protocol.write_struct_end()?;
                ::std::result::Result::Ok(())

                }

                fn decode<T: ::pilota::thrift::TInputProtocol>(
                    __protocol: &mut T,
                ) -> ::std::result::Result<Self,::pilota::thrift::ThriftException>  {
                    #[allow(unused_imports)]
                    use ::pilota::{thrift::TLengthProtocolExt, Buf};


            let mut var_1 = None;let mut var_1023 = None;let mut var_2 = None;let mut var_32767 = None;let mut _unknown_fields = ::pilota::LinkedBytes::new();

            let mut __pilota_decoding_field_id = None;

            __protocol.read_struct_begin()?;
            if let ::std::result::Result::Err(mut err) = (|| {
                    loop {

                let mut __pilota_offset = 0;
            let __pilota_begin_ptr = __protocol.buf().chunk().as_ptr();
                let field_ident = __protocol.read_field_begin()?;
                if field_ident.field_type == ::pilota::thrift::TType::Stop {
                    __pilota_offset += __protocol.field_stop_len();
                    break;
                } else {
                    __pilota_offset += __protocol.field_begin_len(field_ident.field_type, field_ident.id);
                }
                __pilota_decoding_field_id = field_ident.id;
                match field_ident.id {
                    Some(1) if field_ident.field_type == ::pilota::thrift::TType::List  => {
                    var_1 = Some(unsafe {
                            let list_ident = __protocol.read_list_begin()?;
                            let mut val: ::std::vec::Vec<i32> = ::std::vec::Vec::with_capacity(list_ident.size);
                            for i in 0..list_ident.size {
                                val.as_mut_ptr().offset(i as isize).write(__protocol.read_i32()?);
                            };
                            val.set_len(list_ident.size);
                            __protocol.read_list_end()?;
                            val
                        });

                },Some(1023) if field_ident.field_type == ::pilota::thrift::TType::I32  => {
                    var_1023 = Some(__protocol.read_i32()?);

                },Some(2) if field_ident.field_type == ::pilota::thrift::TType::List  => {
                    var_2 = Some(unsafe {
                            let list_ident = __protocol.read_list_begin()?;
                            let mut val: ::std::vec::Vec<::pilota::FastStr> = ::std::vec::Vec::with_capacity(list_ident.size);
                            for i in 0..list_ident.size {
                                val.as_mut_ptr().offset(i as isize).write(__protocol.read_faststr()?);
                            };
                            val.set_len(list_ident.size);
                            __protocol.read_list_end()?;
                            val
                        });

                },Some(32767) if field_ident.field_type == ::pilota::thrift::TType::List  => {
                    var_32767 = Some(unsafe {
                            let list_ident = __protocol.read_list_begin()?;
                            let mut val: ::std::vec::Vec<bool> = ::std::vec::Vec::with_capacity(list_ident.size);
                            for i in 0..list_ident.size {
                                val.as_mut_ptr().offset(i as isize).write(__protocol.read_bool()?);
                            };
                            val.set_len(list_ident.size);
                            __protocol.read_list_end()?;
                            val
                        });

                },
                    _ => {
                        __pilota_offset += __protocol.skip(field_ident.field_type)?;
                        _unknown_fields.push_back(__protocol.get_bytes(Some(__pilota_begin_ptr), __pilota_offset)?);
                    },
                }

                __protocol.read_field_end()?;
                __pilota_offset += __protocol.field_end_len();

            };
                    ::std::result::Result::Ok::<_, ::pilota::thrift::ThriftException>(())
                })() {
                if let Some(field_id) = __pilota_decoding_field_id {
                    err.prepend_msg(&format!("decode struct `Df22` field(#{}) failed, caused by: ", field_id));
                }
                return ::std::result::Result::Err(err);
            };
            __protocol.read_struct_end()?;



            if var_1.is_none() {
                                var_1 = Some(::std::vec![100i32,100i32,200i32,100i32]);
                            }
if var_2.is_none() {
                                var_2 = Some(::std::vec![::pilota::FastStr::from_static_str("x"),::pilota::FastStr::from_static_str("x"),::pilota::FastStr::from_static_str("y")]);
                            }
if var_32767.is_none() {
                                var_32767 = Some(::std::vec![true,true,false,false]);
                            }

            let data = Self {
                d1: var_1,plain: var_1023,d2: var_2,d3: var_32767, _unknown_fields
            };
            ::std::result::Result::Ok(data)

                }

                fn decode_async<'a, T: ::pilota::thrift::TAsyncInputProtocol>(
            __protocol: &'a mut T,
        ) -> ::std::pin::Pin<::std::boxed::Box<dyn ::std::future::Future<Output = ::std::result::Result<Self, ::pilota::thrift::ThriftException>> + Send + 'a>> {
            ::std::boxed::Box::pin(async move {


            let mut var_1 = None;let mut var_1023 = None;let mut var_2 = None;let mut var_32767 = None;

            let mut __pilota_decoding_field_id = None;

            __protocol.read_struct_begin().await?;
            if let ::std::result::Result::Err(mut err) = async {
                    loop {


                let field_ident = __protocol.read_field_begin().await?;
                if field_ident.field_type == ::pilota::thrift::TType::Stop {

                    break;
                } else {

                }
                __pilota_decoding_field_id = field_ident.id;
                match field_ident.id {
                    Some(1) if field_ident.field_type == ::pilota::thrift::TType::List  => {
                    var_1 = Some({
                            let list_ident = __protocol.read_list_begin().await?;
                            let mut val = ::std::vec::Vec::with_capacity(list_ident.size);
                            for _ in 0..list_ident.size {
                                val.push(__protocol.read_i32().await?);
                            };
                            __protocol.read_list_end().await?;
                            val
                        });

                },Some(1023) if field_ident.field_type == ::pilota::thrift::TType::I32  => {
                    var_1023 = Some(__protocol.read_i32().await?);

                },Some(2) if field_ident.field_type == ::pilota::thrift::TType::List  => {
                    var_2 = Some({
                            let list_ident = __protocol.read_list_begin().await?;
                            let mut val = ::std::vec::Vec::with_capacity(list_ident.size);
                            for _ in 0..list_ident.size {
                                val.push(__protocol.read_faststr().await?);
                            };
                            __protocol.read_list_end().await?;
                            val
                        });

                },Some(32767) if field_ident.field_type == ::pilota::thrift::TType::List  => {
                    var_32767 = Some({
                            let list_ident = __protocol.read_list_begin().await?;
                            let mut val = ::std::vec::Vec::with_capacity(list_ident.size);
                            for _ in 0..list_ident.size {
                                val.push(__protocol.read_bool().await?);
                            };
                            __protocol.read_list_end().await?;
                            val
                        });

                },
                    _ => {
                        __protocol.skip(field_ident.field_type).await?;

                    },
                }

                __protocol.read_field_end().await?;


            };
                    ::std::result::Result::Ok::<_, ::pilota::thrift::ThriftException>(())
                }.await {
                if let Some(field_id) = __pilota_decoding_field_id {
                    err.prepend_msg(&format!("decode struct `Df22` field(#{}) failed, caused by: ", field_id));
                }
                return ::std::result::Result::Err(err);
            };
            __protocol.read_struct_end().await?;



            if var_1.is_none() {
                                var_1 = Some(::std::vec![100i32,100i32,200i32,100i32]);
                            }
if var_2.is_none() {
                                var_2 = Some(::std::vec![::pilota::FastStr::from_static_str("x"),::pilota::FastStr::from_static_str("x"),::pilota::FastStr::from_static_str("y")]);
                            }
if var_32767.is_none() {
                                var_32767 = Some(::std::vec![true,true,false,false]);
                            }

            let data = Self {
                d1: var_1,plain: var_1023,d2: var_2,d3: var_32767, _unknown_fields: ::pilota::LinkedBytes::new()
            };
            ::std::result::Result::Ok(data)

            })
        }

                fn size<T: ::pilota::thrift::TLengthProtocol>(&self, __protocol: &mut T) -> usize {
                    #[allow(unused_imports)]
                    use ::pilota::thrift::TLengthProtocolExt;
                    __protocol.struct_begin_len(&::pilota::thrift::TStructIdentifier {
                    name: "Df22",
                }) + self.d1.as_ref().map_or(0, |value| __protocol.list_field_len(Some(1), ::pilota::thrift::TType::I32, value, |__protocol, el| {
                        __protocol.i32_len(*el)
                    })) +self.plain.as_ref().map_or(0, |value| __protocol.i32_field_len(Some(1023), *value)) +self.d2.as_ref().map_or(0, |value| __protocol.list_field_len(Some(2), ::pilota::thrift::TType::Binary, value, |__protocol, el| {
                        __protocol.faststr_len(el)
                    })) +self.d3.as_ref().map_or(0, |value| __protocol.list_field_len(Some(32767), ::pilota::thrift::TType::Bool, value, |__protocol, el| {
                        __protocol.bool_len(*el)
                    })) +self._unknown_fields.size() + __protocol.field_stop_len() + __protocol.struct_end_len()
                }
            }
                                impl ::std::default::Default for DfEx {
                                    fn default() -> Self {
                                        DfEx {
                                            message: Some(::pilota::FastStr::from_static_str("boom")),
code: Some(-3i32),
kind: Some(E1::C),
_unknown_fields: ::pilota::LinkedBytes::new()
                                        }
                                    }
                                }
                            #[derive(PartialOrd)]
#[derive(Hash, Eq, Ord)]
#[derive(Debug)]#[derive(Clone, PartialEq)]
                pub struct DfEx {

                        pub message: ::std::option::Option<::pilota::FastStr>,

                        pub code: ::std::option::Option<i32>,

                        pub kind: ::std::option::Option<E1>,pub _unknown_fields: ::pilota::LinkedBytes,
                }
            impl ::pilota::thrift::Message for DfEx {
                fn encode<T: ::pilota::thrift::TOutputProtocol>(
                    &self,
                    __protocol: &mut T,
                ) -> ::std::result::Result<(),::pilota::thrift::ThriftException> {
                    #[allow(unused_imports)]
                    use ::pilota::thrift::TOutputProtocolExt;
                    let struct_ident =::pilota::thrift::TStructIdentifier {
                    name: "DfEx",
                };

                __protocol.write_struct_begin(&struct_ident)?;
                if let Some(value) = self.message.as_ref() {
                        __protocol.write_faststr_field(1, (value).clone())?;
                    }if let Some(value) = self.code.as_ref() {
                        __protocol.write_i32_field(2, *value)?;
                    }if let Some(value) = self.kind.as_ref() {
                        __protocol.write_i32_field(3, (value).inner())?;
                    }for bytes in self._unknown_fields.list.iter() {
                                __protocol.write_bytes_without_len(bytes.clone());
                            }
                __protocol.write_field_stop()?;
                __protocol.write_struct_end()?;
                ::std::result::Result::Ok(())

                }

                fn decode<T: ::pilota::thrift::TInputProtocol>(
                    __protocol: &mut T,
                ) -> ::std::result::Result<Self,::pilota::thrift::ThriftException>  {
                    #[allow(unused_imports)]
                    use ::pilota::{thrift::TLengthProtocolExt, Buf};


            let mut var_1 = Some(::pilota::FastStr::from_static_str("boom"));let mut var_2 = Some(-3i32);let mut var_3 = Some(E1::C);let mut _unknown_fields = ::pilota::LinkedBytes::new();

            let mut __pilota_decoding_field_id = None;

            __protocol.read_struct_begin()?;
            if let ::std::result::Result::Err(mut err) = (|| {
                    loop {

                let mut __pilota_offset = 0;
            let __pilota_begin_ptr = __protocol.buf().chunk().as_ptr();
                let field_ident = __protocol.read_field_begin()?;
                if field_ident.field_type == ::pilota::thrift::TType::Stop {
                    __pilota_offset += __protocol.field_stop_len();
                    break;
                } else {
                    __pilota_offset += __protocol.field_begin_len(field_ident.field_type, field_ident.id);
                }
                __pilota_decoding_field_id = field_ident.id;
                match field_ident.id {
                    Some(1) if field_ident.field_type == ::pilota::thrift::TType::Binary  => {
                    var_1 = Some(__protocol.read_faststr()?);

                },Some(2) if field_ident.field_type == ::pilota::thrift::TType::I32  => {
                    var_2 = Some(__protocol.read_i32()?);

                },Some(3) if field_ident.field_type == ::pilota::thrift::TType::I32  => {
                    var_3 = Some(::pilota::thrift::Message::decode(__protocol)?);

                },
                    _ => {
                        __pilota_offset += __protocol.skip(field_ident.field_type)?;
                        _unknown_fields.push_back(__protocol.get_bytes(Some(__pilota_begin_ptr), __pilota_offset)?);
                    },
                }

                __protocol.read_field_end()?;
                __pilota_offset += __protocol.field_end_len();

            };
                    ::std::result::Result::Ok::<_, ::pilota::thrift::ThriftException>(())
                })() {
                if let Some(field_id) = __pilota_decoding_field_id {
                    err.prepend_msg(&format!("decode struct `DfEx` field(#{}) failed, caused by: ", field_id));
                }
                return ::std::result::Result::Err(err);
            };
            __protocol.read_struct_end()?;





            let data = Self {
                message: var_1,code: var_2,kind: var_3, _unknown_fields
            };
            ::std::result::Result::Ok(data)

                }

                fn decode_async<'a, T: ::pilota::thrift::TAsyncInputProtocol>(
            __protocol: &'a mut T,
        ) -> ::std::pin::Pin<::std::boxed::Box<dyn ::std::future::Future<Output = ::std::result::Result<Self, ::pilota::thrift::ThriftException>> + Send + 'a>> {
            ::std::boxed::Box::pin(async move {


            let mut var_1 = Some(::pilota::FastStr::from_static_str("boom"));let mut var_2 = Some(-3i32);let mut var_3 = Some(E1::C);

            let mut __pilota_decoding_field_id = None;

            __protocol.read_struct_begin().await?;
            if let ::std::result::Result::Err(mut err) = async {
                    loop {


                let field_ident = __protocol.read_field_begin().await?;
                if field_ident.field_type == ::pilota::thrift::TType::Stop {

                    break;
                } else {

                }
                __pilota_decoding_field_id = field_ident.id;
                match field_ident.id {
                    Some(1) if field_ident.field_type == ::pilota::thrift::TType::Binary  => {
                    var_1 = Some(__protocol.read_faststr().await?);

                },Some(2) if field_ident.field_type == ::pilota::thrift::TType::I32  => {
                    var_2 = Some(__protocol.read_i32().await?);

                },Some(3) if field_ident.field_type == ::pilota::thrift::TType::I32  => {
                    var_3 = Some(<E1 as ::pilota::thrift::Message>::decode_async(__protocol).await?);

                },
                    _ => {
                        __protocol.skip(field_ident.field_type).await?;

                    },
                }

                __protocol.read_field_end().await?;


            };
                    ::std::result::Result::Ok::<_, ::pilota::thrift::ThriftException>(())
                }.await {
                if let Some(field_id) = __pilota_decoding_field_id {
                    err.prepend_msg(&format!("decode struct `DfEx` field(#{}) failed, caused by: ", field_id));
                }
                return ::std::result::Result::Err(err);
            };
            __protocol.read_struct_end().await?;





            let data = Self {
                message: var_1,code: var_2,kind: var_3, _unknown_fields: ::pilota::LinkedBytes::new()
            };
            ::std::result::Result::Ok(data)

            })
        }

                fn size<T: ::pilota::thrift::TLengthProtocol>(&self, __protocol: &mut T) -> usize {
                    #[allow(unused_imports)]
                    use ::pilota::thrift::TLengthProtocolExt;
                    __protocol.struct_begin_len(&::pilota::thrift::TStructIdentifier {
                    name: "DfEx",
                }) + self.message.as_ref().map_or(0, |value| __protocol.faststr_field_len(Some(1), value)) +self.code.as_ref().map_or(0, |value| __protocol.i32_field_len(Some(2), *value)) +self.kind.as_ref().map_or(0, |value| __protocol.i32_field_len(Some(3), (value).inner())) +self._unknown_fields.size() + __protocol.field_stop_len() + __protocol.struct_end_len()
                }
            }#[derive(PartialOrd)]
#[derive(Hash, Eq, Ord)]
#[derive(Debug)]
#[derive(Default)]#[derive(Clone, PartialEq)]
                pub struct MutA {

                        pub b: ::std::option::Option<::std::boxed::Box<MutB>>,

                        pub x: ::std::option::Option<i16>,pub _unknown_fields: ::pilota::LinkedBytes,
                }
            impl ::pilota::thrift::Message for MutA {
                fn encode<T: ::pilota::thrift::TOutputProtocol>(
                    &self,
                    __protocol: &mut T,
                ) -> ::std::result::Result<(),::pilota::thrift::ThriftException> {
                    #[allow(unused_imports)]
                    use ::pilota::thrift::TOutputProtocolExt;
                    let struct_ident =::pilota::thrift::TStructIdentifier {
                    name: "MutA",
                };

                __protocol.write_struct_begin(&struct_ident)?;
                if let Some(value) = self.b.as_ref() {
                        __protocol.write_struct_field(1, value, ::pilota::thrift::TType::Struct)?;
                    }if let Some(value) = self.x.as_ref() {
                        __protocol.write_i16_field(2, *value)?;
                    }for bytes in self._unknown_fields.list.iter() {
                                __protocol.write_bytes_without_len(bytes.clone());
                            }
                __protocol.write_field_stop()?;
                __protocol.write_struct_end()?;
                ::std::result::Result::Ok(())

                }

                fn decode<T: ::pilota::thrift::TInputProtocol>(
                    __protocol: &mut T,
                ) -> ::std::result::Result<Self,::pilota::thrift::ThriftException>  {
                    #[allow(unused_imports)]
                    use ::pilota::{thrift::TLengthProtocolExt, Buf};


            let mut var_1 = None;let mut var_2 = None;let mut _unknown_fields = ::pilota::LinkedBytes::new();

            let mut __pilota_decoding_field_id = None;

            __protocol.read_struct_begin()?;
            if let ::std::result::Result::Err(mut err) = (|| {
                    loop {

                let mut __pilota_offset = 0;
            let __pilota_begin_ptr = __protocol.buf().chunk().as_ptr();
                let field_ident = __protocol.read_field_begin()?;
                if field_ident.field_type == ::pilota::thrift::TType::Stop {
                    __pilota_offset += __protocol.field_stop_len();
                    break;
                } else {
                    __pilota_offset += __protocol.field_begin_len(field_ident.field_type, field_ident.id);
                }
                __pilota_decoding_field_id = field_ident.id;
                match field_ident.id {
                    Some(1) if field_ident.field_type == ::pilota::thrift::TType::Struct  => {
                    var_1 = Some(::std::boxed::Box::new(::pilota::thrift::Message::decode(__protocol)?));

                },Some(2) if field_ident.field_type == ::pilota::thrift::TType::I16  => {
                    var_2 = Some(__protocol.read_i16()?);

                },
                    _ => {
                        __pilota_offset += __protocol.skip(field_ident.field_type)?;
                        _unknown_fields.push_back(__protocol.get_bytes(Some(__pilota_begin_ptr), __pilota_offset)?);
                    },
                }

                __protocol.read_field_end()?;
                __pilota_offset += __protocol.field_end_len();

            };
                    ::std::result::Result::Ok::<_, ::pilota::thrift::ThriftException>(())
                })() {
                if let Some(field_id) = __pilota_decoding_field_id {
                    err.prepend_msg(&format!("decode struct `MutA` field(#{}) failed, caused by: ", field_id));
                }
                return ::std::result::Result::Err(err);
            };
            __protocol.read_struct_end()?;





            let data = Self {
                b: var_1,x: var_2, _unknown_fields
            };
            ::std::result::Result::Ok(data)

                }

                fn decode_async<'a, T: ::pilota::thrift::TAsyncInputProtocol>(
            __protocol: &'a mut T,
        ) -> ::std::pin::Pin<::std::boxed::Box<dyn ::std::future::Future<Output = ::std::result::Result<Self, ::pilota::thrift::ThriftException>> + Send + 'a>> {
            ::std::boxed::Box::pin(async move {


            let mut var_1 = None;let mut var_2 = None;

            let mut __pilota_decoding_field_id = None;

            __protocol.read_struct_begin().await?;
            if let ::std::result::Result::Err(mut err) = async {
                    loop {


                let field_ident = __protocol.read_field_begin().await?;
                if field_ident.field_type == ::pilota::thrift::TType::Stop {

                    break;
                } else {

                }
                __pilota_decoding_field_id = field_ident.id;
                match field_ident.id {
                    Some(1) if field_ident.field_type == ::pilota::thrift::TType::Struct  => {
                    var_1 = Some(::std::boxed::Box::new(<MutB as ::pilota::thrift::Message>::decode_async(__protocol).await?));

                },Some(2) if field_ident.field_type == ::pilota::thrift::TType::I16  => {
                    var_2 = Some(__protocol.read_i16().await?);

                },
                    _ => {
                        __protocol.skip(field_ident.field_type).await?;

                    },
                }

                __protocol.read_field_end().await?;


            };
                    ::std::result::Result::Ok::<_, ::pilota::thrift::ThriftException>(())
                }.await {
                if let Some(field_id) = __pilota_decoding_field_id {
                    err.prepend_msg(&format!("decode struct `MutA` field(#{}) failed, caused by: ", field_id));
                }
                return ::std::result::Result::Err(err);
            };
            __protocol.read_struct_end().await?;





            let data = Self {
                b: var_1,x: var_2, _unknown_fields: ::pilota::LinkedBytes::new()
            };
            ::std::result::Result::Ok(data)

            })
        }

                fn size<T: ::pilota::thrift::TLengthProtocol>(&self, __protocol: &mut T) -> usize {
                    #[allow(unused_imports)]
                    use ::pilota::thrift::TLengthProtocolExt;
                    __protocol.struct_begin_len(&::pilota::thrift::TStructIdentifier {
                    name: "MutA",
                }) + self.b.as_ref().map_or(0, |value| __protocol.struct_field_len(Some(1), value)) +self.x.as_ref().map_or(0, |value| __protocol.i16_field_len(Some(2), *value)) +self._unknown_fields.size() + __protocol.field_stop_len() + __protocol.struct_end_len()
                }
            }
                                impl ::std::default::Default for Df53 {
                                    fn default() -> Self {
                                        Df53 {
                                            d1: 0.1f64,
plain: ::std::default::Default::default(),
d2: 1000000000000000000000000000000000000000000000000000000000000000000000000000000000000000000000000000000000000000000000000000000000000000000000000000000000000000000000000000000000000000000000000000000000000000000000000000000000000000000000000000000000000000000000000000000000000000000000000000000000000f64,
d3: 0.0015f64,
_unknown_fields: ::pilota::LinkedBytes::new()
                                        }
                                    }
                                }
                            #[derive(PartialOrd)]
#[derive(Debug)]#[derive(Clone, PartialEq)]
                pub struct Df53 {

                        pub d1: f64,

                        pub plain: ::std::option::Option<i32>,

                        pub d2: f64,

                        pub d3: f64,pub _unknown_fields: ::pilota::LinkedBytes,
                }
            impl ::pilota::thrift::Message for Df53 {
                fn encode<T: ::pilota::thrift::TOutputProtocol>(
                    &self,
                    __protocol: &mut T,
                ) -> ::std::result::Result<(),::pilota::thrift::ThriftException> {
                    #[allow(unused_imports)]
                    use ::pilota::thrift::TOutputProtocolExt;
                    let struct_ident =::pilota::thrift::TStructIdentifier {
                    name: "Df53",
                };

                __protocol.write_struct_begin(&struct_ident)?;
                __protocol.write_double_field(1, *&self.d1)?;if let Some(value) = self.plain.as_ref() {
                        __protocol.write_i32_field(1054, *value)?;
                    }__protocol.write_double_field(15, *&self.d2)?;__protocol.write_double_field(16, *&self.d3)?;for bytes in self._unknown_fields.list.iter() {
                                __protocol.write_bytes_without_len(bytes.clone());
                            }
                __protocol.write_field_stop()?;
                __protocol.write_struct_end()?;
                ::std::result::Result::Ok(())

                }

                fn decode<T: ::pilota::thrift::TInputProtocol>(
                    __protocol: &mut T,
                ) -> ::std::result::Result<Self,::pilota::thrift::ThriftException>  {
                    #[allow(unused_imports)]
                    use ::pilota::{thrift::TLengthProtocolExt, Buf};


            let mut var_1 = 0.1f64;let mut var_1054 = None;let mut var_15 = 1000000000000000000000000000000000000000000000000000000000000000000000000000000000000000000000000000000000000000000000000000000000000000000000000000000000000000000000000000000000000000000000000000000000000000000000000000000000000000000000000000000000000000000000000000000000000000000000000000000000000f64;let mut var_16 = 0.0015f64;let mut _unknown_fields = ::pilota::LinkedBytes::new();

            let mut __pilota_decoding_field_id = None;

            __protocol.read_struct_begin()?;
            if let ::std::result::Result::Err(mut err) = (|| {
                    loop {

                let mut __pilota_offset = 0;
            let __pilota_begin_ptr = __protocol.buf().chunk().as_ptr();
                let field_ident = __protocol.read_field_begin()?;
                if field_ident.field_type == ::pilota::thrift::TType::Stop {
                    __pilota_offset += __protocol.field_stop_len();
                    break;
                } else {
                    __pilota_offset += __protocol.field_begin_len(field_ident.field_type, field_ident.id);
                }
                __pilota_decoding_field_id = field_ident.id;
                match field_ident.id {
                    Some(1) if field_ident.field_type == ::pilota::thrift::TType::Double  => {
                    var_1 = __protocol.read_double()?;

                },Some(1054) if field_ident.field_type == ::pilota::thrift::TType::I32  => {
                    var_1054 = Some(__protocol.read_i32()?);

                },Some(15) if field_ident.field_type == ::pilota::thrift::TType::Double  => {
                    var_15 = __protocol.read_double()?;

                },Some(16) if field_ident.field_type == ::pilota::thrift::TType::Double  => {
                    var_16 = __protocol.read_double()?;

                },
                    _ => {
                        __pilota_offset += __protocol.skip(field_ident.field_type)?;
                        _unknown_fields.push_back(__protocol.get_bytes(Some(__pilota_begin_ptr), __pilota_offset)?);
                    },
                }

                __protocol.read_field_end()?;
                __pilota_offset += __protocol.field_end_len();

            };
                    ::std::result::Result::Ok::<_, ::pilota::thrift::ThriftException>(())
                })() {
                if let Some(field_id) = __pilota_decoding_field_id {
                    err.prepend_msg(&format!("decode struct `Df53` field(#{}) failed, caused by: ", field_id));
                }
                return ::std::result::Result::Err(err);
            };
            __protocol.read_struct_end()?;





            let data = Self {
                d1: var_1,plain: var_1054,d2: var_15,d3: var_16, _unknown_fields
            };
            ::std::result::Result::Ok(data)

                }

                fn decode_async<'a, T: ::pilota::thrift::TAsyncInputProtocol>(
            __protocol: &'a mut T,
        ) -> ::std::pin::Pin<::std::boxed::Box<dyn ::std::future::Future<Output = ::std::result::Result<Self, ::pilota::thrift::ThriftException>> + Send + 'a>> {
            ::std::boxed::Box::pin(async move {


            let mut var_1 = 0.1f64;let mut var_1054 = None;let mut var_15 = 1000000000000000000000000000000000000000000000000000000000000000000000000000000000000000000000000000000000000000000000000000000000000000000000000000000000000000000000000000000000000000000000000000000000000000000000000000000000000000000000000000000000000000000000000000000000000000000000000000000000000f64;let mut var_16 = 0.0015f64;

            let mut __pilota_decoding_field_id = None;

            __protocol.read_struct_begin().await?;
            if let ::std::result::Result::Err(mut err) = async {
                    loop {


                let field_ident = __protocol.read_field_begin().await?;
                if field_ident.field_type == ::pilota::thrift::TType::Stop {

                    break;
                } else {

                }
                __pilota_decoding_field_id = field_ident.id;
                match field_ident.id {
                    Some(1) if field_ident.field_type == ::pilota::thrift::TType::Double  => {
                    var_1 = __protocol.read_double().await?;

                },Some(1054) if field_ident.field_type == ::pilota::thrift::TType::I32  => {
                    var_1054 = Some(__protocol.read_i32().await?);

                },Some(15) if field_ident.field_type == ::pilota::thrift::TType::Double  => {
                    var_15 = __protocol.read_double().await?;

                },Some(16) if field_ident.field_type == ::pilota::thrift::TType::Double  => {
                    var_16 = __protocol.read_double().await?;

                },
                    _ => {
                        __protocol.skip(field_ident.field_type).await?;

                    },
                }

                __protocol.read_field_end().await?;


            };
                    ::std::result::Result::Ok::<_, ::pilota::thrift::ThriftException>(())
                }.await {
                if let Some(field_id) = __pilota_decoding_field_id {
                    err.prepend_msg(&format!("decode struct `Df53` field(#{}) failed, caused by: ", field_id));
                }
                return ::std::result::Result::Err(err);
            };
            __protocol.read_struct_end().await?;





            let data = Self {
                d1: var_1,plain: var_1054,d2: var_15,d3: var_16, _unknown_fields: ::pilota::LinkedBytes::new()
            };
            ::std::result::Result::Ok(data)

            })
        }

                fn size<T: ::pilota::thrift::TLengthProtocol>(&self, __protocol: &mut T) -> usize {
                    #[allow(unused_imports)]
                    use ::pilota::thrift::TLengthProtocolExt;
                    __protocol.struct_begin_len(&::pilota::thrift::TStructIdentifier {
                    name: "Df53",
                }) + __protocol.double_field_len(Some(1), *&self.d1)  +self.plain.as_ref().map_or(0, |value| __protocol.i32_field_len(Some(1054), *value)) +__protocol.double_field_len(Some(15), *&self.d2)  +__protocol.double_field_len(Some(16), *&self.d3)  +self._unknown_fields.size() + __protocol.field_stop_len() + __protocol.struct_end_len()
                }
            }
                                impl ::std::default::Default for Df29 {
                                    fn default() -> Self {
                                        Df29 {
                                            d1: Some(0.1f64),
plain: ::std::default::Default::default(),
d2: Some(1000000000000000000000000000000000000000000000000000000000000000000000000000000000000000000000000000000000000000000000000000000000000000000000000000000000000000000000000000000000000000000000000000000000000000000000000000000000000000000000000000000000000000000000000000000000000000000000000000000000000f64),
d3: Some(0.0015f64),
_unknown_fields: ::pilota::LinkedBytes::new()
                                        }
                                    }
                                }
                            #[derive(PartialOrd)]
#[derive(Debug)]#[derive(Clone, PartialEq)]
                pub struct Df29 {

                        pub d1: ::std::option::Option<f64>,

                        pub plain: ::std::option::Option<i32>,

                        pub d2: ::std::option::Option<f64>,

                        pub d3: ::std::option::Option<f64>,pub _unknown_fields: ::pilota::LinkedBytes,
                }
            impl ::pilota::thrift::Message for Df29 {
                fn encode<T: ::pilota::thrift::TOutputProtocol>(
                    &self,
                    __protocol: &mut T,
                ) -> ::std::result::Result<(),::pilota::thrift::ThriftException> {
                    #[allow(unused_imports)]
                    use ::pilota::thrift::TOutputProtocolExt;
                    let struct_ident =::pilota::thrift::TStructIdentifier {
                    name: "Df29",
                };

                __protocol.write_struct_begin(&struct_ident)?;
                if let Some(value) = self.d1.as_ref() {
                        __protocol.write_double_field(1, *value)?;
                    }if let Some(value) = self.plain.as_ref() {
                        __protocol.write_i32_field(1030, *value)?;
                    }if let Some(value) = self.d2.as_ref() {
                        __protocol.write_double_field(2, *value)?;
                    }if let Some(value) = self.d3.as_ref() {
                        __protocol.write_double_field(3, *value)?;
                    }for bytes in self._unknown_fields.list.iter() {
                                __protocol.write_bytes_without_len(bytes.clone());
                            }
                __protocol.write_field_stop()?;
                __protocol.write_struct_end()?;
                ::std::result::Result::Ok(())

                }

                fn decode<T: ::pilota::thrift::TInputProtocol>(
                    __protocol: &mut T,
                ) -> ::std::result::Result<Self,::pilota::thrift::ThriftException>  {
                    #[allow(unused_imports)]
                    use ::pilota::{thrift::TLengthProtocolExt, Buf};


            let mut var_1 = Some(0.1f64);let mut var_1030 = None;let mut var_2 = Some(1000000000000000000000000000000000000000000000000000000000000000000000000000000000000000000000000000000000000000000000000000000000000000000000000000000000000000000000000000000000000000000000000000000000000000000000000000000000000000000000000000000000000000000000000000000000000000000000000000000000000f64);let mut var_3 = Some(0.0015f64);let mut _unknown_fields = ::pilota::LinkedBytes::new();

            let mut __pilota_decoding_field_id = None;

            __protocol.read_struct_begin()?;
            if let ::std::result::Result::Err(mut err) = (|| {
                    loop {

                let mut __pilota_offset = 0;
            let __pilota_begin_ptr = __protocol.buf().chunk().as_ptr();
                let field_ident = __protocol.read_field_begin()?;
                if field_ident.field_type == ::pilota::thrift::TType::Stop {
                    __pilota_offset += __protocol.field_stop_len();
                    break;
                } else {
                    __pilota_offset += __protocol.field_begin_len(field_ident.field_type, field_ident.id);
                }
                __pilota_decoding_field_id = field_ident.id;
                match field_ident.id {
                    Some(1) if field_ident.field_type == ::pilota::thrift::TType::Double  => {
                    var_1 = Some(__protocol.read_double()?);

                },Some(1030) if field_ident.field_type == ::pilota::thrift::TType::I32  => {
                    var_1030 = Some(__protocol.read_i32()?);

                },Some(2) if field_ident.field_type == ::pilota::thrift::TType::Double  => {
                    var_2 = Some(__protocol.read_double()?);

                },Some(3) if field_ident.field_type == ::pilota::thrift::TType::Double  => {
                    var_3 = Some(__protocol.read_double()?);

                },
                    _ => {
                        __pilota_offset += __protocol.skip(field_ident.field_type)?;
                        _unknown_fields.push_back(__protocol.get_bytes(Some(__pilota_begin_ptr), __pilota_offset)?);
                    },
                }

                __protocol.read_field_end()?;
                __pilota_offset += __protocol.field_end_len();

            };
                    ::std::result::Result::Ok::<_, ::pilota::thrift::ThriftException>(())
                })() {
                if let Some(field_id) = __pilota_decoding_field_id {
                    err.prepend_msg(&format!("decode struct `Df29` field(#{}) failed, caused by: ", field_id));
                }
                return ::std::result::Result::Err(err);
            };
            __protocol.read_struct_end()?;





            let data = Self {
                d1: var_1,plain: var_1030,d2: var_2,d3: var_3, _unknown_fields
            };
            ::std::result::Result::Ok(data)

                }

                fn decode_async<'a, T: ::pilota::thrift::TAsyncInputProtocol>(
            __protocol: &'a mut T,
        ) -> ::std::pin::Pin<::std::boxed::Box<dyn ::std::future::Future<Output = ::std::result::Result<Self, ::pilota::thrift::ThriftException>> + Send + 'a>> {
            ::std::boxed::Box::pin(async move {


            let mut var_1 = Some(0.1f64);let mut var_1030 = None;let mut var_2 = Some(1000000000000000000000000000000000000000000000000000000000000000000000000000000000000000000000000000000000000000000000000000000000000000000000000000000000000000000000000000000000000000000000000000000000000000000000000000000000000000000000000000000000000000000000000000000000000000000000000000000000000f64);let mut var_3 = Some(0.0015f64);

            let mut __pilota_decoding_field_id = None;

            __protocol.read_struct_begin().await?;
            if let ::std::result::Result::Err(mut err) = async {
                    loop {


                let field_ident = __protocol.read_field_begin().await?;
                if field_ident.field_type == ::pilota::thrift::TType::Stop {

                    break;
                } else {

                }
                __pilota_decoding_field_id = field_ident.id;
                match field_ident.id {
                    Some(1) if field_ident.field_type == ::pilota::thrift::TType::Double  => {
                    var_1 = Some(__protocol.read_double().await?);

                },Some(1030) if field_ident.field_type == ::pilota::thrift::TType::I32  => {
                    var_1030 = Some(__protocol.read_i32().await?);

                },Some(2) if field_ident.field_type == ::pilota::thrift::TType::Double  => {
                    var_2 = Some(__protocol.read_double().await?);

                },Some(3) if field_ident.field_type == ::pilota::thrift::TType::Double  => {
                    var_3 = Some(__protocol.read_double().await?);

                },
                    _ => {
                        __protocol.skip(field_ident.field_type).await?;

                    },
                }

                __protocol.read_field_end().await?;


            };
                    ::std::result::Result::Ok::<_, ::pilota::thrift::ThriftException>(())
                }.await {
                if let Some(field_id) = __pilota_decoding_field_id {
                    err.prepend_msg(&format!("decode struct `Df29` field(#{}) failed, caused by: ", field_id));
                }
                return ::std::result::Result::Err(err);
            };
            __protocol.read_struct_end().await?;





            let data = Self {
                d1: var_1,plain: var_1030,d2: var_2,d3: var_3, _unknown_fields: ::pilota::LinkedBytes::new()
            };
            ::std::result::Result::Ok(data)

            })
        }

                fn size<T: ::pilota::thrift::TLengthProtocol>(&self, __protocol: &mut T) -> usize {
                    #[allow(unused_imports)]
                    use ::pilota::thrift::TLengthProtocolExt;
                    __protocol.struct_begin_len(&::pilota::thrift::TStructIdentifier {
                    name: "Df29",
                }) + self.d1.as_ref().map_or(0, |value| __protocol.double_field_len(Some(1), *value) ) +self.plain.as_ref().map_or(0, |value| __protocol.i32_field_len(Some(1030), *value)) +self.d2.as_ref().map_or(0, |value| __protocol.double_field_len(Some(2), *value) ) +self.d3.as_ref().map_or(0, |value| __protocol.double_field_len(Some(3), *value) ) +self._unknown_fields.size() + __protocol.field_stop_len() + __protocol.struct_end_len()
                }
            }
                                impl ::std::default::Default for Df5 {
                                    fn default() -> Self {
                                        Df5 {
                                            d1: Some(0.1f64),
plain: ::std::default::Default::default(),
d2: Some(1000000000000000000000000000000000000000000000000000000000000000000000000000000000000000000000000000000000000000000000000000000000000000000000000000000000000000000000000000000000000000000000000000000000000000000000000000000000000000000000000000000000000000000000000000000000000000000000000000000000000f64),
d3: Some(0.0015f64),
_unknown_fields: ::pilota::LinkedBytes::new()
                                        }
                                    }
                                }
                            #[derive(PartialOrd)]
#[derive(Debug)]#[derive(Clone, PartialEq)]
                pub struct Df5 {

                        pub d1: ::std::option::Option<f64>,

                        pub plain: ::std::option::Option<i32>,

                        pub d2: ::std::option::Option<f64>,

                        pub d3: ::std::option::Option<f64>,pub _unknown_fields: ::pilota::LinkedBytes,
                }
            impl ::pilota::thrift::Message for Df5 {
                fn encode<T: ::pilota::thrift::TOutputProtocol>(
                    &self,
                    __protocol: &mut T,
                ) -> ::std::result::Result<(),::pilota::thrift::ThriftException> {
                    #[allow(unused_imports)]
                    use ::pilota::thrift::TOutputProtocolExt;
                    let struct_ident =::pilota::thrift::TStructIdentifier {
                    name: "Df5",
                };

                __protocol.write_struct_begin(&struct_ident)?;
                if let Some(value) = self.d1.as_ref() {
                        __protocol.write_double_field(3, *value)?;
                    }if let Some(value) = self.plain.as_ref() {
                        __protocol.write_i32_field(1008, *value)?;
                    }if let Some(value) = self.d2.as_ref() {
                        __protocol.write_double_field(4, *value)?;
                    }if let Some(value) = self.d3.as_ref() {
                        __protocol.write_double_field(17, *value)?;
                    }for bytes in self._unknown_fields.list.iter() {
                                __protocol.write_bytes_without_len(bytes.clone());
                            }
                __protocol.write_field_stop()?;
                __protocol.write_struct_end()?;
                ::std::result::Result::Ok(())

                }

                fn decode<T: ::pilota::thrift::TInputProtocol>(
                    __protocol: &mut T,
                ) -> ::std::result::Result<Self,::pilota::thrift::ThriftException>  {
                    #[allow(unused_imports)]
                    use ::pilota::{thrift::TLengthProtocolExt, Buf};


            let mut var_3 = Some(0.1f64);let mut var_1008 = None;let mut var_4 = Some(1000000000000000000000000000000000000000000000000000000000000000000000000000000000000000000000000000000000000000000000000000000000000000000000000000000000000000000000000000000000000000000000000000000000000000000000000000000000000000000000000000000000000000000000000000000000000000000000000000000000000f64);let mut var_17 = Some(0.0015f64);let mut _unknown_fields = ::pilota::LinkedBytes::new();

            let mut __pilota_decoding_field_id = None;

            __protocol.read_struct_begin()?;
            if let ::std::result::Result::Err(mut err) = (|| {
                    loop {

                let mut __pilota_offset = 0;
            let __pilota_begin_ptr = __protocol.buf().chunk().as_ptr();
                let field_ident = __protocol.read_field_begin()?;
                if field_ident.field_type == ::pilota::thrift::TType::Stop {
                    __pilota_offset += __protocol.field_stop_len();
                    break;
                } else {
                    __pilota_offset += __protocol.field_begin_len(field_ident.field_type, field_ident.id);
                }
                __pilota_decoding_field_id = field_ident.id;
                match field_ident.id {
                    Some(3) if field_ident.field_type == ::pilota::thrift::TType::Double  => {
                    var_3 = Some(__protocol.read_double()?);

                },Some(1008) if field_ident.field_type == ::pilota::thrift::TType::I32  => {
                    var_1008 = Some(__protocol.read_i32()?);

                },Some(4) if field_ident.field_type == ::pilota::thrift::TType::Double  => {
                    var_4 = Some(__protocol.read_double()?);

                },Some(17) if field_ident.field_type == ::pilota::thrift::TType::Double  => {
                    var_17 = Some(__protocol.read_double()?);

                },
                    _ => {
                        __pilota_offset += __protocol.skip(field_ident.field_type)?;
                        _unknown_fields.push_back(__protocol.get_bytes(Some(__pilota_begin_ptr), __pilota_offset)?);
                    },
                }

                __protocol.read_field_end()?;
                __pilota_offset += __protocol.field_end_len();

            };
                    ::std::result::Result::Ok::<_, ::pilota::thrift::ThriftException>(())
                })() {
                if let Some(field_id) = __pilota_decoding_field_id {
                    err.prepend_msg(&format!("decode struct `Df5` field(#{}) failed, caused by: ", field_id));
                }
                return ::std::result::Result::Err(err);
            };
            __protocol.read_struct_end()?;





            let data = Self {
                d1: var_3,plain: var_1008,d2: var_4,d3: var_17, _unknown_fields
            };
            ::std::result::Result::Ok(data)

                }

                fn decode_async<'a, T: ::pilota::thrift::TAsyncInputProtocol>(
            __protocol: &'a mut T,
        ) -> ::std::pin::Pin<::std::boxed::Box<dyn ::std::future::Future<Output = ::std::result::Result<Self, ::pilota::thrift::ThriftException>> + Send + 'a>> {
            ::std::boxed::Box::pin(async move {


            let mut var_3 = Some(0.1f64);let mut var_1008 = None;let mut var_4 = Some(1000000000000000000000000000000000000000000000000000000000000000000000000000000000000000000000000000000000000000000000000000000000000000000000000000000000000000000000000000000000000000000000000000000000000000000000000000000000000000000000000000000000000000000000000000000000000000000000000000000000000f64);let mut var_17 = Some(0.0015f64);

            let mut __pilota_decoding_field_id = None;

            __protocol.read_struct_begin().await?;
            if let ::std::result::Result::Err(mut err) = async {
                    loop {


                let field_ident = __protocol.read_field_begin().await?;
                if field_ident.field_type == ::pilota::thrift::TType::Stop {

                    break;
                } else {

                }
                __pilota_decoding_field_id = field_ident.id;
                match field_ident.id {
                    Some(3) if field_ident.field_type == ::pilota::thrift::TType::Double  => {
                    var_3 = Some(__protocol.read_double().await?);

                },Some(1008) if field_ident.field_type == ::pilota::thrift::TType::I32  => {
                    var_1008 = Some(__protocol.read_i32().await?);

                },Some(4) if field_ident.field_type == ::pilota::thrift::TType::Double  => {
                    var_4 = Some(__protocol.read_double().await?);

                },Some(17) if field_ident.field_type == ::pilota::thrift::TType::Double  => {
                    var_17 = Some(__protocol.read_double().await?);

                },
                    _ => {
                        __protocol.skip(field_ident.field_type).await?;

                    },
                }

                __protocol.read_field_end().await?;


            };
                    ::std::result::Result::Ok::<_, ::pilota::thrift::ThriftException>(())
                }.await {
                if let Some(field_id) = __pilota_decoding_field_id {
                    err.prepend_msg(&format!("decode struct `Df5` field(#{}) failed, caused by: ", field_id));
                }
                return ::std::result::Result::Err(err);
            };
            __protocol.read_struct_end().await?;





            let data = Self {
                d1: var_3,plain: var_1008,d2: var_4,d3: var_17, _unknown_fields: ::pilota::LinkedBytes::new()
            };
            ::std::result::Result::Ok(data)

            })
        }

                fn size<T: ::pilota::thrift::TLengthProtocol>(&self, __protocol: &mut T) -> usize {
                    #[allow(unused_imports)]
                    use ::pilota::thrift::TLengthProtocolExt;
                    __protocol.struct_begin_len(&::pilota::thrift::TStructIdentifier {
                    name: "Df5",
                }) + self.d1.as_ref().map_or(0, |value| __protocol.double_field_len(Some(3), *value) ) +self.plain.as_ref().map_or(0, |value| __protocol.i32_field_len(Some(1008), *value)) +self.d2.as_ref().map_or(0, |value| __protocol.double_field_len(Some(4), *value) ) +self.d3.as_ref().map_or(0, |value| __protocol.double_field_len(Some(17), *value) ) +self._unknown_fields.size() + __protocol.field_stop_len() + __protocol.struct_end_len()
                }
            }
                                impl ::std::default::Default for Df60 {
                                    fn default() -> Self {
                                        Df60 {
                                            d1: TdEnum(E1::B),
plain: ::std::default::Default::default(),
d2: TdEnum(E1::C),
d3: ::pilota::FastStr::from_static_str("line\nbreak"),
_unknown_fields: ::pilota::LinkedBytes::new()
                                        }
                                    }
                                }
                            #[derive(PartialOrd)]
#[derive(Hash, Eq, Ord)]
#[derive(Debug)]#[derive(Clone, PartialEq)]
                pub struct Df60 {

                        pub d1: TdEnum,

                        pub plain: ::std::option::Option<i32>,

                        pub d2: TdEnum,

                        pub d3: ::pilota::FastStr,pub _unknown_fields: ::pilota::LinkedBytes,
                }
            impl ::pilota::thrift::Message for Df60 {
                fn encode<T: ::pilota::thrift::TOutputProtocol>(
                    &self,
                    __protocol: &mut T,
                ) -> ::std::result::Result<(),::pilota::thrift::ThriftException> {
                    #[allow(unused_imports)]
                    use ::pilota::thrift::TOutputProtocolExt;
                    let struct_ident =::pilota::thrift::TStructIdentifier {
                    name: "Df60",
                };

                __protocol.write_struct_begin(&struct_ident)?;
                __protocol.write_struct_field(5, &self.d1, ::pilota::thrift::TType::I32)?;if let Some(value) = self.plain.as_ref() {
                        __protocol.write_i32_field(1065, *value)?;
                    }__protocol.write_struct_field(20, &self.d2, ::pilota::thrift::TType::I32)?;__protocol.write_faststr_field(21, (&self.d3).clone())?;for bytes in self._unknown_fields.list.iter() {
                                __protocol.write_bytes_without_len(bytes.clone());
                            }
                __protocol.write_field_stop()?;
                __protocol.write_struct_end()?;
                ::std::result::Result::Ok(())

                }

                fn decode<T: ::pilota::thrift::TInputProtocol>(
                    __protocol: &mut T,
                ) -> ::std::result::Result<Self,::pilota::thrift::ThriftException>  {
                    #[allow(unused_imports)]
                    use ::pilota::{thrift::TLengthProtocolExt, Buf};


            let mut var_5 = TdEnum(E1::B);let mut var_1065 = None;let mut var_20 = TdEnum(E1::C);let mut var_21 = ::pilota::FastStr::from_static_str("line\nbreak");let mut _unknown_fields = ::pilota::LinkedBytes::new();

            let mut __pilota_decoding_field_id = None;

            __protocol.read_struct_begin()?;
            if let ::std::result::Result::Err(mut err) = (|| {
                    loop {

                let mut __pilota_offset = 0;
            let __pilota_begin_ptr = __protocol.buf().chunk().as_ptr();
                let field_ident = __protocol.read_field_begin()?;
                if field_ident.field_type == ::pilota::thrift::TType::Stop {
                    __pilota_offset += __protocol.field_stop_len();
                    break;
                } else {
                    __pilota_offset += __protocol.field_begin_len(field_ident.field_type, field_ident.id);
                }
                __pilota_decoding_field_id = field_ident.id;
                match field_ident.id {
                    Some(5) if field_ident.field_type == ::pilota::thrift::TType::I32  => {
                    var_5 = ::pilota::thrift::Message::decode(__protocol)?;

                },Some(1065) if field_ident.field_type == ::pilota::thrift::TType::I32  => {
                    var_1065 = Some(__protocol.read_i32()?);

                },Some(20) if field_ident.field_type == ::pilota::thrift::TType::I32  => {
                    var_20 = ::pilota::thrift::Message::decode(__protocol)?;

                },Some(21) if field_ident.field_type == ::pilota::thrift::TType::Binary  => {
                    var_21 = __protocol.read_faststr()?;

                },
                    _ => {
                        __pilota_offset += __protocol.skip(field_ident.field_type)?;
                        _unknown_fields.push_back(__protocol.get_bytes(Some(__pilota_begin_ptr), __pilota_offset)?);
                    },
                }

                __protocol.read_field_end()?;
                __pilota_offset += __protocol.field_end_len();

            };
                    ::std::result::Result::Ok::<_, ::pilota::thrift::ThriftException>(())
                })() {
                if let Some(field_id) = __pilota_decoding_field_id {
                    err.prepend_msg(&format!("decode struct `Df60` field(#{}) failed, caused by: ", field_id));
                }
                return ::std::result::Result::Err(err);
            };
            __protocol.read_struct_end()?;





            let data = Self {
                d1: var_5,plain: var_1065,d2: var_20,d3: var_21, _unknown_fields
            };
            ::std::result::Result::Ok(data)

                }

                fn decode_async<'a, T: ::pilota::thrift::TAsyncInputProtocol>(
            __protocol: &'a mut T,
        ) -> ::std::pin::Pin<::std::boxed::Box<dyn ::std::future::Future<Output = ::std::result::Result<Self, ::pilota::thrift::ThriftException>> + Send + 'a>> {
            ::std::boxed::Box::pin(async move {


            let mut var_5 = TdEnum(E1::B);let mut var_1065 = None;let mut var_20 = TdEnum(E1::C);let mut var_21 = ::pilota::FastStr::from_static_str("line\nbreak");

            let mut __pilota_decoding_field_id = None;

            __protocol.read_struct_begin().await?;
            if let ::std::result::Result::Err(mut err) = async {
                    loop {


                let field_ident = __protocol.read_field_begin().await?;
                if field_ident.field_type == ::pilota::thrift::TType::Stop {

                    break;
                } else {

                }
                __pilota_decoding_field_id = field_ident.id;
                match field_ident.id {
                    Some(5) if field_ident.field_type == ::pilota::thrift::TType::I32  => {
                    var_5 = <TdEnum as ::pilota::thrift::Message>::decode_async(__protocol).await?;

                },Some(1065) if field_ident.field_type == ::pilota::thrift::TType::I32  => {
                    var_1065 = Some(__protocol.read_i32().await?);

                },Some(20) if field_ident.field_type == ::pilota::thrift::TType::I32  => {
                    var_20 = <TdEnum as ::pilota::thrift::Message>::decode_async(__protocol).await?;

                },Some(21) if field_ident.field_type == ::pilota::thrift::TType::Binary  => {
                    var_21 = __protocol.read_faststr().await?;

                },
                    _ => {
                        __protocol.skip(field_ident.field_type).await?;

                    },
                }

                __protocol.read_field_end().await?;


            };
                    ::std::result::Result::Ok::<_, ::pilota::thrift::ThriftException>(())
                }.await {
                if let Some(field_id) = __pilota_decoding_field_id {
                    err.prepend_msg(&format!("decode struct `Df60` field(#{}) failed, caused by: ", field_id));
                }
                return ::std::result::Result::Err(err);
            };
            __protocol.read_struct_end().await?;





            let data = Self {
                d1: var_5,plain: var_1065,d2: var_20,d3: var_21, _unknown_fields: ::pilota::LinkedBytes::new()
            };
            ::std::result::Result::Ok(data)

            })
        }

                fn size<T: ::pilota::thrift::TLengthProtocol>(&self, __protocol: &mut T) -> usize {
                    #[allow(unused_imports)]
                    use ::pilota::thrift::TLengthProtocolExt;
                    __protocol.struct_begin_len(&::pilota::thrift::TStructIdentifier {
                    name: "Df60",
                }) + __protocol.struct_field_len(Some(5), &self.d1) +self.plain.as_ref().map_or(0, |value| __protocol.i32_field_len(Some(1065), *value)) +__protocol.struct_field_len(Some(20), &self.d2) +__protocol.faststr_field_len(Some(21), &self.d3) +self._unknown_fields.size() + __protocol.field_stop_len() + __protocol.struct_end_len()
                }
            }
                                impl ::std::default::Default for Df36 {
                                    fn default() -> Self {
                                        Df36 {
                                            d1: Some(TdEnum(E1::B)),
plain: ::std::default::Default::default(),
d2: Some(TdEnum(E1::C)),
d3: Some(::pilota::FastStr::from_static_str("line\nbreak")),
_unknown_fields: ::pilota::LinkedBytes::new()
                                        }
                                    }
                                }
                            #[derive(PartialOrd)]
#[derive(Hash, Eq, Ord)]
#[derive(Debug)]#[derive(Clone, PartialEq)]
                pub struct Df36 {

                        pub d1: ::std::option::Option<TdEnum>,

                        pub plain: ::std::option::Option<i32>,

                        pub d2: ::std::option::Option<TdEnum>,

                        pub d3: ::std::option::Option<::pilota::FastStr>,pub _unknown_fields: ::pilota::LinkedBytes,
                }
            impl ::pilota::thrift::Message for Df36 {
                fn encode<T: ::pilota::thrift::TOutputProtocol>(
                    &self,
                    __protocol: &mut T,
                ) -> ::std::result::Result<(),::pilota::thrift::ThriftException> {
                    #[allow(unused_imports)]
                    use ::pilota::thrift::TOutputProtocolExt;
                    let struct_ident =::pilota::thrift::TStructIdentifier {
                    name: "Df36",
                };

                __protocol.write_struct_begin(&struct_ident)?;
                if let Some(value) = self.d1.as_ref() {
                        __protocol.write_struct_field(1, value, ::pilota::thrift::TType::I32)?;
                    }if let Some(value) = self.plain.as_ref() {
                        __protocol.write_i32_field(1037, *value)?;
                    }if let Some(value) = self.d2.as_ref() {
                        __protocol.write_struct_field(15, value, ::pilota::thrift::TType::I32)?;
                    }if let Some(value) = self.d3.as_ref() {
                        __protocol.write_faststr_field(16, (value).clone())?;
                    }for bytes in self._unknown_fields.list.iter() {
                                __protocol.write_bytes_without_len(bytes.clone());
                            }
                __protocol.write_field_stop()?;
                __protocol.write_struct_end()?;
                ::std::result::Result::Ok(())

                }

                fn decode<T: ::pilota::thrift::TInputProtocol>(
                    __protocol: &mut T,
                ) -> ::std::result::Result<Self,::pilota::thrift::ThriftException>  {
                    #[allow(unused_imports)]
                    use ::pilota::{thrift::TLengthProtocolExt, Buf};


            let mut var_1 = Some(TdEnum(E1::B));let mut var_1037 = None;let mut var_15 = Some(TdEnum(E1::C));let mut var_16 = Some(::pilota::FastStr::from_static_str("line\nbreak"));let mut _unknown_fields = ::pilota::LinkedBytes::new();

            let mut __pilota_decoding_field_id = None;

            __protocol.read_struct_begin()?;
            if let ::std::result::Result::Err(mut err) = (|| {
                    loop {

                let mut __pilota_offset = 0;
            let __pilota_begin_ptr = __protocol.buf().chunk().as_ptr();
                let field_ident = __protocol.read_field_begin()?;
                if field_ident.field_type == ::pilota::thrift::TType::Stop {
                    __pilota_offset += __protocol.field_stop_len();
                    break;
                } else {
                    __pilota_offset += __protocol.field_begin_len(field_ident.field_type, field_ident.id);
                }
                __pilota_decoding_field_id = field_ident.id;
                match field_ident.id {
                    Some(1) if field_ident.field_type == ::pilota::thrift::TType::I32  => {
                    var_1 = Some(::pilota::thrift::Message::decode(__protocol)?);

                },Some(1037) if field_ident.field_type == ::pilota::thrift::TType::I32  => {
                    var_1037 = Some(__protocol.read_i32()?);

                },Some(15) if field_ident.field_type == ::pilota::thrift::TType::I32  => {
                    var_15 = Some(::pilota::thrift::Message::decode(__protocol)?);

                },Some(16) if field_ident.field_type == ::pilota::thrift::TType::Binary  => {
                    var_16 = Some(__protocol.read_faststr()?);

                },
                    _ => {
                        __pilota_offset += __protocol.skip(field_ident.field_type)?;
                        _unknown_fields.push_back(__protocol.get_bytes(Some(__pilota_begin_ptr), __pilota_offset)?);
                    },
                }

                __protocol.read_field_end()?;
                __pilota_offset += __protocol.field_end_len();

            };
                    ::std::result::Result::Ok::<_, ::pilota::thrift::ThriftException>(())
                })() {
                if let Some(field_id) = __pilota_decoding_field_id {
                    err.prepend_msg(&format!("decode struct `Df36` field(#{}) failed, caused by: ", field_id));
                }
                return ::std::result::Result::Err(err);
            };
            __protocol.read_struct_end()?;





            let data = Self {
                d1: var_1,plain: var_1037,d2: var_15,d3: var_16, _unknown_fields
            };
            ::std::result::Result::Ok(data)

                }

                fn decode_async<'a, T: ::pilota::thrift::TAsyncInputProtocol>(
            __protocol: &'a mut T,
        ) -> ::std::pin::Pin<::std::boxed::Box<dyn ::std::future::Future<Output = ::std::result::Result<Self, ::pilota::thrift::ThriftException>> + Send + 'a>> {
            ::std::boxed::Box::pin(async move {


            let mut var_1 = Some(TdEnum(E1::B));let mut var_1037 = None;let mut var_15 = Some(TdEnum(E1::C));let mut var_16 = Some(::pilota::FastStr::from_static_str("line\nbreak"));

            let mut __pilota_decoding_field_id = None;

            __protocol.read_struct_begin().await?;
            if let ::std::result::Result::Err(mut err) = async {
                    loop {


                let field_ident = __protocol.read_field_begin().await?;
                if field_ident.field_type == ::pilota::thrift::TType::Stop {

                    break;
                } else {

                }
                __pilota_decoding_field_id = field_ident.id;
                match field_ident.id {
                    Some(1) if field_ident.field_type == ::pilota::thrift::TType::I32  => {
                    var_1 = Some(<TdEnum as ::pilota::thrift::Message>::decode_async(__protocol).await?);

                },Some(1037) if field_ident.field_type == ::pilota::thrift::TType::I32  => {
                    var_1037 = Some(__protocol.read_i32().await?);

                },Some(15) if field_ident.field_type == ::pilota::thrift::TType::I32  => {
                    var_15 = Some(<TdEnum as ::pilota::thrift::Message>::decode_async(__protocol).await?);

                },Some(16) if field_ident.field_type == ::pilota::thrift::TType::Binary  => {
                    var_16 = Some(__protocol.read_faststr().await?);

                },
                    _ => {
                        __protocol.skip(field_ident.field_type).await?;

                    },
                }

                __protocol.read_field_end().await?;


            };
                    ::std::result::Result::Ok::<_, ::pilota::thrift::ThriftException>(())
                }.await {
                if let Some(field_id) = __pilota_decoding_field_id {
                    err.prepend_msg(&format!("decode struct `Df36` field(#{}) failed, caused by: ", field_id));
                }
                return ::std::result::Result::Err(err);
            };
            __protocol.read_struct_end().await?;





            let data = Self {
                d1: var_1,plain: var_1037,d2: var_15,d3: var_16, _unknown_fields: ::pilota::LinkedBytes::new()
            };
            ::std::result::Result::Ok(data)

            })
        }

                fn size<T: ::pilota::thrift::TLengthProtocol>(&self, __protocol: &mut T) -> usize {
                    #[allow(unused_imports)]
                    use ::pilota::thrift::TLengthProtocolExt;
                    __protocol.struct_begin_len(&::pilota::thrift::TStructIdentifier {
                    name: "Df36",
                }) + self.d1.as_ref().map_or(0, |value| __protocol.struct_field_len(Some(1), value)) +self.plain.as_ref().map_or(0, |value| __protocol.i32_field_len(Some(1037), *value)) +self.d2.as_ref().map_or(0, |value| __protocol.struct_field_len(Some(15), value)) +self.d3.as_ref().map_or(0, |value| __protocol.faststr_field_len(Some(16), value)) +self._unknown_fields.size() + __protocol.field_stop_len() + __protocol.struct_end_len()
                }
            }
                                impl ::std::default::Default for Df12 {
                                    fn default() -> Self {
                                        Df12 {
                                            d1: Some(TdEnum(E1::B)),
plain: ::std::default::Default::default(),
d2: Some(TdEnum(E1::C)),
d3: Some(::pilota::FastStr::from_static_str("line\nbreak")),
_unknown_fields: ::pilota::LinkedBytes::new()
                                        }
                                    }
                                }
                            #[derive(PartialOrd)]
#[derive(Hash, Eq, Ord)]
#[derive(Debug)]#[derive(Clone, PartialEq)]
                pub struct Df12 {

                        pub d1: ::std::option::Option<TdEnum>,

                        pub plain: ::std::option::Option<i32>,

                        pub d2: ::std::option::Option<TdEnum>,

                        pub d3: ::std::option::Option<::pilota::FastStr>,pub _unknown_fields: ::pilota::LinkedBytes,
                }
            impl ::pilota::thrift::Message for Df12 {
                fn encode<T: ::pilota::thrift::TOutputProtocol>(
                    &self,
                    __protocol: &mut T,
                ) -> ::std::result::Result<(),::pilota::thrift::ThriftException> {
                    #[allow(unused_imports)]
                    use ::pilota::thrift::TOutputProtocolExt;
                    let struct_ident =::pilota::thrift::TStructIdentifier {
                    name: "Df12",
                };

                __protocol.write_struct_begin(&struct_ident)?;
                if let Some(value) = self.d1.as_ref() {
                        __protocol.write_struct_field(1, value, ::pilota::thrift::TType::I32)?;
                    }if let Some(value) = self.plain.as_ref() {
                        __protocol.write_i32_field(1013, *value)?;
                    }if let Some(value) = self.d2.as_ref() {
                        __protocol.write_struct_field(2, value, ::pilota::thrift::TType::I32)?;
                    }if let Some(value) = self.d3.as_ref() {
                        __protocol.write_faststr_field(3, (value).clone())?;
                    }for bytes in self._unknown_fields.list.iter() {
                                __protocol.write_bytes_without_len(bytes.clone());
                            }
                __protocol.write_field_stop()?;
                __protocol.write_struct_end()?;
                ::std::result::Result::Ok(())

                }

                fn decode<T: ::pilota::thrift::TInputProtocol>(
                    __protocol: &mut T,
                ) -> ::std::result::Result<Self,::pilota::thrift::ThriftException>  {
                    #[allow(unused_imports)]
                    use ::pilota::{thrift::TLengthProtocolExt, Buf};


            let mut var_1 = Some(TdEnum(E1::B));let mut var_1013 = None;let mut var_2 = Some(TdEnum(E1::C));let mut var_3 = Some(::pilota::FastStr::from_static_str("line\nbreak"));let mut _unknown_fields = ::pilota::LinkedBytes::new();

            let mut __pilota_decoding_field_id = None;

            __protocol.read_struct_begin()?;
            if let ::std::result::Result::Err(mut err) = (|| {
                    loop {

                let mut __pilota_offset = 0;
            let __pilota_begin_ptr = __protocol.buf().chunk().as_ptr();
                let field_ident = __protocol.read_field_begin()?;
                if field_ident.field_type == ::pilota::thrift::TType::Stop {
                    __pilota_offset += __protocol.field_stop_len();
                    break;
                } else {
                    __pilota_offset += __protocol.field_begin_len(field_ident.field_type, field_ident.id);
                }
                __pilota_decoding_field_id = field_ident.id;
                match field_ident.id {
                    Some(1) if field_ident.field_type == ::pilota::thrift::TType::I32  => {
                    var_1 = Some(::pilota::thrift::Message::decode(__protocol)?);

                },Some(1013) if field_ident.field_type == ::pilota::thrift::TType::I32  => {
                    var_1013 = Some(__protocol.read_i32()?);

                },Some(2) if field_ident.field_type == ::pilota::thrift::TType::I32  => {
                    var_2 = Some(::pilota::thrift::Message::decode(__protocol)?);

                },Some(3) if field_ident.field_type == ::pilota::thrift::TType::Binary  => {
                    var_3 = Some(__protocol.read_faststr()?);

                },
                    _ => {
                        __pilota_offset += __protocol.skip(field_ident.field_type)?;
                        _unknown_fields.push_back(__protocol.get_bytes(Some(__pilota_begin_ptr), __pilota_offset)?);
                    },
                }

                __protocol.read_field_end()?;
                __pilota_offset += __protocol.field_end_len();

            };
                    ::std::result::Result::Ok::<_, ::pilota::thrift::ThriftException>(())
                })() {
                if let Some(field_id) = __pilota_decoding_field_id {
                    err.prepend_msg(&format!("decode struct `Df12` field(#{}) failed, caused by: ", field_id));
                }
                return ::std::result::Result::Err(err);
            };
            __protocol.read_struct_end()?;





            let data = Self {
                d1: var_1,plain: var_1013,d2: var_2,d3: var_3, _unknown_fields
            };
            ::std::result::Result::Ok(data)

                }

                fn decode_async<'a, T: ::pilota::thrift::TAsyncInputProtocol>(
            __protocol: &'a mut T,
        ) -> ::std::pin::Pin<::std::boxed::Box<dyn ::std::future::Future<Output = ::std::result::Result<Self, ::pilota::thrift::ThriftException>> + Send + 'a>> {
            ::std::boxed::Box::pin(async move {


            let mut var_1 = Some(TdEnum(E1::B));let mut var_1013 = None;let mut var_2 = Some(TdEnum(E1::C));let mut var_3 = Some(::pilota::FastStr::from_static_str("line\nbreak"));

            let mut __pilota_decoding_field_id = None;

            __protocol.read_struct_begin().await?;
            if let ::std::result::Result::Err(mut err) = async {
                    loop {


                let field_ident = __protocol.read_field_begin().await?;
                if field_ident.field_type == ::pilota::thrift::TType::Stop {

                    break;
                } else {

                }
                __pilota_decoding_field_id = field_ident.id;
                match field_ident.id {
                    Some(1) if field_ident.field_type == ::pilota::thrift::TType::I32  => {
                    var_1 = Some(<TdEnum as ::pilota::thrift::Message>::decode_async(__protocol).await?);

                },Some(1013) if field_ident.field_type == ::pilota::thrift::TType::I32  => {
                    var_1013 = Some(__protocol.read_i32().await?);

                },Some(2) if field_ident.field_type == ::pilota::thrift::TType::I32  => {
                    var_2 = Some(<TdEnum as ::pilota::thrift::Message>::decode_async(__protocol).await?);

                },Some(3) if field_ident.field_type == ::pilota::thrift::TType::Binary  => {
                    var_3 = Some(__protocol.read_faststr().await?);

                },
                    _ => {
                        __protocol.skip(field_ident.field_type).await?;

                    },
                }

                __protocol.read_field_end().await?;


            };
                    ::std::result::Result::Ok::<_, ::pilota::thrift::ThriftException>(())
                }.await {
                if let Some(field_id) = __pilota_decoding_field_id {
                    err.prepend_msg(&format!("decode struct `Df12` field(#{}) failed, caused by: ", field_id));
                }
                return ::std::result::Result::Err(err);
            };
            __protocol.read_struct_end().await?;





            let data = Self {
                d1: var_1,plain: var_1013,d2: var_2,d3: var_3, _unknown_fields: ::pilota::LinkedBytes::new()
            };
            ::std::result::Result::Ok(data)

            })
        }

                fn size<T: ::pilota::thrift::TLengthProtocol>(&self, __protocol: &mut T) -> usize {
                    #[allow(unused_imports)]
                    use ::pilota::thrift::TLengthProtocolExt;
                    __protocol.struct_begin_len(&::pilota::thrift::TStructIdentifier {
                    name: "Df12",
                }) + self.d1.as_ref().map_or(0, |value| __protocol.struct_field_len(Some(1), value)) +self.plain.as_ref().map_or(0, |value| __protocol.i32_field_len(Some(1013), *value)) +self.d2.as_ref().map_or(0, |value| __protocol.struct_field_len(Some(2), value)) +self.d3.as_ref().map_or(0, |value| __protocol.faststr_field_len(Some(3), value)) +self._unknown_fields.size() + __protocol.field_stop_len() + __protocol.struct_end_len()
                }
            }
                                impl ::std::default::Default for Df67 {
                                    fn default() -> Self {
                                        Df67 {
                                            d1: {
                    let mut map = ::pilota::AHashMap::with_capacity(1);
                    map.insert(::pilota::FastStr::from_static_str("k"), ::std::vec![1i32,2i32]);
                    map
                },
plain: ::std::default::Default::default(),
d2: {
                    let mut map = ::pilota::AHashMap::with_capacity(1);
                    map.insert(true, ::pilota::Bytes::from_static("bb".as_bytes()));
                    map
                },
d3: ::pilota::AHashSet::from([3i32,3i32,4i32]),
_unknown_fields: ::pilota::LinkedBytes::new()
                                        }
                                    }
                                }
                            #[derive(Debug)]#[derive(Clone, PartialEq)]
                pub struct Df67 {

                        pub d1: ::pilota::AHashMap<::pilota::FastStr, ::std::vec::Vec<i32>>,

                        pub plain: ::std::option::Option<i32>,

                        pub d2: ::pilota::AHashMap<bool, ::pilota::Bytes>,

                        pub d3: ::pilota::AHashSet<i32>,pub _unknown_fields: ::pilota::LinkedBytes,
                }
            impl ::pilota::thrift::Message for Df67 {
                fn encode<T: ::pilota::thrift::TOutputProtocol>(
                    &self,
                    __protocol: &mut T,
                ) -> ::std::result::Result<(),::pilota::thrift::ThriftException> {
                    #[allow(unused_imports)]
                    use ::pilota::thrift::TOutputProtocolExt;
                    let struct_ident =::pilota::thrift::TStructIdentifier {
                    name: "Df67",
                };

                __protocol.write_struct_begin(&struct_ident)?;
                __protocol.write_map_field(127, ::pilota::thrift::TType::Binary, ::pilota::thrift::TType::List, &&self.d1, |__protocol, key| {
                __protocol.write_faststr((key).clone())?;
                ::std::result::Result::Ok(())
            }, |__protocol, val| {
                __protocol.write_list(::pilota::thrift::TType::I32, &val, |__protocol, val| {
                        __protocol.write_i32(*val)?;
                        ::std::result::Result::Ok(())
                    })?;
                ::std::result::Result::Ok(())
            })?;if let Some(value) = self.plain.as_ref() {
                        __protocol.write_i32_field(1194, *value)?;
                    }__protocol.write_map_field(128, ::pilota::thrift::TType::Bool, ::pilota::thrift::TType::Binary, &&self.d2, |__protocol, key| {
                __protocol.write_bool(*key)?;
                ::std::result::Result::Ok(())
            }, |__protocol, val| {
                __protocol.write_bytes(val.clone())?;
                ::std::result::Result::Ok(())
            })?;__protocol.write_set_field(300, ::pilota::thrift::TType::I32, &&self.d3, |__protocol, val| {
                __protocol.write_i32(*val)?;
                ::std::result::Result::Ok(())
            })?;for bytes in self._unknown_fields.list.iter() {
                                __protocol.write_bytes_without_len(bytes.clone());
                            }
                __protocol.write_field_stop()?;
                __protocol.write_struct_end()?;
                ::std::result::Result::Ok(())

                }

                fn decode<T: ::pilota::thrift::TInputProtocol>(
                    __protocol: &mut T,
                ) -> ::std::result::Result<Self,::pilota::thrift::ThriftException>  {
                    #[allow(unused_imports)]
                    use ::pilota::{thrift::TLengthProtocolExt, Buf};


            let mut var_127 = None;let mut var_1194 = None;let mut var_128 = None;let mut var_300 = None;let mut _unknown_fields = ::pilota::LinkedBytes::new();

            let mut __pilota_decoding_field_id = None;

            __protocol.read_struct_begin()?;
            if let ::std::result::Result::Err(mut err) = (|| {
                    loop {

                let mut __pilota_offset = 0;
            let __pilota_begin_ptr = __protocol.buf().chunk().as_ptr();
                let field_ident = __protocol.read_field_begin()?;
                if field_ident.field_type == ::pilota::thrift::TType::Stop {
                    __pilota_offset += __protocol.field_stop_len();
                    break;
                } else {
                    __pilota_offset += __protocol.field_begin_len(field_ident.field_type, field_ident.id);
                }
                __pilota_decoding_field_id = field_ident.id;
                match field_ident.id {
                    Some(127) if field_ident.field_type == ::pilota::thrift::TType::Map  => {
                    var_127 = Some({
                        let map_ident = __protocol.read_map_begin()?;
                        let mut val = ::pilota::AHashMap::with_capacity(map_ident.size);
                        for _ in 0..map_ident.size {
                            val.insert(__protocol.read_faststr()?, unsafe {
                            let list_ident = __protocol.read_list_begin()?;
                            let mut val: ::std::vec::Vec<i32> = ::std::vec::Vec::with_capacity(list_ident.size);
                            for i in 0..list_ident.size {
                                val.as_mut_ptr().offset(i as isize).write(__protocol.read_i32()?);
                            };
                            val.set_len(list_ident.size);
                            __protocol.read_list_end()?;
                            val
                        });
                        }
                        __protocol.read_map_end()?;
                        val
                    });

                },Some(1194) if field_ident.field_type == ::pilota::thrift::TType::I32  => {
                    var_1194 = Some(__protocol.read_i32()?);

                },Some(128) if field_ident.field_type == ::pilota::thrift::TType::Map  => {
                    var_128 = Some({
                        let map_ident = __protocol.read_map_begin()?;
                        let mut val = ::pilota::AHashMap::with_capacity(map_ident.size);
                        for _ in 0..map_ident.size {
                            val.insert(__protocol.read_bool()?, __protocol.read_bytes()?);
                        }
                        __protocol.read_map_end()?;
                        val
                    });

                },Some(300) if field_ident.field_type == ::pilota::thrift::TType::Set  => {
                    var_300 = Some({let list_ident = __protocol.read_set_begin()?;
                    let mut val = ::pilota::AHashSet::with_capacity(list_ident.size);
                    for _ in 0..list_ident.size {
                        val.insert(__protocol.read_i32()?);
                    };
                    __protocol.read_set_end()?;
                    val});

                },
                    _ => {
                        __pilota_offset += __protocol.skip(field_ident.field_type)?;
                        _unknown_fields.push_back(__protocol.get_bytes(Some(__pilota_begin_ptr), __pilota_offset)?);
                    },
                }

                __protocol.read_field_end()?;
                __pilota_offset += __protocol.field_end_len();

            };
                    ::std::result::Result::Ok::<_, ::pilota::thrift::ThriftException>(())
                })() {
                if let Some(field_id) = __pilota_decoding_field_id {
                    err.prepend_msg(&format!("decode struct `Df67` field(#{}) failed, caused by: ", field_id));
                }
                return ::std::result::Result::Err(err);
            };
            __protocol.read_struct_end()?;



            let var_127 = var_127.unwrap_or_else(|| {
                    let mut map = ::pilota::AHashMap::with_capacity(1);
                    map.insert(::pilota::FastStr::from_static_str("k"), ::std::vec![1i32,2i32]);
                    map
                });
let var_128 = var_128.unwrap_or_else(|| {
                    let mut map = ::pilota::AHashMap::with_capacity(1);
                    map.insert(true, ::pilota::Bytes::from_static("bb".as_bytes()));
                    map
                });
let var_300 = var_300.unwrap_or_else(|| ::pilota::AHashSet::from([3i32,3i32,4i32]));

            let data = Self {
                d1: var_127,plain: var_1194,d2: var_128,d3: var_300, _unknown_fields
            };
            ::std::result::Result::Ok(data)

                }

                fn decode_async<'a, T: ::pilota::thrift::TAsyncInputProtocol>(
            __protocol: &'a mut T,
        ) -> ::std::pin::Pin<::std::boxed::Box<dyn ::std::future::Future<Output = ::std::result::Result<Self, ::pilota::thrift::ThriftException>> + Send + 'a>> {
            ::std::boxed::Box::pin(async move {


            let mut var_127 = None;let mut var_1194 = None;let mut var_128 = None;let mut var_300 = None;

            let mut __pilota_decoding_field_id = None;

            __protocol.read_struct_begin().await?;
            if let ::std::result::Result::Err(mut err) = async {
                    loop {


                let field_ident = __protocol.read_field_begin().await?;
                if field_ident.field_type == ::pilota::thrift::TType::Stop {

                    break;
                } else {

                }
                __pilota_decoding_field_id = field_ident.id;
                match field_ident.id {
                    Some(127) if field_ident.field_type == ::pilota::thrift::TType::Map  => {
                    var_127 = Some({
                        let map_ident = __protocol.read_map_begin().await?;
                        let mut val = ::pilota::AHashMap::with_capacity(map_ident.size);
                        for _ in 0..map_ident.size {
                            val.insert(__protocol.read_faststr().await?, {
                            let list_ident = __protocol.read_list_begin().await?;
                            let mut val = ::std::vec::Vec::with_capacity(list_ident.size);
                            for _ in 0..list_ident.size {
                                val.push(__protocol.read_i32().await?);
                            };
                            __protocol.read_list_end().await?;
                            val
                        });
                        }
                        __protocol.read_map_end().await?;
                        val
                    });

                },Some(1194) if field_ident.field_type == ::pilota::thrift::TType::I32  => {
                    var_1194 = Some(__protocol.read_i32().await?);

                },Some(128) if field_ident.field_type == ::pilota::thrift::TType::Map  => {
                    var_128 = Some({
                        let map_ident = __protocol.read_map_begin().await?;
                        let mut val = ::pilota::AHashMap::with_capacity(map_ident.size);
                        for _ in 0..map_ident.size {
                            val.insert(__protocol.read_bool().await?, __protocol.read_bytes().await?);
                        }
                        __protocol.read_map_end().await?;
                        val
                    });

                },Some(300) if field_ident.field_type == ::pilota::thrift::TType::Set  => {
                    var_300 = Some({let list_ident = __protocol.read_set_begin().await?;
                    let mut val = ::pilota::AHashSet::with_capacity(list_ident.size);
                    for _ in 0..list_ident.size {
                        val.insert(__protocol.read_i32().await?);
                    };
                    __protocol.read_set_end().await?;
                    val});

                },
                    _ => {
                        __protocol.skip(field_ident.field_type).await?;

                    },
                }

                __protocol.read_field_end().await?;


            };
                    ::std::result::Result::Ok::<_, ::pilota::thrift::ThriftException>(())
                }.await {
                if let Some(field_id) = __pilota_decoding_field_id {
                    err.prepend_msg(&format!("decode struct `Df67` field(#{}) failed, caused by: ", field_id));
                }
                return ::std::result::Result::Err(err);
            };
            __protocol.read_struct_end().await?;



            let var_127 = var_127.unwrap_or_else(|| {
                    let mut map = ::pilota::AHashMap::with_capacity(1);
                    map.insert(::pilota::FastStr::from_static_str("k"), ::std::vec![1i32,2i32]);
                    map
                });
let var_128 = var_128.unwrap_or_else(|| {
                    let mut map = ::pilota::AHashMap::with_capacity(1);
                    map.insert(true, ::pilota::Bytes::from_static("bb".as_bytes()));
                    map
                });
let var_300 = var_300.unwrap_or_else(|| ::pilota::AHashSet::from([3i32,3i32,4i32]));

            let data = Self {
                d1: var_127,plain: var_1194,d2: var_128,d3: var_300, _unknown_fields: ::pilota::LinkedBytes::new()
            };
            ::std::result::Result::Ok(data)

            })
        }

                fn size<T: ::pilota::thrift::TLengthProtocol>(&self, __protocol: &mut T) -> usize {
                    #[allow(unused_imports)]
                    use ::pilota::thrift::TLengthProtocolExt;
                    __protocol.struct_begin_len(&::pilota::thrift::TStructIdentifier {
                    name: "Df67",
                }) + __protocol.map_field_len(Some(127), ::pilota::thrift::TType::Binary, ::pilota::thrift::TType::List, &self.d1, |__protocol, key| {
                __protocol.faststr_len(key)
            }, |__protocol, val| {
                __protocol.list_len(::pilota::thrift::TType::I32, val, |__protocol, el| {
                        __protocol.i32_len(*el)
                    })
            }) +self.plain.as_ref().map_or(0, |value| __protocol.i32_field_len(Some(1194), *value)) +__protocol.map_field_len(Some(128), ::pilota::thrift::TType::Bool, ::pilota::thrift::TType::Binary, &self.d2, |__protocol, key| {
                __protocol.bool_len(*key)
            }, |__protocol, val| {
                __protocol.bytes_len(val)
            }) +__protocol.set_field_len(Some(300), ::pilota::thrift::TType::I32, &self.d3, |__protocol, el| {
                __protocol.i32_len(*el)
            }) +self._unknown_fields.size() + __protocol.field_stop_len() + __protocol.struct_end_len()
                }
            }#[derive(Debug)]
#[derive(Default)]
            #[derive(Clone, PartialEq)]
            pub struct TdMap(pub ::pilota::AHashMap<::pilota::FastStr, TdI32>);

            impl ::std::ops::Deref for TdMap {
                type Target = ::pilota::AHashMap<::pilota::FastStr, TdI32>;

                fn deref(&self) -> &Self::Target {
                    &self.0
                }
            }

            impl From<::pilota::AHashMap<::pilota::FastStr, TdI32>> for TdMap {
                fn from(v: ::pilota::AHashMap<::pilota::FastStr, TdI32>) -> Self {
                    Self(v)
                }
            }


            impl ::pilota::thrift::Message for TdMap {
                fn encode<T: ::pilota::thrift::TOutputProtocol>(
                    &self,
                    __protocol: &mut T,
                ) -> ::std::result::Result<(),::pilota::thrift::ThriftException> {
                    #[allow(unused_imports)]
                    use ::pilota::thrift::TOutputProtocolExt;
                    __protocol.write_map(::pilota::thrift::TType::Binary, ::pilota::thrift::TType::I32, &(&**self), |__protocol, key| {
                __protocol.write_faststr((key).clone())?;
                ::std::result::Result::Ok(())
            }, |__protocol, val| {
                __protocol.write_struct(val)?;
                ::std::result::Result::Ok(())
            })?;
                ::std::result::Result::Ok(())
                }

                fn decode<T: ::pilota::thrift::TInputProtocol>(
                    __protocol: &mut T,
                ) -> ::std::result::Result<Self,::pilota::thrift::ThriftException>  {
                    #[allow(unused_imports)]
                    use ::pilota::{thrift::TLengthProtocolExt, Buf};
                    ::std::result::Result::Ok(TdMap({
                        let map_ident = __protocol.read_map_begin()?;
                        let mut val = ::pilota::AHashMap::with_capacity(map_ident.size);
                        for _ in 0..map_ident.size {
                            val.insert(__protocol.read_faststr()?, ::pilota::thrift::Message::decode(__protocol)?);
                        }
                        __protocol.read_map_end()?;
                        val
                    }))
                }

                fn decode_async<'a, T: ::pilota::thrift::TAsyncInputProtocol>(
            __protocol: &'a mut T,
        ) -> ::std::pin::Pin<::std::boxed::Box<dyn ::std::future::Future<Output = ::std::result::Result<Self, ::pilota::thrift::ThriftException>> + Send + 'a>> {
            ::std::boxed::Box::pin(async move {
                ::std::result::Result::Ok(TdMap({
                        let map_ident = __protocol.read_map_begin().await?;
                        let mut val = ::pilota::AHashMap::with_capacity(map_ident.size);
                        for _ in 0..map_ident.size {
                            val.insert(__protocol.read_faststr().await?, <TdI32 as ::pilota::thrift::Message>::decode_async(__protocol).await?);
                        }
                        __protocol.read_map_end().await?;
                        val
                    }))
            })
        }

                fn size<T: ::pilota::thrift::TLengthProtocol>(&self, __protocol: &mut T) -> usize {
                    #[allow(unused_imports)]
                    use ::pilota::thrift::TLengthProtocolExt;
                    __protocol.map_len(::pilota::thrift::TType::Binary, ::pilota::thrift::TType::I32, &**self, |__protocol, key| {
                __protocol.faststr_len(key)
            }, |__protocol, val| {
                __protocol.struct_len(val)
            })
                }
            }
                                impl ::std::default::Default for Df43 {
                                    fn default() -> Self {
                                        Df43 {
                                            d1: Some({
                    let mut map = ::pilota::AHashMap::with_capacity(1);
                    map.insert(::pilota::FastStr::from_static_str("k"), ::std::vec![1i32,2i32]);
                    map
                }),
plain: ::std::default::Default::default(),
d2: Some({
                    let mut map = ::pilota::AHashMap::with_capacity(1);
                    map.insert(true, ::pilota::Bytes::from_static("bb".as_bytes()));
                    map
                }),
d3: Some(::pilota::AHashSet::from([3i32,3i32,4i32])),
_unknown_fields: ::pilota::LinkedBytes::new()
                                        }
                                    }
                                }
                            #[derive(Debug)]#[derive(Clone, PartialEq)]
                pub struct Df43 {

                        pub d1: ::std::option::Option<::pilota::AHashMap<::pilota::FastStr, ::std::vec::Vec<i32>>>,

                        pub plain: ::std::option::Option<i32>,

                        pub d2: ::std::option::Option<::pilota::AHashMap<bool, ::pilota::Bytes>>,

                        pub d3: ::std::option::Option<::pilota::AHashSet<i32>>,pub _unknown_fields: ::pilota::LinkedBytes,
                }
            impl ::pilota::thrift::Message for Df43 {
                fn encode<T: ::pilota::thrift::TOutputProtocol>(
                    &self,
                    __protocol: &mut T,
                ) -> ::std::result::Result<(),::pilota::thrift::ThriftException> {
                    #[allow(unused_imports)]
                    use ::pilota::thrift::TOutputProtocolExt;
                    let struct_ident =::pilota::thrift::TStructIdentifier {
                    name: "Df43",
                };

                __protocol.write_struct_begin(&struct_ident)?;
                if let Some(value) = self.d1.as_ref() {
                        __protocol.write_map_field(5, ::pilota::thrift::TType::Binary, ::pilota::thrift::TType::List, &value, |__protocol, key| {
                __protocol.write_faststr((key).clone())?;
                ::std::result::Result::Ok(())
            }, |__protocol, val| {
                __protocol.write_list(::pilota::thrift::TType::I32, &val, |__protocol, val| {
                        __protocol.write_i32(*val)?;
                        ::std::result::Result::Ok(())
                    })?;
                ::std::result::Result::Ok(())
            })?;
                    }if let Some(value) = self.plain.as_ref() {
                        __protocol.write_i32_field(1048, *value)?;
                    }if let Some(value) = self.d2.as_ref() {
                        __protocol.write_map_field(20, ::pilota::thrift::TType::Bool, ::pilota::thrift::TType::Binary, &value, |__protocol, key| {
                __protocol.write_bool(*key)?;
                ::std::result::Result::Ok(())
            }, |__protocol, val| {
                __protocol.write_bytes(val.clone())?;
                ::std::result::Result::Ok(())
            })?;
                    }if let Some(value) = self.d3.as_ref() {
                        __protocol.write_set_field(21, ::pilota::thrift::TType::I32, &value, |__protocol, val| {
                __protocol.write_i32(*val)?;
                ::std::result::Result::Ok(())
            })?;
                    }for bytes in self._unknown_fields.list.iter() {
                                __protocol.write_bytes_without_len(bytes.clone());
                            }
                __protocol.write_field_stop()?;
                __protocol.write_struct_end()?;
                ::std::result::Result::Ok(())

                }

                fn decode<T: ::pilota::thrift::TInputProtocol>(
                    __protocol: &mut T,
                ) -> ::std::result::Result<Self,::pilota::thrift::ThriftException>  {
                    #[allow(unused_imports)]
                    use ::pilota::{thrift::TLengthProtocolExt, Buf};


            let mut var_5 = None;let mut var_1048 = None;let mut var_20 = None;let mut var_21 = None;let mut _unknown_fields = ::pilota::LinkedBytes::new();

            let mut __pilota_decoding_field_id = None;

            __protocol.read_struct_begin()?;
            if let ::std::result::Result::Err(mut err) = (|| {
                    loop {

                let mut __pilota_offset = 0;
            let __pilota_begin_ptr = __protocol.buf().chunk().as_ptr();
                let field_ident = __protocol.read_field_begin()?;
                if field_ident.field_type == ::pilota::thrift::TType::Stop {
                    __pilota_offset += __protocol.field_stop_len();
                    break;
                } else {
                    __pilota_offset += __protocol.field_begin_len(field_ident.field_type, field_ident.id);
                }
                __pilota_decoding_field_id = field_ident.id;
                match field_ident.id {
                    Some(5) if field_ident.field_type == ::pilota::thrift::TType::Map  => {
                    var_5 = Some({
                        let map_ident = __protocol.read_map_begin()?;
                        let mut val = ::pilota::AHashMap::with_capacity(map_ident.size);
                        for _ in 0..map_ident.size {
                            val.insert(__protocol.read_faststr()?, unsafe {
                            let list_ident = __protocol.read_list_begin()?;
                            let mut val: ::std::vec::Vec<i32> = ::std::vec::Vec::with_capacity(list_ident.size);
                            for i in 0..list_ident.size {
                                val.as_mut_ptr().offset(i as isize).write(__protocol.read_i32()?);
                            };
                            val.set_len(list_ident.size);
                            __protocol.read_list_end()?;
                            val
                        });
                        }
                        __protocol.read_map_end()?;
                        val
                    });

                },Some(1048) if field_ident.field_type == ::pilota::thrift::TType::I32  => {
                    var_1048 = Some(__protocol.read_i32()?);

                },Some(20) if field_ident.field_type == ::pilota::thrift::TType::Map  => {
                    var_20 = Some({
                        let map_ident = __protocol.read_map_begin()?;
                        let mut val = ::pilota::AHashMap::with_capacity(map_ident.size);
                        for _ in 0..map_ident.size {
                            val.insert(__protocol.read_bool()?, __protocol.read_bytes()?);
                        }
                        __protocol.read_map_end()?;
                        val
                    });

                },Some(21) if field_ident.field_type == ::pilota::thrift::TType::Set  => {
                    var_21 = Some({let list_ident = __protocol.read_set_begin()?;
                    let mut val = ::pilota::AHashSet::with_capacity(list_ident.size);
                    for _ in 0..list_ident.size {
                        val.insert(__protocol.read_i32()?);
                    };
                    __protocol.read_set_end()?;
                    val});

                },
                    _ => {
                        __pilota_offset += __protocol.skip(field_ident.field_type)?;
                        _unknown_fields.push_back(__protocol.get_bytes(Some(__pilota_begin_ptr), __pilota_offset)?);
                    },
                }

                __protocol.read_field_end()?;
                __pilota_offset += __protocol.field_end_len();

            };
                    ::std::result::Result::Ok::<_, ::pilota::thrift::ThriftException>(())
                })() {
                if let Some(field_id) = __pilota_decoding_field_id {
                    err.prepend_msg(&format!("decode struct `Df43` field(#{}) failed, caused by: ", field_id));
                }
                return ::std::result::Result::Err(err);
            };
            __protocol.read_struct_end()?;



            if var_5.is_none() {
                                var_5 = Some({
                    let mut map = ::pilota::AHashMap::with_capacity(1);
                    map.insert(::pilota::FastStr::from_static_str("k"), ::std::vec![1i32,2i32]);
                    map
                });
                            }
if var_20.is_none() {
                                var_20 = Some({
                    let mut map = ::pilota::AHashMap::with_capacity(1);
                    map.insert(true, ::pilota::Bytes::from_static("bb".as_bytes()));
                    map
                });
                            }
if var_21.is_none() {
                                var_21 = Some(::pilota::AHashSet::from([3i32,3i32,4i32]));
                            }

            let data = Self {
                d1: var_5,plain: var_1048,d2: var_20,d3: var_21, _unknown_fields
            };
            ::std::result::Result::Ok(data)

                }

                fn decode_async<'a, T: ::pilota::thrift::TAsyncInputProtocol>(
            __protocol: &'a mut T,
        ) -> ::std::pin::Pin<::std::boxed::Box<dyn ::std::future::Future<Output = ::std::result::Result<Self, ::pilota::thrift::ThriftException>> + Send + 'a>> {
            ::std::boxed::Box::pin(async move {


            let mut var_5 = None;let mut var_1048 = None;let mut var_20 = None;let mut var_21 = None;

            let mut __pilota_decoding_field_id = None;

            __protocol.read_struct_begin().await?;
            if let ::std::result::Result::Err(mut err) = async {
                    loop {


                let field_ident = __protocol.read_field_begin().await?;
                if field_ident.field_type == ::pilota::thrift::TType::Stop {

                    break;
                } else {

                }
                __pilota_decoding_field_id = field_ident.id;
                match field_ident.id {
                    Some(5) if field_ident.field_type == ::pilota::thrift::TType::Map  => {
                    var_5 = Some({
                        let map_ident = __protocol.read_map_begin().await?;
                        let mut val = ::pilota::AHashMap::with_capacity(map_ident.size);
                        for _ in 0..map_ident.size {
                            val.insert(__protocol.read_faststr().await?, {
                            let list_ident = __protocol.read_list_begin().await?;
                            let mut val = ::std::vec::Vec::with_capacity(list_ident.size);
                            for _ in 0..list_ident.size {
                                val.push(__protocol.read_i32().await?);
                            };
                            __protocol.read_list_end().await?;
                            val
                        });
                        }
                        __protocol.read_map_end().await?;
                        val
                    });

                },Some(1048) if field_ident.field_type == ::pilota::thrift::TType::I32  => {
                    var_1048 = Some(__protocol.read_i32().await?);

                },Some(20) if field_ident.field_type == ::pilota::thrift::TType::Map  => {
                    var_20 = Some({
                        let map_ident = __protocol.read_map_begin().await?;
                        let mut val = ::pilota::AHashMap::with_capacity(map_ident.size);
                        for _ in 0..map_ident.size {
                            val.insert(__protocol.read_bool().await?, __protocol.read_bytes().await?);
                        }
                        __protocol.read_map_end().await?;
                        val
                    });

                },Some(21) if field_ident.field_type == ::pilota::thrift::TType::Set  => {
                    var_21 = Some({let list_ident = __protocol.read_set_begin().await?;
                    let mut val = ::pilota::AHashSet::with_capacity(list_ident.size);
                    for _ in 0..list_ident.size {
                        val.insert(__protocol.read_i32().await?);
                    };
                    __protocol.read_set_end().await?;
                    val});

                },
                    _ => {
                        __protocol.skip(field_ident.field_type).await?;

                    },
                }

                __protocol.read_field_end().await?;


            };
                    ::std::result::Result::Ok::<_, ::pilota::thrift::ThriftException>(())
                }.await {
                if let Some(field_id) = __pilota_decoding_field_id {
                    err.prepend_msg(&format!("decode struct `Df43` field(#{}) failed, caused by: ", field_id));
                }
                return ::std::result::Result::Err(err);
            };
            __protocol.read_struct_end().await?;



            if var_5.is_none() {
                                var_5 = Some({
                    let mut map = ::pilota::AHashMap::with_capacity(1);
                    map.insert(::pilota::FastStr::from_static_str("k"), ::std::vec![1i32,2i32]);
                    map
                });
                            }
if var_20.is_none() {
                                var_20 = Some({
                    let mut map = ::pilota::AHashMap::with_capacity(1);
                    map.insert(true, ::pilota::Bytes::from_static("bb".as_bytes()));
                    map
                });
                            }
if var_21.is_none() {
                                var_21 = Some(::pilota::AHashSet::from([3i32,3i32,4i32]));
                            }

            let data = Self {
                d1: var_5,plain: var_1048,d2: var_20,d3: var_21, _unknown_fields: ::pilota::LinkedBytes::new()
            };
            ::std::result::Result::Ok(data)

            })
        }

                fn size<T: ::pilota::thrift::TLengthProtocol>(&self, __protocol: &mut T) -> usize {
                    #[allow(unused_imports)]
                    use ::pilota::thrift::TLengthProtocolExt;
                    __protocol.struct_begin_len(&::pilota::thrift::TStructIdentifier {
                    name: "Df43",
                }) + self.d1.as_ref().map_or(0, |value| __protocol.map_field_len(Some(5), ::pilota::thrift::TType::Binary, ::pilota::thrift::TType::List, value, |__protocol, key| {
                __protocol.faststr_len(key)
            }, |__protocol, val| {
                __protocol.list_len(::pilota::thrift::TType::I32, val, |__protocol, el| {
                        __protocol.i32_len(*el)
                    })
            })) +self.plain.as_ref().map_or(0, |value| __protocol.i32_field_len(Some(1048), *value)) +self.d2.as_ref().map_or(0, |value| __protocol.map_field_len(Some(20), ::pilota::thrift::TType::Bool, ::pilota::thrift::TType::Binary, value, |__protocol, key| {
                __protocol.bool_len(*key)
            }, |__protocol, val| {
                __protocol.bytes_len(val)
            })) +self.d3.as_ref().map_or(0, |value| __protocol.set_field_len(Some(21), ::pilota::thrift::TType::I32, value, |__protocol, el| {
                __protocol.i32_len(*el)
            })) +self._unknown_fields.size() + __protocol.field_stop_len() + __protocol.struct_end_len()
                }
            }
                                impl ::std::default::Default for Df19 {
                                    fn default() -> Self {
                                        Df19 {
                                            d1: Some({
                    let mut map = ::pilota::AHashMap::with_capacity(1);
                    map.insert(::pilota::FastStr::from_static_str("k"), ::std::vec![1i32,2i32]);
                    map
                }),
plain: ::std::default::Default::default(),
d2: Some({
                    let mut map = ::pilota::AHashMap::with_capacity(1);
                    map.insert(true, ::pilota::Bytes::from_static("bb".as_bytes()));
                    map
                }),
d3: Some(::pilota::AHashSet::from([3i32,3i32,4i32])),
_unknown_fields: ::pilota::LinkedBytes::new()
                                        }
                                    }
                                }
                            #[derive(Debug)]#[derive(Clone, PartialEq)]
                pub struct Df19 {

                        pub d1: ::std::option::Option<::pilota::AHashMap<::pilota::FastStr, ::std::vec::Vec<i32>>>,

                        pub plain: ::std::option::Option<i32>,

                        pub d2: ::std::option::Option<::pilota::AHashMap<bool, ::pilota::Bytes>>,

                        pub d3: ::std::option::Option<::pilota::AHashSet<i32>>,pub _unknown_fields: ::pilota::LinkedBytes,
                }
            impl ::pilota::thrift::Message for Df19 {
                fn encode<T: ::pilota::thrift::TOutputProtocol>(
                    &self,
                    __protocol: &mut T,
                ) -> ::std::result::Result<(),::pilota::thrift::ThriftException> {
                    #[allow(unused_imports)]
                    use ::pilota::thrift::TOutputProtocolExt;
                    let struct_ident =::pilota::thrift::TStructIdentifier {
                    name: "Df19",
                };

                __protocol.write_struct_begin(&struct_ident)?;
                if let Some(value) = self.d1.as_ref() {
                        __protocol.write_map_field(1, ::pilota::thrift::TType::Binary, ::pilota::thrift::TType::List, &value, |__protocol, key| {
                __protocol.write_faststr((key).clone())?;
                ::std::result::Result::Ok(())
            }, |__protocol, val| {
                __protocol.write_list(::pilota::thrift::TType::I32, &val, |__protocol, val| {
                        __protocol.write_i32(*val)?;
                        ::std::result::Result::Ok(())
                    })?;
                ::std::result::Result::Ok(())
            })?;
                    }if let Some(value) = self.plain.as_ref() {
                        __protocol.write_i32_field(1020, *value)?;
                    }if let Some(value) = self.d2.as_ref() {
                        __protocol.write_map_field(15, ::pilota::thrift::TType::Bool, ::pilota::thrift::TType::Binary, &value, |__protocol, key| {
                __protocol.write_bool(*key)?;
                ::std::result::Result::Ok(())
            }, |__protocol, val| {
                __protocol.write_bytes(val.clone())?;
                ::std::result::Result::Ok(())
            })?;
                    }if let Some(value) = self.d3.as_ref() {
                        __protocol.write_set_field(16, ::pilota::thrift::TType::I32, &value, |__protocol, val| {
                __protocol.write_i32(*val)?;
                ::std::result::Result::Ok(())
            })?;
                    }for bytes in self._unknown_fields.list.iter() {
                                __protocol.write_bytes_without_len(bytes.clone());
                            }
                __protocol.write_field_stop()?;
                __protocol.write_struct_end()?;
                ::std::result::Result::Ok(())

                }

                fn decode<T: ::pilota::thrift::TInputProtocol>(
                    __protocol: &mut T,
                ) -> ::std::result::Result<Self,::pilota::thrift::ThriftException>  {
                    #[allow(unused_imports)]
                    use ::pilota::{thrift::TLengthProtocolExt, Buf};


            let mut var_1 = None;let mut var_1020 = None;let mut var_15 = None;let mut var_16 = None;let mut _unknown_fields = ::pilota::LinkedBytes::new();

            let mut __pilota_decoding_field_id = None;

            __protocol.read_struct_begin()?;
            if let ::std::result::Result::Err(mut err) = (|| {
                    loop {

                let mut __pilota_offset = 0;
            let __pilota_begin_ptr = __protocol.buf().chunk().as_ptr();
                let field_ident = __protocol.read_field_begin()?;
                if field_ident.field_type == ::pilota::thrift::TType::Stop {
                    __pilota_offset += __protocol.field_stop_len();
                    break;
                } else {
                    __pilota_offset += __protocol.field_begin_len(field_ident.field_type, field_ident.id);
                }
                __pilota_decoding_field_id = field_ident.id;
                match field_ident.id {
                    Some(1) if field_ident.field_type == ::pilota::thrift::TType::Map  => {
                    var_1 = Some({
                        let map_ident = __protocol.read_map_begin()?;
                        let mut val = ::pilota::AHashMap::with_capacity(map_ident.size);
                        for _ in 0..map_ident.size {
                            val.insert(__protocol.read_faststr()?, unsafe {
                            let list_ident = __protocol.read_list_begin()?;
                            let mut val: ::std::vec::Vec<i32> = ::std::vec::Vec::with_capacity(list_ident.size);
                            for i in 0..list_ident.size {
                                val.as_mut_ptr().offset(i as isize).write(__protocol.read_i32()?);
                            };
                            val.set_len(list_ident.size);
                            __protocol.read_list_end()?;
                            val
                        });
                        }
                        __protocol.read_map_end()?;
                        val
                    });

                },Some(1020) if field_ident.field_type == ::pilota::thrift::TType::I32  => {
                    var_1020 = Some(__protocol.read_i32()?);

                },Some(15) if field_ident.field_type == ::pilota::thrift::TType::Map  => {
                    var_15 = Some({
                        let map_ident = __protocol.read_map_begin()?;
                        let mut val = ::pilota::AHashMap::with_capacity(map_ident.size);
                        for _ in 0..map_ident.size {
                            val.insert(__protocol.read_bool()?, __protocol.read_bytes()?);
                        }
                        __protocol.read_map_end()?;
                        val
                    });

                },Some(16) if field_ident.field_type == ::pilota::thrift::TType::Set  => {
                    var_16 = Some({let list_ident = __protocol.read_set_begin()?;
                    let mut val = ::pilota::AHashSet::with_capacity(list_ident.size);
                    for _ in 0..list_ident.size {
                        val.insert(__protocol.read_i32()?);
                    };
                    __protocol.read_set_end()?;
                    val});

                },
                    _ => {
                        __pilota_offset += __protocol.skip(field_ident.field_type)?;
                        _unknown_fields.push_back(__protocol.get_bytes(Some(__pilota_begin_ptr), __pilota_offset)?);
                    },
                }

                __protocol.read_field_end()?;
                __pilota_offset += __protocol.field_end_len();

            };
                    ::std::result::Result::Ok::<_, ::pilota::thrift::ThriftException>(())
                })() {
                if let Some(field_id) = __pilota_decoding_field_id {
                    err.prepend_msg(&format!("decode struct `Df19` field(#{}) failed, caused by: ", field_id));
                }
                return ::std::result::Result::Err(err);
            };
            __protocol.read_struct_end()?;



            if var_1.is_none() {
                                var_1 = Some({
                    let mut map = ::pilota::AHashMap::with_capacity(1);
                    map.insert(::pilota::FastStr::from_static_str("k"), ::std::vec![1i32,2i32]);
                    map
                });
                            }
if var_15.is_none() {
                                var_15 = Some({
                    let mut map = ::pilota::AHashMap::with_capacity(1);
                    map.insert(true, ::pilota::Bytes::from_static("bb".as_bytes()));
                    map
                });
                            }
if var_16.is_none() {
                                var_16 = Some(::pilota::AHashSet::from([3i32,3i32,4i32]));
                            }

            let data = Self {
                d1: var_1,plain: var_1020,d2: var_15,d3: var_16, _unknown_fields
            };
            ::std::result::Result::Ok(data)

                }

                fn decode_async<'a, T: ::pilota::thrift::TAsyncInputProtocol>(
            __protocol: &'a mut T,
        ) -> ::std::pin::Pin<::std::boxed::Box<dyn ::std::future::Future<Output = ::std::result::Result<Self, ::pilota::thrift::ThriftException>> + Send + 'a>> {
            ::std::boxed::Box::pin(async move {


            let mut var_1 = None;let mut var_1020 = None;let mut var_15 = None;let mut var_16 = None;

            let mut __pilota_decoding_field_id = None;

            __protocol.read_struct_begin().await?;
            if let ::std::result::Result::Err(mut err) = async {
                    loop {


                let field_ident = __protocol.read_field_begin().await?;
                if field_ident.field_type == ::pilota::thrift::TType::Stop {

                    break;
                } else {

                }
                __pilota_decoding_field_id = field_ident.id;
                match field_ident.id {
                    Some(1) if field_ident.field_type == ::pilota::thrift::TType::Map  => {
                    var_1 = Some({
                        let map_ident = __protocol.read_map_begin().await?;
                        let mut val = ::pilota::AHashMap::with_capacity(map_ident.size);
                        for _ in 0..map_ident.size {
                            val.insert(__protocol.read_faststr().await?, {
                            let list_ident = __protocol.read_list_begin().await?;
                            let mut val = ::std::vec::Vec::with_capacity(list_ident.size);
                            for _ in 0..list_ident.size {
                                val.push(__protocol.read_i32().await?);
                            };
                            __protocol.read_list_end().await?;
                            val
                        });
                        }
                        __protocol.read_map_end().await?;
                        val
                    });

                },Some(1020) if field_ident.field_type == ::pilota::thrift::TType::I32  => {
                    var_1020 = Some(__protocol.read_i32().await?);

                },Some(15) if field_ident.field_type == ::pilota::thrift::TType::Map  => {
                    var_15 = Some({
                        let map_ident = __protocol.read_map_begin().await?;
                        let mut val = ::pilota::AHashMap::with_capacity(map_ident.size);
                        for _ in 0..map_ident.size {
                            val.insert(__protocol.read_bool().await?, __protocol.read_bytes().await?);
                        }
                        __protocol.read_map_end().await?;
                        val
                    });

                },Some(16) if field_ident.field_type == ::pilota::thrift::TType::Set  => {
                    var_16 = Some({let list_ident = __protocol.read_set_begin().await?;
                    let mut val = ::pilota::AHashSet::with_capacity(list_ident.size);
                    for _ in 0..list_ident.size {
                        val.insert(__protocol.read_i32().await?);
                    };
                    __protocol.read_set_end().await?;
                    val});

                },
                    _ => {
                        __protocol.skip(field_ident.field_type).await?;

                    },
                }

                __protocol.read_field_end().await?;


            };
                    ::std::result::Result::Ok::<_, ::pilota::thrift::ThriftException>(())
                }.await {
                if let Some(field_id) = __pilota_decoding_field_id {
                    err.prepend_msg(&format!("decode struct `Df19` field(#{}) failed, caused by: ", field_id));
                }
                return ::std::result::Result::Err(err);
            };
            __protocol.read_struct_end().await?;



            if var_1.is_none() {
                                var_1 = Some({
                    let mut map = ::pilota::AHashMap::with_capacity(1);
                    map.insert(::pilota::FastStr::from_static_str("k"), ::std::vec![1i32,2i32]);
                    map
                });
                            }
if var_15.is_none() {
                                var_15 = Some({
                    let mut map = ::pilota::AHashMap::with_capacity(1);
                    map.insert(true, ::pilota::Bytes::from_static("bb".as_bytes()));
                    map
                });
                            }
if var_16.is_none() {
                                var_16 = Some(::pilota::AHashSet::from([3i32,3i32,4i32]));
                            }

            let data = Self {
                d1: var_1,plain: var_1020,d2: var_15,d3: var_16, _unknown_fields: ::pilota::LinkedBytes::new()
            };
            ::std::result::Result::Ok(data)

            })
        }

                fn size<T: ::pilota::thrift::TLengthProtocol>(&self, __protocol: &mut T) -> usize {
                    #[allow(unused_imports)]
                    use ::pilota::thrift::TLengthProtocolExt;
                    __protocol.struct_begin_len(&::pilota::thrift::TStructIdentifier {
                    name: "Df19",
                }) + self.d1.as_ref().map_or(0, |value| __protocol.map_field_len(Some(1), ::pilota::thrift::TType::Binary, ::pilota::thrift::TType::List, value, |__protocol, key| {
                __protocol.faststr_len(key)
            }, |__protocol, val| {
                __protocol.list_len(::pilota::thrift::TType::I32, val, |__protocol, el| {
                        __protocol.i32_len(*el)
                    })
            })) +self.plain.as_ref().map_or(0, |value| __protocol.i32_field_len(Some(1020), *value)) +self.d2.as_ref().map_or(0, |value| __protocol.map_field_len(Some(15), ::pilota::thrift::TType::Bool, ::pilota::thrift::TType::Binary, value, |__protocol, key| {
                __protocol.bool_len(*key)
            }, |__protocol, val| {
                __protocol.bytes_len(val)
            })) +self.d3.as_ref().map_or(0, |value| __protocol.set_field_len(Some(16), ::pilota::thrift::TType::I32, value, |__protocol, el| {
                __protocol.i32_len(*el)
            })) +self._unknown_fields.size() + __protocol.field_stop_len() + __protocol.struct_end_len()
                }
            }pub const K_DBL: f64 = 2.5f64;
                                impl ::std::default::Default for Df50 {
                                    fn default() -> Self {
                                        Df50 {
                                            d1: -32768i16,
plain: ::std::default::Default::default(),
d2: 300i16,
d3: 2147483647i32,
_unknown_fields: ::pilota::LinkedBytes::new()
                                        }
                                    }
                                }
                            #[derive(PartialOrd)]
#[derive(Hash, Eq, Ord)]
#[derive(Debug)]#[derive(Clone, PartialEq)]
                pub struct Df50 {

                        pub d1: i16,

                        pub plain: ::std::option::Option<i32>,

                        pub d2: i16,

                        pub d3: i32,pub _unknown_fields: ::pilota::LinkedBytes,
                }
            impl ::pilota::thrift::Message for Df50 {
                fn encode<T: ::pilota::thrift::TOutputProtocol>(
                    &self,
                    __protocol: &mut T,
                ) -> ::std::result::Result<(),::pilota::thrift::ThriftException> {
                    #[allow(unused_imports)]
                    use ::pilota::thrift::TOutputProtocolExt;
                    let struct_ident =::pilota::thrift::TStructIdentifier {
                    name: "Df50",
                };

                __protocol.write_struct_begin(&struct_ident)?;
                __protocol.write_i16_field(1, *&self.d1)?;if let Some(value) = self.plain.as_ref() {
                        __protocol.write_i32_field(1051, *value)?;
                    }__protocol.write_i16_field(2, *&self.d2)?;__protocol.write_i32_field(32767, *&self.d3)?;for bytes in self._unknown_fields.list.iter() {
                                __protocol.write_bytes_without_len(bytes.clone());
                            }
                __protocol.write_field_stop()?;
                __protocol.write_struct_end()?;
                ::std::result::Result::Ok(())

                }

                fn decode<T: ::pilota::thrift::TInputProtocol>(
                    __protocol: &mut T,
                ) -> ::std::result::Result<Self,::pilota::thrift::ThriftException>  {
                    #[allow(unused_imports)]
                    use ::pilota::{thrift::TLengthProtocolExt, Buf};


            let mut var_1 = -32768i16;let mut var_1051 = None;let mut var_2 = 300i16;let mut var_32767 = 2147483647i32;let mut _unknown_fields = ::pilota::LinkedBytes::new();

            let mut __pilota_decoding_field_id = None;

            __protocol.read_struct_begin()?;
            if let ::std::result::Result::Err(mut err) = (|| {
                    loop {

                let mut __pilota_offset = 0;
            let __pilota_begin_ptr = __protocol.buf().chunk().as_ptr();
                let field_ident = __protocol.read_field_begin()?;
                if field_ident.field_type == ::pilota::thrift::TType::Stop {
                    __pilota_offset += __protocol.field_stop_len();
                    break;
                } else {
                    __pilota_offset += __protocol.field_begin_len(field_ident.field_type, field_ident.id);
                }
                __pilota_decoding_field_id = field_ident.id;
                match field_ident.id {
                    Some(1) if field_ident.field_type == ::pilota::thrift::TType::I16  => {
                    var_1 = __protocol.read_i16()?;

                },Some(1051) if field_ident.field_type == ::pilota::thrift::TType::I32  => {
                    var_1051 = Some(__protocol.read_i32()?);

                },Some(2) if field_ident.field_type == ::pilota::thrift::TType::I16  => {
                    var_2 = __protocol.read_i16()?;

                },Some(32767) if field_ident.field_type == ::pilota::thrift::TType::I32  => {
                    var_32767 = __protocol.read_i32()?;

                },
                    _ => {
                        __pilota_offset += __protocol.skip(field_ident.field_type)?;
                        _unknown_fields.push_back(__protocol.get_bytes(Some(__pilota_begin_ptr), __pilota_offset)?);
                    },
                }

                __protocol.read_field_end()?;
                __pilota_offset += __protocol.field_end_len();

            };
                    ::std::result::Result::Ok::<_, ::pilota::thrift::ThriftException>(())
                })() {
                if let Some(field_id) = __pilota_decoding_field_id {
                    err.prepend_msg(&format!("decode struct `Df50` field(#{}) failed, caused by: ", field_id));
                }
                return ::std::result::Result::Err(err);
            };
            __protocol.read_struct_end()?;





            let data = Self {
                d1: var_1,plain: var_1051,d2: var_2,d3: var_32767, _unknown_fields
            };
            ::std::result::Result::Ok(data)

                }

                fn decode_async<'a, T: ::pilota::thrift::TAsyncInputProtocol>(
            __protocol: &'a mut T,
        ) -> ::std::pin::Pin<::std::boxed::Box<dyn ::std::future::Future<Output = ::std::result::Result<Self, ::pilota::thrift::ThriftException>> + Send + 'a>> {
            ::std::boxed::Box::pin(async move {


            let mut var_1 = -32768i16;let mut var_1051 = None;let mut var_2 = 300i16;let mut var_32767 = 2147483647i32;

            let mut __pilota_decoding_field_id = None;

            __protocol.read_struct_begin().await?;
            if let ::std::result::Result::Err(mut err) = async {
                    loop {


                let field_ident = __protocol.read_field_begin().await?;
                if field_ident.field_type == ::pilota::thrift::TType::Stop {

                    break;
                } else {

                }
                __pilota_decoding_field_id = field_ident.id;
                match field_ident.id {
                    Some(1) if field_ident.field_type == ::pilota::thrift::TType::I16  => {
                    var_1 = __protocol.read_i16().await?;

                },Some(1051) if field_ident.field_type == ::pilota::thrift::TType::I32  => {
                    var_1051 = Some(__protocol.read_i32().await?);

                },Some(2) if field_ident.field_type == ::pilota::thrift::TType::I16  => {
                    var_2 = __protocol.read_i16().await?;

                },Some(32767) if field_ident.field_type == ::pilota::thrift::TType::I32  => {
                    var_32767 = __protocol.read_i32().await?;

                },
                    _ => {
                        __protocol.skip(field_ident.field_type).await?;

                    },
                }

                __protocol.read_field_end().await?;


            };
                    ::std::result::Result::Ok::<_, ::pilota::thrift::ThriftException>(())
                }.await {
                if let Some(field_id) = __pilota_decoding_field_id {
                    err.prepend_msg(&format!("decode struct `Df50` field(#{}) failed, caused by: ", field_id));
                }
                return ::std::result::Result::Err(err);
            };
            __protocol.read_struct_end().await?;





            let data = Self {
                d1: var_1,plain: var_1051,d2: var_2,d3: var_32767, _unknown_fields: ::pilota::LinkedBytes::new()
            };
            ::std::result::Result::Ok(data)

            })
        }

                fn size<T: ::pilota::thrift::TLengthProtocol>(&self, __protocol: &mut T) -> usize {
                    #[allow(unused_imports)]
                    use ::pilota::thrift::TLengthProtocolExt;
                    __protocol.struct_begin_len(&::pilota::thrift::TStructIdentifier {
                    name: "Df50",
                }) + __protocol.i16_field_len(Some(1), *&self.d1) +self.plain.as_ref().map_or(0, |value| __protocol.i32_field_len(Some(1051), *value)) +__protocol.i16_field_len(Some(2), *&self.d2) +__protocol.i32_field_len(Some(32767), *&self.d3) +self._unknown_fields.size() + __protocol.field_stop_len() + __protocol.struct_end_len()
                }
            }
                                impl ::std::default::Default for Df26 {
                                    fn default() -> Self {
                                        Df26 {
                                            d1: Some(-32768i16),
plain: ::std::default::Default::default(),
d2: Some(300i16),
d3: Some(2147483647i32),
_unknown_fields: ::pilota::LinkedBytes::new()
                                        }
                                    }
                                }
                            #[derive(PartialOrd)]
#[derive(Hash, Eq, Ord)]
#[derive(Debug)]#[derive(Clone, PartialEq)]
                pub struct Df26 {

                        pub d1: ::std::option::Option<i16>,

                        pub plain: ::std::option::Option<i32>,

                        pub d2: ::std::option::Option<i16>,

                        pub d3: ::std::option::Option<i32>,pub _unknown_fields: ::pilota::LinkedBytes,
                }
            impl ::pilota::thrift::Message for Df26 {
                fn encode<T: ::pilota::thrift::TOutputProtocol>(
                    &self,
                    __protocol: &mut T,
                ) -> ::std::result::Result<(),::pilota::thrift::ThriftException> {
                    #[allow(unused_imports)]
                    use ::pilota::thrift::TOutputProtocolExt;
                    let struct_ident =::pilota::thrift::TStructIdentifier {
                    name: "Df26",
                };

                __protocol.write_struct_begin(&struct_ident)?;
                if let Some(value) = self.d1.as_ref() {
                        __protocol.write_i16_field(127, *value)?;
                    }if let Some(value) = self.plain.as_ref() {
                        __protocol.write_i32_field(1153, *value)?;
                    }if let Some(value) = self.d2.as_ref() {
                        __protocol.write_i16_field(128, *value)?;
                    }if let Some(value) = self.d3.as_ref() {
                        __protocol.write_i32_field(300, *value)?;
                    }for bytes in self._unknown_fields.list.iter() {
                                __protocol.write_bytes_without_len(bytes.clone());
                            }
                __protocol.write_field_stop()?;
                __protocol.write_struct_end()?;
                ::std::result::Result::Ok(())

                }

                fn decode<T: ::pilota::thrift::TInputProtocol>(
                    __protocol: &mut T,
                ) -> ::std::result::Result<Self,::pilota::thrift::ThriftException>  {
                    #[allow(unused_imports)]
                    use ::pilota::{thrift::TLengthProtocolExt, Buf};


            let mut var_127 = Some(-32768i16);let mut var_1153 = None;let mut var_128 = Some(300i16);let mut var_300 = Some(2147483647i32);let mut _unknown_fields = ::pilota::LinkedBytes::new();

            let mut __pilota_decoding_field_id = None;

            __protocol.read_struct_begin()?;
            if let ::std::result::Result::Err(mut err) = (|| {
                    loop {

                let mut __pilota_offset = 0;
            let __pilota_begin_ptr = __protocol.buf().chunk().as_ptr();
                let field_ident = __protocol.read_field_begin()?;
                if field_ident.field_type == ::pilota::thrift::TType::Stop {
                    __pilota_offset += __protocol.field_stop_len();
                    break;
                } else {
                    __pilota_offset += __protocol.field_begin_len(field_ident.field_type, field_ident.id);
                }
                __pilota_decoding_field_id = field_ident.id;
                match field_ident.id {
                    Some(127) if field_ident.field_type == ::pilota::thrift::TType::I16  => {
                    var_127 = Some(__protocol.read_i16()?);

                },Some(1153) if field_ident.field_type == ::pilota::thrift::TType::I32  => {
                    var_1153 = Some(__protocol.read_i32()?);

                },Some(128) if field_ident.field_type == ::pilota::thrift::TType::I16  => {
                    var_128 = Some(__protocol.read_i16()?);

                },Some(300) if field_ident.field_type == ::pilota::thrift::TType::I32  => {
                    var_300 = Some(__protocol.read_i32()?);

                },
                    _ => {
                        __pilota_offset += __protocol.skip(field_ident.field_type)?;
                        _unknown_fields.push_back(__protocol.get_bytes(Some(__pilota_begin_ptr), __pilota_offset)?);
                    },
                }

                __protocol.read_field_end()?;
                __pilota_offset += __protocol.field_end_len();

            };
                    ::std::result::Result::Ok::<_, ::pilota::thrift::ThriftException>(())
                })() {
                if let Some(field_id) = __pilota_decoding_field_id {
                    err.prepend_msg(&format!("decode struct `Df26` field(#{}) failed, caused by: ", field_id));
                }
                return ::std::result::Result::Err(err);
            };
            __protocol.read_struct_end()?;





            let data = Self {
                d1: var_127,plain: var_1153,d2: var_128,d3: var_300, _unknown_fields
            };
            ::std::result::Result::Ok(data)

                }

                fn decode_async<'a, T: ::pilota::thrift::TAsyncInputProtocol>(
            __protocol: &'a mut T,
        ) -> ::std::pin::Pin<::std::boxed::Box<dyn ::std::future::Future<Output = ::std::result::Result<Self, ::pilota::thrift::ThriftException>> + Send + 'a>> {
            ::std::boxed::Box::pin(async move {


            let mut var_127 = Some(-32768i16);let mut var_1153 = None;let mut var_128 = Some(300i16);let mut var_300 = Some(2147483647i32);

            let mut __pilota_decoding_field_id = None;

            __protocol.read_struct_begin().await?;
            if let ::std::result::Result::Err(mut err) = async {
                    loop {


                let field_ident = __protocol.read_field_begin().await?;
                if field_ident.field_type == ::pilota::thrift::TType::Stop {

                    break;
                } else {

                }
                __pilota_decoding_field_id = field_ident.id;
                match field_ident.id {
                    Some(127) if field_ident.field_type == ::pilota::thrift::TType::I16  => {
                    var_127 = Some(__protocol.read_i16().await?);

                },Some(1153) if field_ident.field_type == ::pilota::thrift::TType::I32  => {
                    var_1153 = Some(__protocol.read_i32().await?);

                },Some(128) if field_ident.field_type == ::pilota::thrift::TType::I16  => {
                    var_128 = Some(__protocol.read_i16().await?);

                },Some(300) if field_ident.field_type == ::pilota::thrift::TType::I32  => {
                    var_300 = Some(__protocol.read_i32().await?);

                },
                    _ => {
                        __protocol.skip(field_ident.field_type).await?;

                    },
                }

                __protocol.read_field_end().await?;


            };
                    ::std::result::Result::Ok::<_, ::pilota::thrift::ThriftException>(())
                }.await {
                if let Some(field_id) = __pilota_decoding_field_id {
                    err.prepend_msg(&format!("decode struct `Df26` field(#{}) failed, caused by: ", field_id));
                }
                return ::std::result::Result::Err(err);
            };
            __protocol.read_struct_end().await?;





            let data = Self {
                d1: var_127,plain: var_1153,d2: var_128,d3: var_300, _unknown_fields: ::pilota::LinkedBytes::new()
            };
            ::std::result::Result::Ok(data)

            })
        }

                fn size<T: ::pilota::thrift::TLengthProtocol>(&self, __protocol: &mut T) -> usize {
                    #[allow(unused_imports)]
                    use ::pilota::thrift::TLengthProtocolExt;
                    __protocol.struct_begin_len(&::pilota::thrift::TStructIdentifier {
                    name: "Df26",
                }) + self.d1.as_ref().map_or(0, |value| __protocol.i16_field_len(Some(127), *value)) +self.plain.as_ref().map_or(0, |value| __protocol.i32_field_len(Some(1153), *value)) +self.d2.as_ref().map_or(0, |value| __protocol.i16_field_len(Some(128), *value)) +self.d3.as_ref().map_or(0, |value| __protocol.i32_field_len(Some(300), *value)) +self._unknown_fields.size() + __protocol.field_stop_len() + __protocol.struct_end_len()
                }
            }
                                impl ::std::default::Default for Df2 {
                                    fn default() -> Self {
                                        Df2 {
                                            d1: Some(-32768i16),
plain: ::std::default::Default::default(),
d2: Some(300i16),
d3: Some(2147483647i32),
_unknown_fields: ::pilota::LinkedBytes::new()
                                        }
                                    }
                                }
                            #[derive(PartialOrd)]
#[derive(Hash, Eq, Ord)]
#[derive(Debug)]#[derive(Clone, PartialEq)]
                pub struct Df2 {

                        pub d1: ::std::option::Option<i16>,

                        pub plain: ::std::option::Option<i32>,

                        pub d2: ::std::option::Option<i16>,

                        pub d3: ::std::option::Option<i32>,pub _unknown_fields: ::pilota::LinkedBytes,
                }
            impl ::pilota::thrift::Message for Df2 {
                fn encode<T: ::pilota::thrift::TOutputProtocol>(
                    &self,
                    __protocol: &mut T,
                ) -> ::std::result::Result<(),::pilota::thrift::ThriftException> {
                    #[allow(unused_imports)]
                    use ::pilota::thrift::TOutputProtocolExt;
                    let struct_ident =::pilota::thrift::TStructIdentifier {
                    name: "Df2",
                };

                __protocol.write_struct_begin(&struct_ident)?;
                if let Some(value) = self.d1.as_ref() {
                        __protocol.write_i16_field(5, *value)?;
                    }if let Some(value) = self.plain.as_ref() {
                        __protocol.write_i32_field(1007, *value)?;
                    }if let Some(value) = self.d2.as_ref() {
                        __protocol.write_i16_field(20, *value)?;
                    }if let Some(value) = self.d3.as_ref() {
                        __protocol.write_i32_field(21, *value)?;
                    }for bytes in self._unknown_fields.list.iter() {
                                __protocol.write_bytes_without_len(bytes.clone());
                            }
                __protocol.write_field_stop()?;
                __protocol.write_struct_end()?;
                ::std::result::Result::Ok(())

                }

                fn decode<T: ::pilota::thrift::TInputProtocol>(
                    __protocol: &mut T,
                ) -> ::std::result::Result<Self,::pilota::thrift::ThriftException>  {
                    #[allow(unused_imports)]
                    use ::pilota::{thrift::TLengthProtocolExt, Buf};


            let mut var_5 = Some(-32768i16);let mut var_1007 = None;let mut var_20 = Some(300i16);let mut var_21 = Some(2147483647i32);let mut _unknown_fields = ::pilota::LinkedBytes::new();

            let mut __pilota_decoding_field_id = None;

            __protocol.read_struct_begin()?;
            if let ::std::result::Result::Err(mut err) = (|| {
                    loop {

                let mut __pilota_offset = 0;
            let __pilota_begin_ptr = __protocol.buf().chunk().as_ptr();
                let field_ident = __protocol.read_field_begin()?;
                if field_ident.field_type == ::pilota::thrift::TType::Stop {
                    __pilota_offset += __protocol.field_stop_len();
                    break;
                } else {
                    __pilota_offset += __protocol.field_begin_len(field_ident.field_type, field_ident.id);
                }
                __pilota_decoding_field_id = field_ident.id;
                match field_ident.id {
                    Some(5) if field_ident.field_type == ::pilota::thrift::TType::I16  => {
                    var_5 = Some(__protocol.read_i16()?);

                },Some(1007) if field_ident.field_type == ::pilota::thrift::TType::I32  => {
                    var_1007 = Some(__protocol.read_i32()?);

                },Some(20) if field_ident.field_type == ::pilota::thrift::TType::I16  => {
                    var_20 = Some(__protocol.read_i16()?);

                },Some(21) if field_ident.field_type == ::pilota::thrift::TType::I32  => {
                    var_21 = Some(__protocol.read_i32()?);

                },
                    _ => {
                        __pilota_offset += __protocol.skip(field_ident.field_type)?;
                        _unknown_fields.push_back(__protocol.get_bytes(Some(__pilota_begin_ptr), __pilota_offset)?);
                    },
                }

                __protocol.read_field_end()?;
                __pilota_offset += __protocol.field_end_len();

            };
                    ::std::result::Result::Ok::<_, ::pilota::thrift::ThriftException>(())
                })() {
                if let Some(field_id) = __pilota_decoding_field_id {
                    err.prepend_msg(&format!("decode struct `Df2` field(#{}) failed, caused by: ", field_id));
                }
                return ::std::result::Result::Err(err);
            };
            __protocol.read_struct_end()?;





            let data = Self {
                d1: var_5,plain: var_1007,d2: var_20,d3: var_21, _unknown_fields
            };
            ::std::result::Result::Ok(data)

                }

                fn decode_async<'a, T: ::pilota::thrift::TAsyncInputProtocol>(
            __protocol: &'a mut T,
        ) -> ::std::pin::Pin<::std::boxed::Box<dyn ::std::future::Future<Output = ::std::result::Result<Self, ::pilota::thrift::ThriftException>> + Send + 'a>> {
            ::std::boxed::Box::pin(async move {


            let mut var_5 = Some(-32768i16);let mut var_1007 = None;let mut var_20 = Some(300i16);let mut var_21 = Some(2147483647i32);

            let mut __pilota_decoding_field_id = None;

            __protocol.read_struct_begin().await?;
            if let ::std::result::Result::Err(mut err) = async {
                    loop {


                let field_ident = __protocol.read_field_begin().await?;
                if field_ident.field_type == ::pilota::thrift::TType::Stop {

                    break;
                } else {

                }
                __pilota_decoding_field_id = field_ident.id;
                match field_ident.id {
                    Some(5) if field_ident.field_type == ::pilota::thrift::TType::I16  => {
                    var_5 = Some(__protocol.read_i16().await?);

                },Some(1007) if field_ident.field_type == ::pilota::thrift::TType::I32  => {
                    var_1007 = Some(__protocol.read_i32().await?);

                },Some(20) if field_ident.field_type == ::pilota::thrift::TType::I16  => {
                    var_20 = Some(__protocol.read_i16().await?);

                },Some(21) if field_ident.field_type == ::pilota::thrift::TType::I32  => {
                    var_21 = Some(__protocol.read_i32().await?);

                },
                    _ => {
                        __protocol.skip(field_ident.field_type).await?;

                    },
                }

                __protocol.read_field_end().await?;


            };
                    ::std::result::Result::Ok::<_, ::pilota::thrift::ThriftException>(())
                }.await {
                if let Some(field_id) = __pilota_decoding_field_id {
                    err.prepend_msg(&format!("decode struct `Df2` field(#{}) failed, caused by: ", field_id));
                }
                return ::std::result::Result::Err(err);
            };
            __protocol.read_struct_end().await?;





            let data = Self {
                d1: var_5,plain: var_1007,d2: var_20,d3: var_21, _unknown_fields: ::pilota::LinkedBytes::new()
            };
            ::std::result::Result::Ok(data)

            })
        }

                fn size<T: ::pilota::thrift::TLengthProtocol>(&self, __protocol: &mut T) -> usize {
                    #[allow(unused_imports)]
                    use ::pilota::thrift::TLengthProtocolExt;
                    __protocol.struct_begin_len(&::pilota::thrift::TStructIdentifier {
                    name: "Df2",
                }) + self.d1.as_ref().map_or(0, |value| __protocol.i16_field_len(Some(5), *value)) +self.plain.as_ref().map_or(0, |value| __protocol.i32_field_len(Some(1007), *value)) +self.d2.as_ref().map_or(0, |value| __protocol.i16_field_len(Some(20), *value)) +self.d3.as_ref().map_or(0, |value| __protocol.i32_field_len(Some(21), *value)) +self._unknown_fields.size() + __protocol.field_stop_len() + __protocol.struct_end_len()
                }
            }
                                impl ::std::default::Default for Df57 {
                                    fn default() -> Self {
                                        Df57 {
                                            d1: ::pilota::Bytes::from_static("".as_bytes()),
plain: ::std::default::Default::default(),
d2: E1::B,
d3: E1::C,
_unknown_fields: ::pilota::LinkedBytes::new()
                                        }
                                    }
                                }
                            #[derive(PartialOrd)]
#[derive(Hash, Eq, Ord)]
#[derive(Debug)]#[derive(Clone, PartialEq)]
                pub struct Df57 {

                        pub d1: ::pilota::Bytes,

                        pub plain: ::std::option::Option<i32>,

                        pub d2: E1,

                        pub d3: E1,pub _unknown_fields: ::pilota::LinkedBytes,
                }
            impl ::pilota::thrift::Message for Df57 {
                fn encode<T: ::pilota::thrift::TOutputProtocol>(
                    &self,
                    __protocol: &mut T,
                ) -> ::std::result::Result<(),::pilota::thrift::ThriftException> {
                    #[allow(unused_imports)]
                    use ::pilota::thrift::TOutputProtocolExt;
                    let struct_ident =::pilota::thrift::TStructIdentifier {
                    name: "Df57",
                };

                __protocol.write_struct_begin(&struct_ident)?;
                __protocol.write_bytes_field(3, (&self.d1).clone())?;if let Some(value) = self.plain.as_ref() {
                        __protocol.write_i32_field(1060, *value)?;
                    }__protocol.write_i32_field(4, (&self.d2).inner())?;__protocol.write_i32_field(17, (&self.d3).inner())?;for bytes in self._unknown_fields.list.iter() {
                                __protocol.write_bytes_without_len(bytes.clone());
                            }
                __protocol.write_field_stop()?;
                __protocol.write_struct_end()?;
                ::std::result::Result::Ok(())

                }

                fn decode<T: ::pilota::thrift::TInputProtocol>(
                    __protocol: &mut T,
                ) -> ::std::result::Result<Self,::pilota::thrift::ThriftException>  {
                    #[allow(unused_imports)]
                    use ::pilota::{thrift::TLengthProtocolExt, Buf};


            let mut var_3 = ::pilota::Bytes::from_static("".as_bytes());let mut var_1060 = None;let mut var_4 = E1::B;let mut var_17 = E1::C;let mut _unknown_fields = ::pilota::LinkedBytes::new();

            let mut __pilota_decoding_field_id = None;

            __protocol.read_struct_begin()?;
            if let ::std::result::Result::Err(mut err) = (|| {
                    loop {

                let mut __pilota_offset = 0;
            let __pilota_begin_ptr = __protocol.buf().chunk().as_ptr();
                let field_ident = __protocol.read_field_begin()?;
                if field_ident.field_type == ::pilota::thrift::TType::Stop {
                    __pilota_offset += __protocol.field_stop_len();
                    break;
                } else {
                    __pilota_offset += __protocol.field_begin_len(field_ident.field_type, field_ident.id);
                }
                __pilota_decoding_field_id = field_ident.id;
                match field_ident.id {
                    Some(3) if field_ident.field_type == ::pilota::thrift::TType::Binary  => {
                    var_3 = __protocol.read_bytes()?;

                },Some(1060) if field_ident.field_type == ::pilota::thrift::TType::I32  => {
                    var_1060 = Some(__protocol.read_i32()?);

                },Some(4) if field_ident.field_type == ::pilota::thrift::TType::I32  => {
                    var_4 = ::pilota::thrift::Message::decode(__protocol)?;

                },Some(17) if field_ident.field_type == ::pilota::thrift::TType::I32  => {
                    var_17 = ::pilota::thrift::Message::decode(__protocol)?;

                },
                    _ => {
                        __pilota_offset += __protocol.skip(field_ident.field_type)?;
                        _unknown_fields.push_back(__protocol.get_bytes(Some(__pilota_begin_ptr), __pilota_offset)?);
                    },
                }

                __protocol.read_field_end()?;
                __pilota_offset += __protocol.field_end_len();

            };
                    ::std::result::Result::Ok::<_, ::pilota::thrift::ThriftException>(())
                })() {
                if let Some(field_id) = __pilota_decoding_field_id {
                    err.prepend_msg(&format!("decode struct `Df57` field(#{}) failed, caused by: ", field_id));
                }
                return ::std::result::Result::Err(err);
            };
            __protocol.read_struct_end()?;





            let data = Self {
                d1: var_3,plain: var_1060,d2: var_4,d3: var_17, _unknown_fields
            };
            ::std::result::Result::Ok(data)

                }

                fn decode_async<'a, T: ::pilota::thrift::TAsyncInputProtocol>(
            __protocol: &'a mut T,
        ) -> ::std::pin::Pin<::std::boxed::Box<dyn ::std::future::Future<Output = ::std::result::Result<Self, ::pilota::thrift::ThriftException>> + Send + 'a>> {
            ::std::boxed::Box::pin(async move {


            let mut var_3 = ::pilota::Bytes::from_static("".as_bytes());let mut var_1060 = None;let mut var_4 = E1::B;let mut var_17 = E1::C;

            let mut __pilota_decoding_field_id = None;

            __protocol.read_struct_begin().await?;
            if let ::std::result::Result::Err(mut err) = async {
                    loop {


                let field_ident = __protocol.read_field_begin().await?;
                if field_ident.field_type == ::pilota::thrift::TType::Stop {

                    break;
                } else {

                }
                __pilota_decoding_field_id = field_ident.id;
                match field_ident.id {
                    Some(3) if field_ident.field_type == ::pilota::thrift::TType::Binary  => {
                    var_3 = __protocol.read_bytes().await?;

                },Some(1060) if field_ident.field_type == ::pilota::thrift::TType::I32  => {
                    var_1060 = Some(__protocol.read_i32().await?);

                },Some(4) if field_ident.field_type == ::pilota::thrift::TType::I32  => {
                    var_4 = <E1 as ::pilota::thrift::Message>::decode_async(__protocol).await?;

                },Some(17) if field_ident.field_type == ::pilota::thrift::TType::I32  => {
                    var_17 = <E1 as ::pilota::thrift::Message>::decode_async(__protocol).await?;

                },
                    _ => {
                        __protocol.skip(field_ident.field_type).await?;

                    },
                }

                __protocol.read_field_end().await?;


            };
                    ::std::result::Result::Ok::<_, ::pilota::thrift::ThriftException>(())
                }.await {
                if let Some(field_id) = __pilota_decoding_field_id {
                    err.prepend_msg(&format!("decode struct `Df57` field(#{}) failed, caused by: ", field_id));
                }
                return ::std::result::Result::Err(err);
            };
            __protocol.read_struct_end().await?;





            let data = Self {
                d1: var_3,plain: var_1060,d2: var_4,d3: var_17, _unknown_fields: ::pilota::LinkedBytes::new()
            };
            ::std::result::Result::Ok(data)

            })
        }

                fn size<T: ::pilota::thrift::TLengthProtocol>(&self, __protocol: &mut T) -> usize {
                    #[allow(unused_imports)]
                    use ::pilota::thrift::TLengthProtocolExt;
                    __protocol.struct_begin_len(&::pilota::thrift::TStructIdentifier {
                    name: "Df57",
                }) + __protocol.bytes_field_len(Some(3), &self.d1) +self.plain.as_ref().map_or(0, |value| __protocol.i32_field_len(Some(1060), *value)) +__protocol.i32_field_len(Some(4), (&self.d2).inner()) +__protocol.i32_field_len(Some(17), (&self.d3).inner()) +self._unknown_fields.size() + __protocol.field_stop_len() + __protocol.struct_end_len()
                }
            }
                    }

            }