//! Generic execution of generated types, monomorphised per type by the generated dispatch table.
//! Everything moves bytes: the specification supplies the input bytes and judges the output bytes.
use std::panic::{catch_unwind, AssertUnwindSafe};

use bytes::{BufMut, Bytes, BytesMut};
use pilota::thrift::{binary, binary_le, binary_unsafe, compact, Message, TLengthProtocol};
use serde_json::{json, Value};
use vh::aio::{block_on, Sched, ScriptedReader};
use vh::protos::{flatten_linked, panic_msg};

pub struct Ops {
    pub exec: fn(&Value) -> Value,
    pub default: Option<fn(&Value) -> Value>,
}

fn bytes_of(v: &Value) -> Vec<u8> {
    vh::tree::json_bytes(v)
}

fn enc<T: Message>(x: &T, proto: &str) -> Result<(Vec<u8>, usize, bool), String> {
    let e = |e| format!("err: {e}");
    match proto {
        "bin" => {
            let mut b = BytesMut::new();
            let mut p = binary::TBinaryProtocol::new(&mut b, false);
            let n = x.size(&mut p);
            x.encode(&mut p).map_err(e)?;
            Ok((b.to_vec(), n, true))
        }
        "binle" => {
            let mut b = BytesMut::new();
            let mut p = binary_le::TBinaryProtocol::new(&mut b, false);
            let n = x.size(&mut p);
            x.encode(&mut p).map_err(e)?;
            Ok((b.to_vec(), n, true))
        }
        "compact" => {
            let mut b = BytesMut::new();
            let mut p = compact::TCompactOutputProtocol::new(&mut b, false);
            let n = x.size(&mut p);
            x.encode(&mut p).map_err(e)?;
            Ok((b.to_vec(), n, true))
        }
        "binzc" => {
            let mut b = linkedbytes::LinkedBytes::new();
            let mut p = binary::TBinaryProtocol::new(&mut b, true);
            let n = x.size(&mut p);
            x.encode(&mut p).map_err(e)?;
            Ok((flatten_linked(&b), n, true))
        }
        "unsafe" => {
            // the idiom of the in-tree users: size with TBinaryProtocol<()>, exact capacity
            let n = x.size(&mut binary::TBinaryProtocol::new((), false));
            const GUARD: usize = 64;
            let mut lb = linkedbytes::LinkedBytes::with_capacity(n + GUARD);
            let cap = lb.bytes_mut().capacity();
            unsafe { std::ptr::write_bytes(lb.bytes_mut().as_mut_ptr(), 0xA5, cap) };
            let buf = unsafe {
                let l = lb.bytes_mut().len();
                std::slice::from_raw_parts_mut(lb.bytes_mut().as_mut_ptr().add(l), lb.bytes_mut().capacity() - l)
            };
            let idx;
            {
                let mut p = unsafe { binary_unsafe::TBinaryUnsafeOutputProtocol::new(&mut lb, buf, true) };
                x.encode(&mut p).map_err(e)?;
                idx = p.index();
            }
            let spare = lb.bytes_mut().capacity() - lb.bytes_mut().len();
            let mut guard_ok = idx <= spare;
            if guard_ok {
                unsafe { lb.bytes_mut().advance_mut(idx) };
                let l = lb.bytes_mut().len();
                let c = lb.bytes_mut().capacity();
                let tail = unsafe { std::slice::from_raw_parts(lb.bytes_mut().as_ptr().add(l), c - l) };
                guard_ok = tail.iter().all(|b| *b == 0xA5);
            }
            Ok((flatten_linked(&lb), n, guard_ok))
        }
        p => Err(format!("harness: proto {p}")),
    }
}

/// returns (value, bytes consumed)
fn dec<T: Message>(input: &[u8], proto: &str) -> Result<(T, usize), String> {
    let e = |e| format!("err: {e}");
    let mut b = Bytes::copy_from_slice(input);
    let total = b.len();
    match proto {
        "bin" | "binzc" => {
            let x = T::decode(&mut binary::TBinaryProtocol::new(&mut b, false)).map_err(e)?;
            Ok((x, total - b.len()))
        }
        "binle" => {
            let x = T::decode(&mut binary_le::TBinaryProtocol::new(&mut b, false)).map_err(e)?;
            Ok((x, total - b.len()))
        }
        "compact" => {
            let x = T::decode(&mut compact::TCompactInputProtocol::new(&mut b)).map_err(e)?;
            Ok((x, total - b.len()))
        }
        "unsafe" => {
            let mut p = unsafe { binary_unsafe::TBinaryUnsafeInputProtocol::new(&mut b) };
            let x = T::decode(&mut p).map_err(e)?;
            let i = p.index();
            drop(p);
            Ok((x, total - b.len() + i))
        }
        p => Err(format!("harness: proto {p}")),
    }
}

struct AsyncRes<T> {
    val: Result<T, String>,
    taken: usize,
    polls: Vec<(usize, Option<usize>)>,
}

fn dec_async<T: Message>(input: &[u8], proto: &str, sched: Vec<Sched>, chunk: usize, eof_at: Option<usize>) -> AsyncRes<T> {
    let mut rd = ScriptedReader::new(input.to_vec(), sched, chunk);
    if let Some(k) = eof_at {
        rd.eof_at = k.min(input.len());
    }
    let e = |e| format!("err: {e}");
    let val = match proto {
        "bin" => {
            let mut p = binary::TAsyncBinaryProtocol::new(&mut rd);
            block_on(Box::pin(T::decode_async(&mut p)), 20_000_000).map(|r| r.map_err(e)).unwrap_or(Err("hang".into()))
        }
        "binle" => {
            let mut p = binary_le::TAsyncBinaryProtocol::new(&mut rd);
            block_on(Box::pin(T::decode_async(&mut p)), 20_000_000).map(|r| r.map_err(e)).unwrap_or(Err("hang".into()))
        }
        "compact" => {
            let mut p = compact::TAsyncCompactProtocol::new(&mut rd);
            block_on(Box::pin(T::decode_async(&mut p)), 20_000_000).map(|r| r.map_err(e)).unwrap_or(Err("hang".into()))
        }
        p => Err(format!("harness: async proto {p}")),
    };
    AsyncRes { val, taken: rd.pos, polls: rd.log.iter().map(|l| (l.cap, l.got)).collect() }
}

fn sched_of(req: &Value, len: usize) -> (Vec<Sched>, usize) {
    match req["sched"].as_str().unwrap_or("whole") {
        "whole" => (vec![], 1 << 20),
        "bytewise" => (vec![], 1),
        "pending" => ((0..len * 2 + 2).map(|i| if i % 2 == 0 { Sched::Pending } else { Sched::Deliver(1) }).collect(), 1),
        s => {
            // "rnd:<seed>": xorshift-driven chunk sizes and pendings
            let mut x: u64 = s.trim_start_matches("rnd:").parse().unwrap_or(1) | 1;
            let mut v = vec![];
            for _ in 0..len * 2 + 4 {
                x ^= x << 13;
                x ^= x >> 7;
                x ^= x << 17;
                v.push(if x % 4 == 0 { Sched::Pending } else { Sched::Deliver((x % 7 + 1) as usize) });
            }
            (v, 3)
        }
    }
}

/// decode() through a `TracedR` around the real reader
fn trace_dec<T: Message>(input: &[u8], proto: &str) -> Value {
    use vh::traced::TracedR;
    let mut b = Bytes::copy_from_slice(input);
    macro_rules! go {
        ($mk:expr) => {{
            let mut tr = TracedR::new($mk);
            let s0 = tr.start();
            let r = catch_unwind(AssertUnwindSafe(|| T::decode(&mut tr)));
            let used = tr.used(s0);
            let err = match r {
                Ok(Ok(_)) => String::new(),
                Ok(Err(e)) => format!("err: {e}"),
                Err(e) => panic_msg(e),
            };
            json!({"events": tr.log, "used": used, "err": err, "unmodelled": tr.unmodelled})
        }};
    }
    match proto {
        "bin" => go!(binary::TBinaryProtocol::new(&mut b, false)),
        "binle" => go!(binary_le::TBinaryProtocol::new(&mut b, false)),
        "unsafe" => go!(unsafe { binary_unsafe::TBinaryUnsafeInputProtocol::new(&mut b) }),
        _ => go!(compact::TCompactInputProtocol::new(&mut b)),
    }
}

/// decode_async() through a `TracedAR` around the real asynchronous protocol over a scripted stream (chunks of 1..7 bytes
/// with Pendings in between, seeded)
fn trace_dec_async<T: Message>(input: &[u8], proto: &str, seed: u64) -> Value {
    use std::sync::atomic::AtomicUsize;
    use std::sync::Arc;
    use vh::traced::TracedAR;
    let mut x: u64 = seed | 1;
    let mut sched = vec![];
    for _ in 0..input.len() * 2 + 4 {
        x ^= x << 13;
        x ^= x >> 7;
        x ^= x << 17;
        sched.push(if x % 4 == 0 { Sched::Pending } else { Sched::Deliver((x % 7 + 1) as usize) });
    }
    let mut rd = ScriptedReader::new(input.to_vec(), sched, 3);
    let shared = Arc::new(AtomicUsize::new(0));
    rd.shared_pos = Some(shared.clone());
    macro_rules! go {
        ($mk:expr) => {{
            let mut tr = TracedAR::new($mk, shared.clone());
            let r = catch_unwind(AssertUnwindSafe(|| block_on(Box::pin(T::decode_async(&mut tr)), 20_000_000)));
            let err = match r {
                Ok(Some(Ok(_))) => String::new(),
                Ok(Some(Err(e))) => format!("err: {e}"),
                Ok(None) => "hang".to_string(),
                Err(e) => panic_msg(e),
            };
            (tr.log, err, tr.unmodelled)
        }};
    }
    let (log, err, unm) = match proto {
        "bin" => go!(binary::TAsyncBinaryProtocol::new(&mut rd)),
        "binle" => go!(binary_le::TAsyncBinaryProtocol::new(&mut rd)),
        _ => go!(compact::TAsyncCompactProtocol::new(&mut rd)),
    };
    json!({"events": log, "used": rd.pos, "err": err, "unmodelled": unm})
}

/// size() then encode() of x through a `TracedW` around the real protocol writing into a BytesMut
fn trace_enc<T: Message>(x: &T, proto: &str) -> Value {
    use vh::traced::TracedW;
    macro_rules! go {
        ($mk:expr) => {{
            let mut tw = TracedW::new($mk);
            let n = x.size(&mut tw);
            let r = x.encode(&mut tw);
            json!({"events": tw.log, "size": n, "err": r.err().map(|e| format!("{e}")).unwrap_or_default(), "unmodelled": tw.unmodelled})
        }};
    }
    match proto {
        "bin" => {
            let mut b = BytesMut::new();
            go!(binary::TBinaryProtocol::new(&mut b, false))
        }
        "binle" => {
            let mut b = BytesMut::new();
            go!(binary_le::TBinaryProtocol::new(&mut b, false))
        }
        "unsafe" => {
            // the documented idiom: exact size from TBinaryProtocol<()>, then the unchecked writer over that buffer
            let size = x.size(&mut binary::TBinaryProtocol::new((), false));
            let mut b = BytesMut::with_capacity(size + 16);
            b.resize(size + 16, 0xA5);
            let sl = unsafe { std::slice::from_raw_parts_mut(b.as_mut_ptr(), size) };
            let v = go!(unsafe { binary_unsafe::TBinaryUnsafeOutputProtocol::new(&mut b, sl, false) });
            let guard = b[size..].iter().all(|x| *x == 0xA5);
            let mut v = v;
            v["guard_ok"] = json!(guard);
            v
        }
        _ => {
            let mut b = BytesMut::new();
            go!(compact::TCompactOutputProtocol::new(&mut b, false))
        }
    }
}

/// op "roundtrip": decode `input` -> x; size(x); out = encode(x); decode(out) == x.
/// op "decode": outcome only (used for hostile input).
pub fn exec<T: Message + PartialEq + std::fmt::Debug>(req: &Value) -> Value {
    let proto = req["proto"].as_str().unwrap_or("bin").to_string();
    let mode = req["mode"].as_str().unwrap_or("sync").to_string();
    let op = req["op"].as_str().unwrap_or("roundtrip").to_string();
    let input = bytes_of(&req["input"]);
    let r = catch_unwind(AssertUnwindSafe(|| -> Value {
        if op == "trace_decode" {
            // the call sequence of the EMITTED decode() on a real reader, one event per call, for each protocol's input
            let mut traces = serde_json::Map::new();
            for tp in ["bin", "binle", "compact", "unsafe"] {
                if req["inputs"][tp].is_array() {
                    traces.insert(tp.to_string(), trace_dec::<T>(&bytes_of(&req["inputs"][tp]), tp));
                }
            }
            if req["with_async"].as_bool().unwrap_or(false) {
                for tp in ["bin", "binle", "compact"] {
                    if req["inputs"][tp].is_array() {
                        let seed = req["id"].as_u64().unwrap_or(1) * 2654435761 + tp.len() as u64;
                        traces.insert(format!("a{tp}"), trace_dec_async::<T>(&bytes_of(&req["inputs"][tp]), tp, seed));
                    }
                }
            }
            return json!({"ok": true, "traces": traces});
        }
        let (x, used, polls): (T, usize, Option<Vec<(usize, Option<usize>)>>) = if mode == "async" {
            let (sched, chunk) = sched_of(req, input.len());
            let eof = req["eof_at"].as_u64().map(|k| k as usize);
            let a = dec_async::<T>(&input, &proto, sched, chunk, eof);
            match a.val {
                Ok(x) => (x, a.taken, Some(a.polls)),
                Err(e) => return json!({"ok": false, "err": e, "taken": a.taken}),
            }
        } else {
            match dec::<T>(&input, &proto) {
                Ok((x, n)) => (x, n, None),
                Err(e) => return json!({"ok": false, "err": e}),
            }
        };
        if op == "decode" {
            return json!({"ok": true, "used": used});
        }
        if op == "trace_encode" {
            // the call sequence of the EMITTED size() and encode() on a real protocol object, one event per call
            let mut traces = serde_json::Map::new();
            for tp in ["bin", "binle", "compact", "unsafe"] {
                traces.insert(tp.to_string(), json!(trace_enc(&x, tp)));
            }
            return json!({"ok": true, "used": used, "traces": traces});
        }
        let out_proto = req["out_proto"].as_str().unwrap_or(&proto).to_string();
        let (out, size, guard_ok) = match enc(&x, &out_proto) {
            Ok(t) => t,
            Err(e) => return json!({"ok": false, "err": format!("encode: {e}"), "used": used}),
        };
        // decode(encode(x)) == x, observed on its own so that a failure here is not mistaken for one of the first decode
        let again = catch_unwind(AssertUnwindSafe(|| match dec::<T>(&out, if out_proto == "binzc" { "bin" } else { &out_proto }) {
            Ok((y, n)) => y == x && n == out.len(),
            Err(_) => false,
        }))
        .unwrap_or(false);
        let mut resp = json!({"ok": true, "used": used, "out": out, "size": size, "guard_ok": guard_ok, "redecode_eq": again});
        if let Some(p) = polls {
            if req["log_polls"].as_bool().unwrap_or(false) {
                resp["polls"] = json!(p.iter().map(|(c, g)| json!([c, match g { None => -1i64, Some(n) => *n as i64 }])).collect::<Vec<_>>());
            }
        }
        resp
    }));
    match r {
        Ok(v) => v,
        Err(e) => json!({"ok": false, "err": panic_msg(e), "panic": true}),
    }
}

/// encode(T::default()) under the requested protocol
pub fn exec_default<T: Message + Default>(req: &Value) -> Value {
    let proto = req["proto"].as_str().unwrap_or("bin").to_string();
    let r = catch_unwind(AssertUnwindSafe(|| -> Value {
        let x = T::default();
        match enc(&x, &proto) {
            Ok((out, size, _)) => json!({"ok": true, "out": out, "size": size}),
            Err(e) => json!({"ok": false, "err": e}),
        }
    }));
    match r {
        Ok(v) => v,
        Err(e) => json!({"ok": false, "err": panic_msg(e), "panic": true}),
    }
}

pub fn ops<T: Message + PartialEq + std::fmt::Debug>() -> Ops {
    Ops { exec: exec::<T>, default: None }
}
pub fn ops_d<T: Message + PartialEq + std::fmt::Debug + Default>() -> Ops {
    Ops { exec: exec::<T>, default: Some(exec_default::<T>) }
}

#[allow(dead_code)]
fn _unused(_: &dyn TLengthProtocol) {}


/// Runtime (hand-written) decoders under the same worker isolation: the generic value reader over the
/// primitive API, and TApplicationException.  ty = "@rt" (field "t" = wire type) or "@appexc".
pub fn exec_rt(req: &Value) -> Value {
    use vh::protos::{decode_async, decode_seq, Proto};
    let proto = req["proto"].as_str().unwrap_or("bin").to_string();
    let mode = req["mode"].as_str().unwrap_or("sync").to_string();
    let input = bytes_of(&req["input"]);
    let r = catch_unwind(AssertUnwindSafe(|| -> Value {
        if req["ty"].as_str() == Some("@appexc") {
            use pilota::thrift::ApplicationException;
            return if mode == "async" {
                let (sched, chunk) = sched_of(req, input.len());
                let a = dec_async::<ApplicationException>(&input, &proto, sched, chunk, req["eof_at"].as_u64().map(|k| k as usize));
                match a.val {
                    Ok(_) => json!({"ok": true, "used": a.taken}),
                    Err(e) => json!({"ok": false, "err": e}),
                }
            } else {
                match dec::<ApplicationException>(&input, &proto) {
                    Ok((_, n)) => json!({"ok": true, "used": n}),
                    Err(e) => json!({"ok": false, "err": e}),
                }
            };
        }
        let t = req["t"].as_u64().unwrap_or(12) as u8;
        let p = Proto::parse(&proto);
        if req["op"].as_str() == Some("skip") {
            // the protocol's own skipper on one value of wire type t
            return if mode == "async" {
                let (sched, chunk) = sched_of(req, input.len());
                let a = decode_async(p, &input, &[t], sched, chunk, None, true);
                match a.err {
                    None => json!({"ok": true, "used": a.taken}),
                    Some(e) => json!({"ok": false, "err": e, "panic": e.starts_with("panic"), "hang": e.starts_with("hang")}),
                }
            } else {
                match vh::protos::skip_one(p, &input, t) {
                    Ok((n, used)) => json!({"ok": true, "used": used, "reported": n}),
                    Err(e) => json!({"ok": false, "panic": e.starts_with("panic"), "err": e}),
                }
            };
        }
        if mode == "async" {
            let (sched, chunk) = sched_of(req, input.len());
            let a = decode_async(p, &input, &[t], sched, chunk, req["eof_at"].as_u64().map(|k| k as usize), false);
            match a.err {
                None => json!({"ok": true, "used": a.taken}),
                Some(e) => json!({"ok": false, "err": e, "panic": e.starts_with("panic"), "hang": e.starts_with("hang")}),
            }
        } else {
            let d = decode_seq(p, &input, &[t], false);
            match d.err {
                None => json!({"ok": true, "used": d.ends[0]}),
                Some(e) => json!({"ok": false, "panic": e.starts_with("panic"), "err": e}),
            }
        }
    }));
    match r {
        Ok(v) => v,
        Err(e) => json!({"ok": false, "err": panic_msg(e), "panic": true}),
    }
}
