//! protobuf side of the generated-type runtime: decode / encode / encoded_len / merge / length-delimited
//! framing of generated messages. Everything moves bytes; the specification judges them.
use std::panic::{catch_unwind, AssertUnwindSafe};

use pilota::prost::Message;
use serde_json::{json, Value};
use vh::protos::panic_msg;

use crate::rt::Ops;

fn bytes_of(v: &Value) -> Vec<u8> {
    vh::tree::json_bytes(v)
}

/// op "roundtrip": x = decode(input); out = encode(x); len = encoded_len(x); decode(out) == x
/// op "merge":     x = decode(a); x.merge(b); out = encode(x)
/// op "decode":    outcome only
/// op "ld":        decode_length_delimited(input)
pub fn exec<T: Message + Default + PartialEq + std::fmt::Debug>(req: &Value) -> Value {
    let op = req["op"].as_str().unwrap_or("roundtrip").to_string();
    let r = catch_unwind(AssertUnwindSafe(|| -> Value {
        if op == "budget" {
            // the recursion-budget events (hook verif_budget) of decoding `input`
            let input = bytes_of(&req["input"]);
            pilota::prost::encoding::verif_budget::start();
            let r = T::decode(&input[..]);
            let ev: Vec<Value> = pilota::prost::encoding::verif_budget::take()
                .into_iter()
                .map(|(chk, c)| json!([if chk { "chk" } else { "ent" }, c]))
                .collect();
            return json!({"ok": true, "decoded": r.is_ok(), "ev": ev, "err": r.err().map(|e| format!("{e}")).unwrap_or_default()});
        }
        let x: T = match op.as_str() {
            "merge" => {
                let a = bytes_of(&req["a"]);
                let b = bytes_of(&req["b"]);
                let mut x = match T::decode(&a[..]) {
                    Ok(x) => x,
                    Err(e) => return json!({"ok": false, "err": format!("err: {e}")}),
                };
                if let Err(e) = x.merge(&b[..]) {
                    return json!({"ok": false, "err": format!("err: {e}")});
                }
                x
            }
            "ld" => {
                let input = bytes_of(&req["input"]);
                match T::decode_length_delimited(&input[..]) {
                    Ok(x) => x,
                    Err(e) => return json!({"ok": false, "err": format!("err: {e}")}),
                }
            }
            _ => {
                let input = bytes_of(&req["input"]);
                match T::decode(&input[..]) {
                    Ok(x) => x,
                    Err(e) => return json!({"ok": false, "err": format!("err: {e}")}),
                }
            }
        };
        if op == "decode" {
            return json!({"ok": true});
        }
        let len = x.encoded_len();
        let out = x.encode_to_vec();
        let mut buf = Vec::new();
        let ld_ok = x.encode_length_delimited(&mut buf).is_ok() && buf.ends_with(&out);
        let again = match T::decode(&out[..]) {
            Ok(y) => y == x,
            Err(_) => false,
        };
        let dbg = if req["want_debug"].as_bool().unwrap_or(false) { format!("{:?}", x) } else { String::new() };
        json!({"ok": true, "out": out, "size": len, "redecode_eq": again, "ld_ok": ld_ok, "dbg": dbg})
    }));
    match r {
        Ok(v) => v,
        Err(e) => json!({"ok": false, "err": panic_msg(e), "panic": true}),
    }
}
pub fn ops<T: Message + Default + PartialEq + std::fmt::Debug>() -> Ops {
    Ops { exec: exec::<T>, default: None }
}
