//! protobuf side of the generated-type runtime (filled in with the protobuf checks)
use serde_json::{json, Value};

use crate::rt::Ops;

pub fn exec<T: pilota::prost::Message + Default + PartialEq + std::fmt::Debug>(_req: &Value) -> Value {
    json!({"ok": false, "err": "harness: protobuf ops not built yet", "tool_error": true})
}
pub fn ops<T: pilota::prost::Message + Default + PartialEq + std::fmt::Debug>() -> Ops {
    Ops { exec: exec::<T>, default: None }
}
