pub mod gen;
pub mod interp;
pub mod protos;
pub mod tree;

/// Silence the default panic printer: panics of the code under test are data.
pub fn quiet_panics() {
    std::panic::set_hook(Box::new(|_| {}));
}
