pub mod aio;
pub mod gen;
pub mod idl;
pub mod interp;
pub mod protos;
pub mod traced;
pub mod tree;

/// Silence the default panic printer: panics of the code under test are data.
pub fn quiet_panics() {
    std::panic::set_hook(Box::new(|_| {}));
}

/// serde_json with the recursion limit lifted (value trees nest deeper than 128 JSON levels).
pub fn parse_json(s: &str) -> serde_json::Value {
    use serde::Deserialize;
    let mut de = serde_json::Deserializer::from_str(s);
    de.disable_recursion_limit();
    serde_json::Value::deserialize(&mut de).unwrap_or_else(|e| panic!("harness: bad json: {e}"))
}
