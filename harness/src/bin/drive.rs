//! drive: runs TLC-generated vectors / behaviours against pilota's Thrift runtime and reports
//! every disagreement as one NDJSON line. Comparison is plain equality with what the TLA+
//! specification computed; no expected value is computed here.
use std::io::{BufRead, BufReader, Write};

use serde_json::{json, Value};
use vh::protos::*;
use vh::tree::{json_bytes, Tree};

struct Vector {
    id: u64,
    t: u8,
    need: u64,
    v: Tree,
    bin: Vec<u8>,
    binle: Vec<u8>,
    bint: Vec<u8>,
    cs: Vec<u8>,
    cl: Vec<u8>,
    cp: Vec<u8>,
}

fn load(path: &str) -> Vec<Vector> {
    let f = std::fs::File::open(path).unwrap_or_else(|e| panic!("open {path}: {e}"));
    BufReader::new(f)
        .lines()
        .map(|l| {
            let j: Value = vh::parse_json(&l.unwrap());
            Vector {
                id: j["id"].as_u64().unwrap(),
                t: j["t"].as_u64().unwrap() as u8,
                need: j["need"].as_u64().unwrap_or(1),
                v: Tree::from_json(&j["v"]),
                bin: json_bytes(&j["bin"]),
                binle: json_bytes(&j["binle"]),
                bint: json_bytes(&j["bint"]),
                cs: json_bytes(&j["cs"]),
                cl: json_bytes(&j["cl"]),
                cp: json_bytes(&j["cp"]),
            }
        })
        .collect()
}

struct Report {
    out: Box<dyn Write>,
    evals: u64,
    mism: u64,
}
impl Report {
    fn ok(&mut self) {
        self.evals += 1;
    }
    fn bad(&mut self, vec: u64, proto: &str, buf: &str, check: &str, detail: Value) {
        self.evals += 1;
        self.mism += 1;
        writeln!(self.out, "{}", json!({"kind":"mismatch","vec":vec,"proto":proto,"buf":buf,"check":check,"detail":detail})).unwrap();
    }
    fn cmp(&mut self, cond: bool, vec: u64, proto: &str, buf: &str, check: &str, detail: impl FnOnce() -> Value) {
        if cond {
            self.ok()
        } else {
            self.bad(vec, proto, buf, check, detail())
        }
    }
}

fn short(b: &[u8]) -> Value {
    if b.len() <= 48 {
        json!(b)
    } else {
        json!({"len": b.len(), "head": &b[..24]})
    }
}

fn fresh_w(st: &Value) -> bool {
    st.is_null() || st.as_array().map_or(false, |a| a.is_empty()) || st.get("index").is_some() || (st["last"] == json!(0) && st["stack"] == json!([]) && st["pend"] == json!([]))
}
fn fresh_r(st: &Value) -> bool {
    st.is_null()
        || st.as_array().map_or(false, |a| a.is_empty())
        || st.get("index").is_some()
        || (st["last"] == json!(0) && st["stack"] == json!([]) && st["pv"] == json!([]) && st["pid"] == json!([]))
}

fn expected<'a>(v: &'a Vector, p: Proto) -> Vec<&'a [u8]> {
    match p {
        Proto::Bin | Proto::Unsafe => vec![&v.bin],
        Proto::BinLe => vec![&v.binle],
        Proto::Compact => {
            let mut a: Vec<&[u8]> = vec![&v.cs];
            if !v.cl.is_empty() {
                a.push(&v.cl)
            }
            if !v.cp.is_empty() {
                a.push(&v.cp)
            }
            a
        }
    }
}
/// every spec-legal encoding of the vector for protocol p (inputs for the readers)
fn inputs<'a>(v: &'a Vector, p: Proto) -> Vec<(&'static str, &'a [u8])> {
    match p {
        Proto::Bin | Proto::Unsafe => {
            let mut a: Vec<(&'static str, &[u8])> = vec![("canon", &v.bin)];
            if !v.bint.is_empty() {
                a.push(("true=255", &v.bint))
            }
            a
        }
        Proto::BinLe => vec![("canon", &v.binle)],
        Proto::Compact => {
            let mut a: Vec<(&'static str, &[u8])> = vec![("short", &v.cs)];
            if !v.cl.is_empty() {
                a.push(("long", &v.cl))
            }
            if !v.cp.is_empty() {
                a.push(("p15", &v.cp))
            }
            a
        }
    }
}

/// MAXIMUM_SKIP_DEPTH: the documented limit of the recursive skippers
const SKIP_BUDGET: u64 = 64;
const TRAILER: [u8; 5] = [0x5a, 0xee, 0x77, 0x01, 0x02];

// Crash tolerance: the code under test may abort the process (an unsafe-precondition check, a stack overflow).  Every
// vector is announced with a `start` row and closed with a `done` row, both flushed; after a crash the caller records
// the vector in progress as a mismatch and restarts behind it (`start` > 0): the rows already written are read back
// to restore the counters and the list of vectors that were fine on their own.
static VSTAGE: std::sync::atomic::AtomicUsize = std::sync::atomic::AtomicUsize::new(0);
const VSTAGES: [&str; 5] = ["-", "enc", "dec", "adec", "skip"];
fn vstage(stage: usize, p: Proto) {
    VSTAGE.store(stage * 8 + Proto::ALL.iter().position(|q| *q == p).unwrap_or(7), std::sync::atomic::Ordering::SeqCst);
}

fn run_vectors(path: &str, out: &str, start: usize) {
    let vs = load(path);
    // a panic that cannot unwind aborts the process: say which stage of which protocol was running
    let prev = std::panic::take_hook();
    std::panic::set_hook(Box::new(move |info| {
        let s = VSTAGE.load(std::sync::atomic::Ordering::SeqCst);
        eprintln!("VSTAGE stage={} proto={}", VSTAGES[(s / 8).min(4)], Proto::ALL.get(s % 8).map_or("-", |p| p.name()));
        prev(info)
    }));
    let mut good: Vec<usize> = Vec::new();
    let mut zc_nodes = 0usize;
    let (mut evals0, mut mism0) = (0u64, 0u64);
    if start > 0 {
        for l in std::fs::read_to_string(out).unwrap().lines() {
            let Ok(j) = serde_json::from_str::<Value>(l) else { continue };
            match j["kind"].as_str() {
                Some("done") => {
                    evals0 += j["evals"].as_u64().unwrap();
                    zc_nodes += j["zc"].as_u64().unwrap() as usize;
                    if j["good"].as_bool().unwrap() {
                        good.push(j["vi"].as_u64().unwrap() as usize);
                    }
                }
                Some("mismatch") => mism0 += 1,
                _ => {}
            }
        }
    }
    let f = std::fs::OpenOptions::new().create(true).write(true).append(start > 0).truncate(start == 0).open(out).unwrap();
    let mut r = Report { out: Box::new(std::io::BufWriter::new(f)), evals: evals0, mism: mism0 };
    for (vi, v) in vs.iter().enumerate() {
        if vi < start {
            continue;
        }
        let before = r.mism;
        let (evals_before, zc_before) = (r.evals, zc_nodes);
        writeln!(r.out, "{}", json!({"kind":"start","vi":vi,"vec":v.id})).unwrap();
        r.out.flush().unwrap();
        for p in Proto::ALL {
            let exp = expected(v, p);
            vstage(1, p);
            // a value with a large payload goes through every API variant (zero-copy capable or not)
            let offsets: &[usize] = if v.bin.len() > 3000 { &[0, 1] } else { &[0] };
            for (k, off) in BufKind::ALL.iter().flat_map(|k| offsets.iter().map(move |o| (*k, *o))) {
                MODE_OFFSET.store(off, std::sync::atomic::Ordering::SeqCst);
                let e = encode_seq(p, k, std::slice::from_ref(&v.v), false, true);
                MODE_OFFSET.store(0, std::sync::atomic::Ordering::SeqCst);
                let (pn, kn) = (p.name(), k.name());
                if let Some(err) = &e.err {
                    r.bad(v.id, pn, kn, "enc-err", json!(err));
                    continue;
                }
                r.cmp(exp.iter().any(|x| **x == e.bytes[..]), v.id, pn, kn, "enc-bytes", || json!({"got": short(&e.bytes), "want": short(exp[0])}));
                r.cmp(e.lens[0] == e.bytes.len(), v.id, pn, kn, "len", || json!({"reported": e.lens[0], "written": e.bytes.len()}));
                r.cmp(fresh_w(&e.len_states[0]), v.id, pn, kn, "len-leaves-fresh", || e.len_states[0].clone());
                r.cmp(fresh_w(&e.write_states[0]), v.id, pn, kn, "write-leaves-fresh", || e.write_states[0].clone());
                r.cmp(e.guard_ok, v.id, pn, kn, "guard", || json!("bytes behind the exact-size buffer were modified or index > size"));
                zc_nodes += e.nodes;
                // the round trip itself: what THIS writer put on THIS buffer, read back by the matching reader
                let mut back = e.bytes.clone();
                back.extend_from_slice(&TRAILER);
                let d = decode_seq(p, &back, &[v.t, 3], false);
                let want = v.v.erase(p == Proto::Compact);
                match &d.err {
                    Some(err) => r.bad(v.id, pn, kn, "rt-dec-err", json!(err)),
                    None => r.cmp(d.values[0] == want && d.ends[0] == e.bytes.len() && d.values[1] == Tree::I8(0x5a), v.id, pn, kn, "rt-value",
                                  || json!({"got": d.values[0].to_json(), "consumed": d.ends[0], "written": e.bytes.len()})),
                }
            }
            let want = v.v.erase(p == Proto::Compact);
            for (form, enc) in inputs(v, p) {
                let mut input = enc.to_vec();
                input.extend_from_slice(&TRAILER);
                let pn = p.name();
                vstage(2, p);
                let d = decode_seq(p, &input, &[v.t, 3], false);
                if let Some(err) = &d.err {
                    r.bad(v.id, pn, form, "dec-err", json!(err));
                } else {
                    r.cmp(d.values[0] == want, v.id, pn, form, "dec-value", || json!({"got": d.values[0].to_json(), "want": want.to_json()}));
                    r.cmp(d.ends[0] == enc.len(), v.id, pn, form, "dec-consumed", || json!({"consumed": d.ends[0], "encoded": enc.len()}));
                    r.cmp(d.values[1] == Tree::I8(0x5a) && d.ends[1] == enc.len() + 1, v.id, pn, form, "dec-next", || json!({"next": d.values[1].to_json()}));
                    r.cmp(fresh_r(&d.states[0]), v.id, pn, form, "read-leaves-fresh", || d.states[0].clone());
                }
                // the same value as the LAST thing on the buffer (nothing behind it)
                let d = decode_seq(p, enc, &[v.t], false);
                match &d.err {
                    Some(err) => r.bad(v.id, pn, form, "dec-exact-err", json!(err)),
                    None => r.cmp(d.values[0] == want && d.ends[0] == enc.len(), v.id, pn, form, "dec-exact", || json!({"got": d.values[0].to_json(), "consumed": d.ends[0]})),
                }
                // asynchronous twin: whole stream at once, and one byte at a time with a spurious
                // Pending before every byte
                if p != Proto::Unsafe {
                    use vh::aio::Sched;
                    vstage(3, p);
                    let scheds: [(&str, Vec<Sched>, usize); 2] = [
                        ("whole", vec![], 1 << 20),
                        ("bytewise+pending", (0..input.len() * 2).map(|i| if i % 2 == 0 { Sched::Pending } else { Sched::Deliver(1) }).collect(), 1),
                    ];
                    for (sn, sched, chunk) in scheds {
                        let tag = format!("{form}/{sn}");
                        let a = decode_async(p, &input, &[v.t], sched.clone(), chunk, None, false);
                        if let Some(err) = &a.err {
                            r.bad(v.id, pn, &tag, "adec-err", json!(err));
                        } else {
                            r.cmp(a.values[0] == want, v.id, pn, &tag, "adec-value", || json!({"got": a.values[0].to_json(), "want": want.to_json()}));
                            r.cmp(a.taken == enc.len(), v.id, pn, &tag, "adec-taken", || json!({"taken": a.taken, "encoded": enc.len()}));
                        }
                        let a = decode_async(p, &input, &[v.t], sched, chunk, None, true);
                        if v.need > SKIP_BUDGET {
                            r.cmp(a.err.as_deref().map_or(false, |e| e.contains("DepthLimit")), v.id, pn, &tag, "askip-depth", || json!({"need": v.need, "err": a.err}));
                        } else if let Some(err) = &a.err {
                            r.bad(v.id, pn, &tag, "askip-err", json!(err));
                        } else {
                            r.cmp(a.taken == enc.len(), v.id, pn, &tag, "askip", || json!({"taken": a.taken, "encoded": enc.len()}));
                        }
                    }
                }
                // skip
                vstage(4, p);
                if p == Proto::Unsafe {
                    let mut f = vec![v.t, 0, 1];
                    f.extend_from_slice(&input);
                    match skip_field_unsafe(&f) {
                        // the iterative skipper keeps its pending containers on the heap and ignores the
                        // budget: beyond the limit a correct skip or DepthLimit are both fine, a crash never
                        Err(e) if v.need > SKIP_BUDGET && e.contains("DepthLimit") => r.ok(),
                        Ok((n, c)) => r.cmp(n == enc.len() && c == enc.len() + 3, v.id, pn, form, "skip", || json!({"reported": n, "consumed": c, "encoded": enc.len()})),
                        Err(e) => r.bad(v.id, pn, form, "skip-err", json!(e)),
                    }
                } else {
                    match skip_one(p, &input, v.t) {
                        Err(e) if v.need > SKIP_BUDGET => r.cmp(e.contains("DepthLimit"), v.id, pn, form, "skip-depth", || json!({"need": v.need, "err": e})),
                        Ok((n, c)) if v.need > SKIP_BUDGET => r.bad(v.id, pn, form, "skip-depth", json!({"need": v.need, "skipped": n, "consumed": c})),
                        Ok((n, c)) => r.cmp(n == enc.len() && c == enc.len(), v.id, pn, form, "skip", || json!({"reported": n, "consumed": c, "encoded": enc.len()})),
                        Err(e) => r.bad(v.id, pn, form, "skip-err", json!(e)),
                    }
                    if p == Proto::Compact && v.need <= SKIP_BUDGET {
                        match skip_state_compact(&input, v.t) {
                            None => r.ok(),
                            Some(d) => r.bad(v.id, pn, form, "skip-state", json!(d)),
                        }
                    }
                }
            }
        }
        if r.mism == before {
            good.push(vi);
        }
        writeln!(r.out, "{}", json!({"kind":"done","vi":vi,"good":r.mism == before,"evals":r.evals - evals_before,"zc":zc_nodes - zc_before})).unwrap();
        r.out.flush().unwrap();
    }
    writeln!(r.out, "{}", json!({"kind":"start","vi":"seq"})).unwrap();
    r.out.flush().unwrap();
    // back-to-back: every vector that is fine on its own, written by ONE writer onto ONE buffer and
    // read back by ONE reader instance
    let trees: Vec<Tree> = good.iter().map(|i| vs[*i].v.clone()).collect();
    let types: Vec<u8> = good.iter().map(|i| vs[*i].t).collect();
    for p in Proto::ALL {
        for k in BufKind::ALL {
            let (pn, kn) = (p.name(), k.name());
            let e = encode_seq(p, k, &trees, false, true);
            if let Some(err) = &e.err {
                r.bad(0, pn, kn, "seq-enc-err", json!(err));
                continue;
            }
            let mut pos = 0usize;
            for (n, gi) in good.iter().enumerate() {
                let v = &vs[*gi];
                let end = e.ends[n];
                let got = &e.bytes[pos.min(e.bytes.len())..end.min(e.bytes.len())];
                let exp = expected(v, p);
                r.cmp(exp.iter().any(|x| **x == *got), v.id, pn, kn, "seq-enc-bytes", || json!({"n": n, "got": short(got), "want": short(exp[0])}));
                r.cmp(e.lens[n] == end - pos, v.id, pn, kn, "seq-len", || json!({"n": n, "reported": e.lens[n], "written": end - pos}));
                r.cmp(fresh_w(&e.write_states[n]) && fresh_w(&e.len_states[n]), v.id, pn, kn, "seq-write-fresh", || json!({"n": n, "st": e.write_states[n]}));
                pos = end;
            }
            r.cmp(e.guard_ok, 0, pn, kn, "seq-guard", || json!("guard bytes modified"));
            if k == BufKind::LinkedZc {
                zc_nodes += e.nodes;
            }
            // read everything back from what was actually written
            let d = decode_seq(p, &e.bytes, &types, false);
            if let Some(err) = &d.err {
                r.bad(0, pn, kn, "seq-dec-err", json!({"err": err, "values_read": d.values.len()}));
            }
            for (n, gi) in good.iter().enumerate().take(d.values.len()) {
                let v = &vs[*gi];
                let want = v.v.erase(p == Proto::Compact);
                r.cmp(d.values[n] == want && d.ends[n] == e.ends[n], v.id, pn, kn, "seq-dec", || json!({"n": n, "got": d.values[n].to_json(), "end": d.ends[n], "want_end": e.ends[n]}));
                r.cmp(fresh_r(&d.states[n]), v.id, pn, kn, "seq-read-fresh", || json!({"n": n, "st": d.states[n]}));
            }
        }
    }
    writeln!(r.out, "{}", json!({"kind":"summary","vectors":vs.len(),"evaluations":r.evals,"mismatches":r.mism,"seq_len":good.len(),"zero_copy_nodes":zc_nodes})).unwrap();
    r.out.flush().unwrap();
}


// ------------------------------------------------------------------------------------------------
// walks: replay behaviours of the lock-step model ThriftProto on the real compact objects.
mod walks {
    use super::*;
    use bytes::{Bytes, BytesMut};
    use linkedbytes::LinkedBytes;
    use pilota::thrift::{compact::*, TInputProtocol, TLengthProtocol, TListIdentifier, TMapIdentifier, TOutputProtocol, TSetIdentifier, TStructIdentifier, TType};
    use vh::interp::{ttype, RProbe, WProbe};
    use vh::tree::from_limbs;

    static SID: TStructIdentifier = TStructIdentifier { name: "S" };

    fn leaf_w<P: TOutputProtocol>(p: &mut P, t: u8, v: &Value) -> Result<(), String> {
        let b = json_bytes(v);
        let r = match t {
            2 => p.write_bool(b[0] != 0),
            3 => p.write_i8(b[0] as i8),
            6 => p.write_i16(from_limbs(v) as u16 as i16),
            8 => p.write_i32(from_limbs(v) as u32 as i32),
            10 => p.write_i64(from_limbs(v) as i64),
            4 => {
                let mut a = [0u8; 8];
                a.copy_from_slice(&b);
                p.write_double(f64::from_bits(u64::from_be_bytes(a)))
            }
            11 => p.write_bytes(Bytes::from(b)),
            16 => {
                let mut a = [0u8; 16];
                a.copy_from_slice(&b);
                p.write_uuid(a)
            }
            _ => panic!("leaf type {t}"),
        };
        r.map_err(|e| format!("err: {e}"))
    }
    fn leaf_l<P: TLengthProtocol>(p: &mut P, t: u8, v: &Value) -> usize {
        let b = json_bytes(v);
        match t {
            2 => p.bool_len(b[0] != 0),
            3 => p.i8_len(b[0] as i8),
            6 => p.i16_len(from_limbs(v) as u16 as i16),
            8 => p.i32_len(from_limbs(v) as u32 as i32),
            10 => p.i64_len(from_limbs(v) as i64),
            4 => {
                let mut a = [0u8; 8];
                a.copy_from_slice(&b);
                p.double_len(f64::from_bits(u64::from_be_bytes(a)))
            }
            11 => p.bytes_len(&b),
            16 => {
                let mut a = [0u8; 16];
                a.copy_from_slice(&b);
                p.uuid_len(a)
            }
            _ => panic!("leaf type {t}"),
        }
    }
    /// returns the value read, in the model's representation
    fn leaf_r<P: TInputProtocol>(p: &mut P, t: u8) -> Result<Value, String> {
        use vh::tree::{bytes_json, limbs};
        let e = |e| format!("err: {e}");
        Ok(match t {
            2 => json!([if p.read_bool().map_err(e)? { 1 } else { 0 }]),
            3 => json!([p.read_i8().map_err(e)? as u8]),
            6 => limbs(p.read_i16().map_err(e)? as u16 as u64, 1),
            8 => limbs(p.read_i32().map_err(e)? as u32 as u64, 2),
            10 => limbs(p.read_i64().map_err(e)? as u64, 4),
            4 => bytes_json(&p.read_double().map_err(e)?.to_bits().to_be_bytes()),
            11 => bytes_json(&p.read_bytes().map_err(e)?),
            16 => bytes_json(&p.read_uuid().map_err(e)?),
            _ => panic!("leaf type {t}"),
        })
    }

    fn call_w<P: TOutputProtocol>(p: &mut P, c: &Value, open: &mut Vec<u8>) -> Result<(), String> {
        let t = c["t"].as_u64().unwrap() as u8;
        let id = c["id"].as_i64().unwrap() as i16;
        let n = c["n"].as_u64().unwrap() as usize;
        let t2 = c["t2"].as_u64().unwrap() as u8;
        let r = match c["op"].as_str().unwrap() {
            "field_begin" => p.write_field_begin(ttype(t), id),
            "leaf" => return leaf_w(p, t, &c["v"]),
            "field_end" => p.write_field_end(),
            "struct_begin" => p.write_struct_begin(&SID),
            "field_stop" => p.write_field_stop(),
            "struct_end" => p.write_struct_end(),
            "list_begin" => {
                open.push(15);
                p.write_list_begin(TListIdentifier { element_type: ttype(t), size: n })
            }
            "set_begin" => {
                open.push(14);
                p.write_set_begin(TSetIdentifier { element_type: ttype(t), size: n })
            }
            "map_begin" => {
                open.push(13);
                p.write_map_begin(TMapIdentifier { key_type: ttype(t), value_type: ttype(t2), size: n })
            }
            "coll_end" => match open.pop() {
                Some(15) => p.write_list_end(),
                Some(14) => p.write_set_end(),
                _ => p.write_map_end(),
            },
            x => panic!("call {x}"),
        };
        r.map_err(|e| format!("err: {e}"))
    }
    fn call_l<P: TLengthProtocol>(p: &mut P, c: &Value, open: &mut Vec<u8>) -> usize {
        let t = c["t"].as_u64().unwrap() as u8;
        let id = c["id"].as_i64().unwrap() as i16;
        let n = c["n"].as_u64().unwrap() as usize;
        let t2 = c["t2"].as_u64().unwrap() as u8;
        match c["op"].as_str().unwrap() {
            "field_begin" => p.field_begin_len(ttype(t), Some(id)),
            "leaf" => leaf_l(p, t, &c["v"]),
            "field_end" => p.field_end_len(),
            "struct_begin" => p.struct_begin_len(&SID),
            "field_stop" => p.field_stop_len(),
            "struct_end" => p.struct_end_len(),
            "list_begin" => {
                open.push(15);
                p.list_begin_len(TListIdentifier { element_type: ttype(t), size: n })
            }
            "set_begin" => {
                open.push(14);
                p.set_begin_len(TSetIdentifier { element_type: ttype(t), size: n })
            }
            "map_begin" => {
                open.push(13);
                p.map_begin_len(TMapIdentifier { key_type: ttype(t), value_type: ttype(t2), size: n })
            }
            "coll_end" => match open.pop() {
                Some(15) => p.list_end_len(),
                Some(14) => p.set_end_len(),
                _ => p.map_end_len(),
            },
            x => panic!("call {x}"),
        }
    }
    /// performs the reader call mirroring writer call `c`; Err = disagreement or reader error
    fn call_r<P: TInputProtocol>(p: &mut P, c: &Value, open: &mut Vec<u8>) -> Result<(), String> {
        let t = c["t"].as_u64().unwrap() as u8;
        let id = c["id"].as_i64().unwrap() as i16;
        let n = c["n"].as_u64().unwrap() as usize;
        let t2 = c["t2"].as_u64().unwrap() as u8;
        let e = |e| format!("err: {e}");
        match c["op"].as_str().unwrap() {
            "field_begin" => {
                let f = p.read_field_begin().map_err(e)?;
                if f.field_type as u8 != t || f.id != Some(id) {
                    return Err(format!("read_field_begin returned ({:?},{:?}), written ({t},{id})", f.field_type, f.id));
                }
            }
            "leaf" => {
                let got = leaf_r(p, t)?;
                if got != c["v"] && !(json_bytes(&got).is_empty() && json_bytes(&c["v"]).is_empty()) {
                    return Err(format!("read value {got} != written {}", c["v"]));
                }
            }
            "field_end" => p.read_field_end().map_err(e)?,
            "struct_begin" => {
                p.read_struct_begin().map_err(e)?;
            }
            "field_stop" => {
                let f = p.read_field_begin().map_err(e)?;
                if f.field_type != TType::Stop {
                    return Err(format!("expected stop, read {:?}", f.field_type));
                }
            }
            "struct_end" => p.read_struct_end().map_err(e)?,
            "list_begin" => {
                open.push(15);
                let i = p.read_list_begin().map_err(e)?;
                if i.element_type as u8 != t || i.size != n {
                    return Err(format!("read_list_begin returned ({:?},{}), written ({t},{n})", i.element_type, i.size));
                }
            }
            "set_begin" => {
                open.push(14);
                let i = p.read_set_begin().map_err(e)?;
                if i.element_type as u8 != t || i.size != n {
                    return Err(format!("read_set_begin returned ({:?},{}), written ({t},{n})", i.element_type, i.size));
                }
            }
            "map_begin" => {
                open.push(13);
                let i = p.read_map_begin().map_err(e)?;
                if i.size != n || (n > 0 && (i.key_type as u8 != t || i.value_type as u8 != t2)) {
                    return Err(format!("read_map_begin returned ({:?},{:?},{}), written ({t},{t2},{n})", i.key_type, i.value_type, i.size));
                }
            }
            "coll_end" => match open.pop() {
                Some(15) => p.read_list_end().map_err(e)?,
                Some(14) => p.read_set_end().map_err(e)?,
                _ => p.read_map_end().map_err(e)?,
            },
            x => panic!("call {x}"),
        }
        Ok(())
    }

    fn replay_writer<P: TOutputProtocol + WProbe>(p: &mut P, w: &Value, rep: &mut Report, buf: &str) -> bool {
        let id = w["id"].as_u64().unwrap();
        let mut open = Vec::new();
        let mut pos = 0usize;
        for (si, s) in w["steps"].as_array().unwrap().iter().enumerate() {
            for c in s["calls"].as_array().unwrap() {
                if let Err(e) = call_w(p, c, &mut open) {
                    rep.bad(id, "compact", buf, "walk-write-err", json!({"step": si, "call": c, "err": e}));
                    return false;
                }
            }
            let out = p.out_from(pos);
            pos += out.len();
            let want = json_bytes(&s["bytes"]);
            let st = p.cstate();
            rep.cmp(out == want, id, "compact", buf, "walk-write-bytes", || json!({"step": si, "op": s["op"], "got": out, "want": want}));
            rep.cmp(st == s["w"], id, "compact", buf, "walk-write-state", || json!({"step": si, "op": s["op"], "got": st, "want": s["w"]}));
            if out != want || st != s["w"] {
                return false;
            }
        }
        true
    }

    pub fn run(path: &str, outp: &str) {
        let f = std::fs::File::open(path).unwrap_or_else(|e| panic!("open {path}: {e}"));
        let mut rep = Report { out: Box::new(std::io::BufWriter::new(std::fs::File::create(outp).unwrap())), evals: 0, mism: 0 };
        let mut nwalks = 0u64;
        let mut nsteps = 0u64;
        for line in BufReader::new(f).lines() {
            let w: Value = vh::parse_json(&line.unwrap());
            let id = w["id"].as_u64().unwrap();
            nwalks += 1;
            let steps = w["steps"].as_array().unwrap();
            nsteps += steps.len() as u64;
            // --- writer, rotating the buffer kind
            let r = std::panic::catch_unwind(std::panic::AssertUnwindSafe(|| match id % 3 {
                0 => {
                    let mut b = BytesMut::new();
                    let mut p = TCompactOutputProtocol::new(&mut b, false);
                    replay_writer(&mut p, &w, &mut rep, "bytesmut")
                }
                1 => {
                    let mut b = LinkedBytes::new();
                    let mut p = TCompactOutputProtocol::new(&mut b, false);
                    replay_writer(&mut p, &w, &mut rep, "linked")
                }
                _ => {
                    let mut b = LinkedBytes::new();
                    let mut p = TCompactOutputProtocol::new(&mut b, true);
                    replay_writer(&mut p, &w, &mut rep, "linkedzc")
                }
            }));
            if let Err(e) = r {
                rep.bad(id, "compact", "-", "walk-write-panic", json!(panic_msg(e)));
            }
            // --- length pass on its own object
            let r = std::panic::catch_unwind(std::panic::AssertUnwindSafe(|| {
                let mut b = BytesMut::new();
                let mut p = TCompactOutputProtocol::new(&mut b, false);
                let mut open = Vec::new();
                for (si, s) in steps.iter().enumerate() {
                    let mut n = 0usize;
                    for c in s["calls"].as_array().unwrap() {
                        n += call_l(&mut p, c, &mut open);
                    }
                    let want = json_bytes(&s["bytes"]).len();
                    let st = p.cstate();
                    rep.cmp(n == want, id, "compact", "-", "walk-len", || json!({"step": si, "op": s["op"], "reported": n, "written": want}));
                    rep.cmp(st == s["l"], id, "compact", "-", "walk-len-state", || json!({"step": si, "op": s["op"], "got": st, "want": s["l"]}));
                    if n != want || st != s["l"] {
                        break;
                    }
                }
            }));
            if let Err(e) = r {
                rep.bad(id, "compact", "-", "walk-len-panic", json!(panic_msg(e)));
            }
            // --- reader over the bytes the model says the writer produced
            let r = std::panic::catch_unwind(std::panic::AssertUnwindSafe(|| {
                let mut all: Vec<u8> = Vec::new();
                for s in steps {
                    all.extend(json_bytes(&s["bytes"]));
                }
                // a walk may stop inside a container: pad, so that a declared element count never exceeds
                // the remaining input (the readers reject such headers)
                all.extend_from_slice(&[0u8; 256]);
                let mut b = Bytes::from(all);
                let mut p = TCompactInputProtocol::new(&mut b);
                let mut open = Vec::new();
                let base = p.consumed();
                let mut pos = 0usize;
                for (si, s) in steps.iter().enumerate() {
                    for c in s["calls"].as_array().unwrap() {
                        if let Err(e) = call_r(&mut p, c, &mut open) {
                            rep.bad(id, "compact", "-", "walk-read", json!({"step": si, "call": c, "what": e}));
                            return;
                        }
                    }
                    let now = p.consumed() - base;
                    let want = json_bytes(&s["bytes"]).len();
                    let st = p.cstate();
                    rep.cmp(now - pos == want, id, "compact", "-", "walk-read-consumed", || json!({"step": si, "op": s["op"], "consumed": now - pos, "written": want}));
                    rep.cmp(st == s["r"], id, "compact", "-", "walk-read-state", || json!({"step": si, "op": s["op"], "got": st, "want": s["r"]}));
                    if now - pos != want || st != s["r"] {
                        return;
                    }
                    pos = now;
                }
            }));
            if let Err(e) = r {
                rep.bad(id, "compact", "-", "walk-read-panic", json!(panic_msg(e)));
            }
        }
        writeln!(rep.out, "{}", json!({"kind":"summary","walks":nwalks,"steps":nsteps,"evaluations":rep.evals,"mismatches":rep.mism})).unwrap();
        rep.out.flush().unwrap();
    }
}


// ------------------------------------------------------------------------------------------------
// record: drive the real protocol objects with seeded random values and log every call for
// trace validation (implementation -> specification).
fn all_utf8(t: &Tree) -> bool {
    match t {
        Tree::Binary(b) | Tree::Str(b) => std::str::from_utf8(b).is_ok(),
        Tree::Struct(fs) => fs.iter().all(|(_, x)| all_utf8(x)),
        Tree::List(_, es) | Tree::Set(_, es) => es.iter().all(all_utf8),
        Tree::Map(_, _, kvs) => kvs.iter().all(|(k, v)| all_utf8(k) && all_utf8(v)),
        _ => true,
    }
}

fn run_record(seed: u64, nvalues: usize, outp: &str) {
    let mut out = std::io::BufWriter::new(std::fs::File::create(outp).unwrap());
    let mut g = vh::gen::Gen::new(seed);
    let combos: Vec<(Proto, BufKind)> = Proto::ALL.iter().flat_map(|p| BufKind::ALL.iter().map(move |k| (*p, *k))).collect();
    let per_run = 4usize;
    let mut produced = 0usize;
    let mut run = 0u64;
    let mut events = 0u64;
    while produced < nvalues {
        let (p, k) = combos[(run as usize) % combos.len()];
        let trees: Vec<Tree> = (0..per_run).map(|_| g.tree()).collect();
        let types: Vec<u8> = trees.iter().map(|t| t.ttype()).collect();
        produced += per_run;
        run += 1;
        let e = encode_seq(p, k, &trees, true, true);
        writeln!(out, "{}", json!({"op":"reset","run":run,"dir":"w","p":p.name(),"buf":k.name(),"err":e.err.clone().unwrap_or_default()})).unwrap();
        for ev in &e.events {
            writeln!(out, "{}", ev).unwrap();
        }
        events += e.events.len() as u64;
        if e.err.is_some() {
            continue;
        }
        // what the writer reports as linked-in (not copied) payload bytes: callers subtract it when sizing buffers
        writeln!(out, "{}", json!({"op":"wend","zc":e.zero_copy_len})).unwrap();
        let utf8 = trees.iter().all(all_utf8);
        let mut input = e.bytes.clone();
        input.extend_from_slice(&[0x5a, 0x01]);
        let d = decode_seq_u(p, &input, &types, true, utf8);
        writeln!(out, "{}", json!({"op":"reset","run":run,"dir":"r","p":p.name(),"buf":k.name(),"input":input,"err":d.err.clone().unwrap_or_default()})).unwrap();
        for ev in &d.events {
            writeln!(out, "{}", ev).unwrap();
        }
        events += d.events.len() as u64;
    }
    out.flush().unwrap();
    eprintln!("recorded {run} runs, {produced} values, {events} events");
}

/// skiptrace: the iterative skipper of the unchecked reader on seeded random trees (and on the TLC vectors, if a file is
/// given): one `iter` event per loop iteration through the hook, validated against spec/IterSkip.tla by IterSkipTrace.
fn run_skiptrace(seed: u64, nvalues: usize, outp: &str, vectors: Option<&str>, start: usize) {
    // appended to and flushed around every call: if the code under test brings the process down (an abort inside unsafe
    // code is an observation, not a tool failure) the parent finds the input in the last `sreset` line and resumes behind it
    let mut out = std::io::BufWriter::new(std::fs::OpenOptions::new().create(true).append(true).open(outp).unwrap());
    let mut g = vh::gen::Gen::new(seed);
    let mut trees: Vec<Tree> = vec![];
    if let Some(vp) = vectors.filter(|v| *v != "-") {
        trees.extend(load(vp).into_iter().map(|v| v.v));
    }
    for _ in 0..nvalues {
        trees.push(g.tree());
    }
    let (mut runs, mut events) = (0u64, 0u64);
    for (ti, t) in trees.iter().enumerate() {
        if ti < start {
            continue;
        }
        let e = encode_seq(Proto::Bin, BufKind::BytesMut, std::slice::from_ref(t), false, false);
        if e.err.is_some() {
            continue;
        }
        let tt = t.ttype();
        let mut input = vec![tt, 0, 1];
        input.extend_from_slice(&e.bytes);
        input.extend_from_slice(&[12, 255, 7]);
        runs += 1;
        writeln!(out, "{}", json!({"op":"sreset","run":ti,"t":tt,"input":&input[3..],"n":e.bytes.len()})).unwrap();
        out.flush().unwrap();
        let (res, evs, fin) = skip_field_unsafe_traced(&input);
        for (ttype, index, len, stack) in &evs {
            let st: Vec<Value> = stack.iter().map(|(a, b, n)| json!([a, b, n])).collect();
            writeln!(out, "{}", json!({"op":"iter","tt":ttype,"i":index,"len":len,"stack":st})).unwrap();
        }
        events += evs.len() as u64;
        let (ret, err) = match &res {
            Ok((n, _)) => (*n as i64, String::new()),
            Err(e) => (-1, e.clone()),
        };
        writeln!(out, "{}", json!({"op":"sdone","ret":ret,"i":fin,"err":err})).unwrap();
        out.flush().unwrap();
    }
    out.flush().unwrap();
    eprintln!("skiptrace: {runs} runs, {events} iterations");
}

// ------------------------------------------------------------------------------------------------
// wire: interoperability cases evaluated by TLC from the reference codecs (spec/MCWire.tla)
mod wire {
    use super::*;
    use bytes::{Bytes, BytesMut};
    use faststr::FastStr;
    use linkedbytes::LinkedBytes;
    use pilota::thrift::{binary, binary_le, compact, ApplicationException, ApplicationExceptionKind, Message, TAsyncInputProtocol, TInputProtocol, TLengthProtocol, TMessageIdentifier, TMessageType, TOutputProtocol};
    use vh::aio::{block_on, ScriptedReader};
    use vh::tree::from_limbs;

    fn mtype(n: u64) -> TMessageType {
        TMessageType::try_from(n as u8).unwrap()
    }

    /// (bytes written, length reported) for write_message_begin on every buffer kind
    fn write_env(p: Proto, k: BufKind, id: &TMessageIdentifier) -> Result<(Vec<u8>, usize), String> {
        let r = std::panic::catch_unwind(std::panic::AssertUnwindSafe(|| -> Result<(Vec<u8>, usize), String> {
            let e = |e| format!("err: {e}");
            macro_rules! go {
                ($mk:expr, $flat:expr, $b:ident) => {{
                    let n;
                    {
                        let mut p = $mk;
                        n = p.message_begin_len(id);
                        p.write_message_begin(id).map_err(e)?;
                        p.write_message_end().map_err(e)?;
                    }
                    Ok(($flat, n))
                }};
            }
            match (p, k) {
                (Proto::Bin, BufKind::BytesMut) => {
                    let mut b = BytesMut::new();
                    go!(binary::TBinaryProtocol::new(&mut b, false), b.to_vec(), b)
                }
                (Proto::Bin, _) => {
                    let mut b = LinkedBytes::new();
                    go!(binary::TBinaryProtocol::new(&mut b, k == BufKind::LinkedZc), flatten_linked(&b), b)
                }
                (Proto::BinLe, BufKind::BytesMut) => {
                    let mut b = BytesMut::new();
                    go!(binary_le::TBinaryProtocol::new(&mut b, false), b.to_vec(), b)
                }
                (Proto::BinLe, _) => {
                    let mut b = LinkedBytes::new();
                    go!(binary_le::TBinaryProtocol::new(&mut b, k == BufKind::LinkedZc), flatten_linked(&b), b)
                }
                (Proto::Compact, BufKind::BytesMut) => {
                    let mut b = BytesMut::new();
                    go!(compact::TCompactOutputProtocol::new(&mut b, false), b.to_vec(), b)
                }
                (Proto::Compact, _) => {
                    let mut b = LinkedBytes::new();
                    go!(compact::TCompactOutputProtocol::new(&mut b, k == BufKind::LinkedZc), flatten_linked(&b), b)
                }
                (Proto::Unsafe, _) => {
                    // exact-size buffer (size from TBinaryProtocol<()>, the documented idiom) followed by guard bytes
                    let size = binary::TBinaryProtocol::new((), false).message_begin_len(id);
                    let mut b = BytesMut::with_capacity(size + 16);
                    b.resize(size + 16, 0xA5);
                    let (n, idx);
                    {
                        let sl = unsafe { std::slice::from_raw_parts_mut(b.as_mut_ptr(), size) };
                        let mut p = unsafe { pilota::thrift::binary_unsafe::TBinaryUnsafeOutputProtocol::new(&mut b, sl, false) };
                        n = p.message_begin_len(id);
                        p.write_message_begin(id).map_err(e)?;
                        p.write_message_end().map_err(e)?;
                        idx = p.index();
                    }
                    if idx > size || b[size..].iter().any(|x| *x != 0xA5) {
                        return Err(format!("guard: index {idx} size {size}"));
                    }
                    Ok((b[..idx].to_vec(), n))
                }
            }
        }));
        r.unwrap_or_else(|e| Err(panic_msg(e)))
    }

    fn read_env(p: Proto, input: &[u8]) -> Result<(TMessageIdentifier, usize), String> {
        let r = std::panic::catch_unwind(std::panic::AssertUnwindSafe(|| -> Result<(TMessageIdentifier, usize), String> {
            let mut b = Bytes::copy_from_slice(input);
            let e = |e| format!("err: {e}");
            let total = b.len();
            match p {
                Proto::Bin => {
                    let mut q = binary::TBinaryProtocol::new(&mut b, false);
                    let m = q.read_message_begin().map_err(e)?;
                    q.read_message_end().map_err(e)?;
                    drop(q);
                    Ok((m, total - b.len()))
                }
                Proto::BinLe => {
                    let mut q = binary_le::TBinaryProtocol::new(&mut b, false);
                    let m = q.read_message_begin().map_err(e)?;
                    drop(q);
                    Ok((m, total - b.len()))
                }
                Proto::Compact => {
                    let mut q = compact::TCompactInputProtocol::new(&mut b);
                    let m = q.read_message_begin().map_err(e)?;
                    drop(q);
                    Ok((m, total - b.len()))
                }
                Proto::Unsafe => {
                    let mut q = unsafe { pilota::thrift::binary_unsafe::TBinaryUnsafeInputProtocol::new(&mut b) };
                    let m = q.read_message_begin().map_err(e)?;
                    let i = q.index();
                    drop(q);
                    Ok((m, total - b.len() + i))
                }
            }
        }));
        r.unwrap_or_else(|e| Err(panic_msg(e)))
    }

    fn read_env_async(p: Proto, input: &[u8]) -> Result<(TMessageIdentifier, usize), String> {
        let r = std::panic::catch_unwind(std::panic::AssertUnwindSafe(|| -> Result<(TMessageIdentifier, usize), String> {
            let mut rd = ScriptedReader::new(input.to_vec(), vec![], 1);
            let e = |e| format!("err: {e}");
            let m = match p {
                Proto::Bin => {
                    let mut q = binary::TAsyncBinaryProtocol::new(&mut rd);
                    block_on(Box::pin(q.read_message_begin()), 1_000_000).ok_or("hang")?.map_err(e)?
                }
                Proto::BinLe => {
                    let mut q = binary_le::TAsyncBinaryProtocol::new(&mut rd);
                    block_on(Box::pin(q.read_message_begin()), 1_000_000).ok_or("hang")?.map_err(e)?
                }
                Proto::Compact => {
                    let mut q = compact::TAsyncCompactProtocol::new(&mut rd);
                    block_on(Box::pin(q.read_message_begin()), 1_000_000).ok_or("hang")?.map_err(e)?
                }
                Proto::Unsafe => return Err("n/a".into()),
            };
            Ok((m, rd.pos))
        }));
        r.unwrap_or_else(|e| Err(panic_msg(e)))
    }

    fn enc_appexc(p: Proto, x: &ApplicationException) -> Result<(Vec<u8>, usize), String> {
        let r = std::panic::catch_unwind(std::panic::AssertUnwindSafe(|| -> Result<(Vec<u8>, usize), String> {
            let e = |e| format!("err: {e}");
            let mut b = BytesMut::new();
            let n;
            match p {
                Proto::Bin => {
                    let mut q = binary::TBinaryProtocol::new(&mut b, false);
                    n = x.size(&mut q);
                    x.encode(&mut q).map_err(e)?;
                }
                Proto::BinLe => {
                    let mut q = binary_le::TBinaryProtocol::new(&mut b, false);
                    n = x.size(&mut q);
                    x.encode(&mut q).map_err(e)?;
                }
                Proto::Compact => {
                    let mut q = compact::TCompactOutputProtocol::new(&mut b, false);
                    n = x.size(&mut q);
                    x.encode(&mut q).map_err(e)?;
                }
                Proto::Unsafe => return Err("n/a".into()),
            }
            Ok((b.to_vec(), n))
        }));
        r.unwrap_or_else(|e| Err(panic_msg(e)))
    }
    fn dec_appexc(p: Proto, input: &[u8], asy: bool) -> Result<(ApplicationException, usize), String> {
        let r = std::panic::catch_unwind(std::panic::AssertUnwindSafe(|| -> Result<(ApplicationException, usize), String> {
            let e = |e| format!("err: {e}");
            if asy {
                let mut rd = ScriptedReader::new(input.to_vec(), vec![], 1);
                let x = match p {
                    Proto::Bin => {
                        let mut q = binary::TAsyncBinaryProtocol::new(&mut rd);
                        block_on(Box::pin(ApplicationException::decode_async(&mut q)), 1_000_000).ok_or("hang")?.map_err(e)?
                    }
                    Proto::BinLe => {
                        let mut q = binary_le::TAsyncBinaryProtocol::new(&mut rd);
                        block_on(Box::pin(ApplicationException::decode_async(&mut q)), 1_000_000).ok_or("hang")?.map_err(e)?
                    }
                    _ => {
                        let mut q = compact::TAsyncCompactProtocol::new(&mut rd);
                        block_on(Box::pin(ApplicationException::decode_async(&mut q)), 1_000_000).ok_or("hang")?.map_err(e)?
                    }
                };
                return Ok((x, rd.pos));
            }
            let mut b = Bytes::copy_from_slice(input);
            let total = b.len();
            let x = match p {
                Proto::Bin => ApplicationException::decode(&mut binary::TBinaryProtocol::new(&mut b, false)).map_err(e)?,
                Proto::BinLe => ApplicationException::decode(&mut binary_le::TBinaryProtocol::new(&mut b, false)).map_err(e)?,
                _ => ApplicationException::decode(&mut compact::TCompactInputProtocol::new(&mut b)).map_err(e)?,
            };
            Ok((x, total - b.len()))
        }));
        r.unwrap_or_else(|e| Err(panic_msg(e)))
    }

    pub fn run(path: &str, outp: &str) {
        let f = std::fs::File::open(path).unwrap_or_else(|e| panic!("open {path}: {e}"));
        let mut r = Report { out: Box::new(std::io::BufWriter::new(std::fs::File::create(outp).unwrap())), evals: 0, mism: 0 };
        let mut n = 0u64;
        for (li, line) in BufReader::new(f).lines().enumerate() {
            let j: Value = vh::parse_json(&line.unwrap());
            let id = li as u64 + 1;
            n += 1;
            match j["kind"].as_str().unwrap() {
                "dec" => {
                    let p = Proto::parse(j["proto"].as_str().unwrap());
                    let grp = j["grp"].as_str().unwrap();
                    let bytes = json_bytes(&j["bytes"]);
                    let t = j["t"].as_u64().unwrap() as u8;
                    let strict = j["strict"].as_u64().unwrap() == 1;
                    let refok = j["ok"].as_u64().unwrap() == 1;
                    let mut protos = vec![p];
                    if p == Proto::Bin {
                        protos.push(Proto::Unsafe);
                    }
                    for q in protos {
                        // the unchecked reader's contract covers well-formed input only
                        if q == Proto::Unsafe && !refok {
                            continue;
                        }
                        let d = decode_seq(q, &bytes, &[t], false);
                        let panicked = d.err.as_deref().map_or(false, |e| e.starts_with("panic"));
                        if panicked {
                            r.bad(id, q.name(), grp, "wire-panic", json!({"bytes": bytes, "err": d.err}));
                            continue;
                        }
                        if !strict {
                            r.ok();
                            continue;
                        }
                        if refok {
                            let want = Tree::from_json(&j["v"]);
                            let used = j["used"].as_u64().unwrap() as usize;
                            r.cmp(d.err.is_none() && d.values[0] == want && d.ends[0] == used, id, q.name(), grp, "wire-accept",
                                  || json!({"bytes": bytes, "err": d.err, "got": d.values.get(0).map(|v| v.to_json()), "want": j["v"], "used": d.ends.get(0), "want_used": used}));
                        } else {
                            r.cmp(d.err.is_some(), id, q.name(), grp, "wire-reject", || json!({"bytes": bytes, "got": d.values.get(0).map(|v| v.to_json())}));
                        }
                        // the asynchronous reader must agree
                        if q != Proto::Unsafe {
                            let a = decode_async(q, &bytes, &[t], vec![], 1, None, false);
                            let apan = a.err.as_deref().map_or(false, |e| e.starts_with("panic") || e.starts_with("hang"));
                            r.cmp(!apan && a.err.is_none() == refok, id, q.name(), grp, "wire-async", || json!({"bytes": bytes, "err": a.err, "refok": refok}));
                        }
                    }
                }
                "env" => {
                    let name = json_bytes(&j["name"]);
                    let ident = TMessageIdentifier::new(FastStr::new(std::str::from_utf8(&name).unwrap()), mtype(j["mtype"].as_u64().unwrap()), from_limbs(&j["seq"]) as u32 as i32);
                    for p in [Proto::Bin, Proto::BinLe, Proto::Compact] {
                        let want = json_bytes(&j[p.name()]);
                        for k in BufKind::ALL {
                            match write_env(p, k, &ident) {
                                Ok((b, len)) => {
                                    r.cmp(b == want, id, p.name(), k.name(), "env-bytes", || json!({"got": b, "want": want}));
                                    r.cmp(len == want.len(), id, p.name(), k.name(), "env-len", || json!({"reported": len, "written": want.len()}));
                                }
                                Err(e) => r.bad(id, p.name(), k.name(), "env-write-err", json!(e)),
                            }
                        }
                        if p == Proto::Bin {
                            match write_env(Proto::Unsafe, BufKind::BytesMut, &ident) {
                                Ok((b, len)) => {
                                    r.cmp(b == want, id, "unsafe", "bytesmut", "env-bytes", || json!({"got": b, "want": want}));
                                    r.cmp(len == want.len(), id, "unsafe", "bytesmut", "env-len", || json!({"reported": len, "written": want.len()}));
                                }
                                Err(e) => r.bad(id, "unsafe", "bytesmut", "env-write-err", json!(e)),
                            }
                        }
                        let mut input = want.clone();
                        input.extend_from_slice(&[9, 9, 9]);
                        let mut readers = vec![(p, false), (p, true)];
                        if p == Proto::Bin {
                            readers.push((Proto::Unsafe, false));
                        }
                        for (q, asy) in readers {
                            let res = if asy { read_env_async(q, &input) } else { read_env(q, &input) };
                            let tag = if asy { "async" } else { "sync" };
                            match res {
                                Ok((m, used)) => r.cmp(m == ident && used == want.len(), id, q.name(), tag, "env-read", || json!({"got": format!("{m:?}"), "want": format!("{ident:?}"), "used": used, "len": want.len()})),
                                Err(e) => r.bad(id, q.name(), tag, "env-read-err", json!(e)),
                            }
                        }
                    }
                }
                "badenv" => {
                    let p = Proto::parse(j["proto"].as_str().unwrap());
                    let bytes = json_bytes(&j["bytes"]);
                    for asy in [false, true] {
                        let res = if asy { read_env_async(p, &bytes) } else { read_env(p, &bytes) };
                        match res {
                            Ok((m, _)) => r.bad(id, p.name(), j["why"].as_str().unwrap(), "env-reject", json!({"bytes": bytes, "accepted_as": format!("{m:?}"), "async": asy})),
                            Err(e) => r.cmp(!e.starts_with("panic") && !e.starts_with("hang"), id, p.name(), j["why"].as_str().unwrap(), "env-reject-panic", || json!({"bytes": bytes, "err": e})),
                        }
                    }
                }
                "appexc" => {
                    let msg = String::from_utf8(json_bytes(&j["msg"])).unwrap();
                    let code = from_limbs(&j["code"]) as u32 as i32;
                    let order = j["order"].as_str().unwrap();
                    let x = ApplicationException::new(ApplicationExceptionKind::from(code), msg.clone());
                    for p in [Proto::Bin, Proto::BinLe, Proto::Compact] {
                        let want = json_bytes(&j[p.name()]);
                        if order == "12" {
                            match enc_appexc(p, &x) {
                                Ok((b, len)) => {
                                    r.cmp(b == want, id, p.name(), order, "appexc-bytes", || json!({"got": b, "want": want}));
                                    r.cmp(len == want.len(), id, p.name(), order, "appexc-size", || json!({"reported": len, "written": want.len()}));
                                }
                                Err(e) => r.bad(id, p.name(), order, "appexc-enc-err", json!(e)),
                            }
                        }
                        let mut input = want.clone();
                        input.extend_from_slice(&[9, 9]);
                        for asy in [false, true] {
                            match dec_appexc(p, &input, asy) {
                                Ok((y, used)) => r.cmp(y.message().as_str() == msg.as_str() && y.kind().as_i32() == code && used == want.len(), id, p.name(), order, "appexc-dec",
                                                       || json!({"async": asy, "got_msg": y.message().as_str(), "got_kind": y.kind().as_i32(), "used": used, "len": want.len()})),
                                Err(e) => r.bad(id, p.name(), order, "appexc-dec-err", json!({"async": asy, "err": e})),
                            }
                        }
                    }
                }
                k => panic!("wire kind {k}"),
            }
        }
        writeln!(r.out, "{}", json!({"kind":"summary","cases":n,"evaluations":r.evals,"mismatches":r.mism})).unwrap();
        r.out.flush().unwrap();
    }
}

// ------------------------------------------------------------------------------------------------
// async: every delivery schedule must give the in-memory outcome (C12)
mod asyncmode {
    use super::*;
    use rand::{rngs::StdRng, Rng, SeedableRng};
    use vh::aio::Sched;

    fn log_run(tr: &mut dyn Write, reads: &Value, eof: usize, a: &AsyncOut) {
        writeln!(tr, "{}", json!({"op":"areset","reads":reads,"eof":eof})).unwrap();
        for (cap, got) in &a.poll_log {
            writeln!(tr, "{}", json!({"op":"poll","cap":cap,"got": match got { None => -1i64, Some(n) => *n as i64 }})).unwrap();
        }
        writeln!(tr, "{}", json!({"op":"done","res": if a.err.is_none() {"ok"} else {"err"},"taken":a.taken})).unwrap();
    }

    pub fn run(path: &str, outp: &str, tracep: &str, seed: u64, thorough: bool) {
        let f = std::fs::File::open(path).unwrap_or_else(|e| panic!("open {path}: {e}"));
        let mut r = Report { out: Box::new(std::io::BufWriter::new(std::fs::File::create(outp).unwrap())), evals: 0, mism: 0 };
        let mut tr = std::io::BufWriter::new(std::fs::File::create(tracep).unwrap());
        let mut rng = StdRng::seed_from_u64(seed);
        let (mut ncases, mut nsched, mut nexh, mut neof, mut nruns_logged) = (0u64, 0u64, 0u64, 0u64, 0u64);
        let exh_limit = if thorough { 13 } else { 10 };
        let nrandom = if thorough { 40 } else { 4 };
        for line in BufReader::new(f).lines() {
            let j: Value = vh::parse_json(&line.unwrap());
            let id = j["id"].as_u64().unwrap();
            let t = j["t"].as_u64().unwrap() as u8;
            let v = Tree::from_json(&j["v"]);
            ncases += 1;
            for p in [Proto::Bin, Proto::BinLe, Proto::Compact] {
                let pn = p.name();
                let (enc, reads) = match p {
                    Proto::Bin => (json_bytes(&j["bin"]), &j["rbin"]),
                    Proto::BinLe => (json_bytes(&j["binle"]), &j["rbin"]),
                    _ => (json_bytes(&j["cs"]), &j["rc"]),
                };
                let want = v.erase(p == Proto::Compact);
                let mut input = enc.clone();
                input.extend_from_slice(&TRAILER);
                let sync = decode_seq(p, &input, &[t], false);
                if sync.err.is_some() || sync.values[0] != want {
                    r.bad(id, pn, "-", "async-sync-baseline", json!({"err": sync.err}));
                    continue;
                }
                // --- named and random schedules
                let mut scheds: Vec<(String, Vec<Sched>, usize, Option<Vec<usize>>)> = vec![
                    ("whole".into(), vec![], 1 << 20, None),
                    ("bytewise".into(), vec![], 1, None),
                    ("bytewise+pending".into(), (0..input.len() * 2 + 2).map(|i| if i % 2 == 0 { Sched::Pending } else { Sched::Deliver(1) }).collect(), 1, None),
                ];
                for k in 0..nrandom {
                    let s: Vec<Sched> = (0..input.len() * 2 + 4)
                        .map(|_| if rng.gen_ratio(1, 4) { Sched::Pending } else { Sched::Deliver(rng.gen_range(1..9)) })
                        .collect();
                    scheds.push((format!("random{k}"), s, 3, None));
                }
                // --- every way of cutting a short message into chunks
                if enc.len() <= exh_limit && enc.len() >= 2 {
                    let n = enc.len();
                    for mask in 0u32..(1u32 << (n - 1)) {
                        let mut b: Vec<usize> = (1..n).filter(|i| mask & (1 << (i - 1)) != 0).collect();
                        b.push(n);
                        b.push(input.len());
                        scheds.push((format!("cut{mask:x}"), vec![], 1 << 20, Some(b)));
                        nexh += 1;
                    }
                }
                for (si, (name, sched, chunk, bounds)) in scheds.into_iter().enumerate() {
                    nsched += 1;
                    let a = decode_async_b(p, &input, &[t], sched, chunk, None, false, bounds);
                    if let Some(err) = &a.err {
                        r.bad(id, pn, &name, "async-err", json!(err));
                    } else {
                        r.cmp(a.values[0] == sync.values[0], id, pn, &name, "async-value", || json!({"got": a.values[0].to_json(), "sync": sync.values[0].to_json()}));
                        r.cmp(a.taken == enc.len(), id, pn, &name, "async-overread", || json!({"taken": a.taken, "message": enc.len(), "max_cap": a.max_cap}));
                    }
                    if si == 2 || si == 3 || (si > 6 && si % 97 == 0) {
                        log_run(&mut tr, reads, input.len(), &a);
                        nruns_logged += 1;
                    }
                }
                // --- the stream ends early: an error, like decoding the same prefix from memory
                let n = enc.len();
                let ks: Vec<usize> = if n <= 24 || thorough { (0..n).collect() } else { (0..12).map(|_| rng.gen_range(0..n)).collect() };
                for (ki, k) in ks.into_iter().enumerate() {
                    neof += 1;
                    let sp = decode_seq(p, &enc[..k], &[t], false);
                    let a = decode_async(p, &input, &[t], vec![], 2, Some(k), false);
                    let bad = a.err.as_deref().map_or(true, |e| e.starts_with("panic") || e.starts_with("hang"));
                    r.cmp(sp.err.is_some() && !bad, id, pn, "eof", "async-eof", || json!({"eof_at": k, "len": n, "async": a.err, "sync_prefix": sp.err}));
                    if ki % 7 == 0 {
                        log_run(&mut tr, reads, k, &a);
                        nruns_logged += 1;
                    }
                }
            }
        }
        writeln!(r.out, "{}", json!({"kind":"summary","cases":ncases,"schedules":nsched,"exhaustive_cuts":nexh,"eof_runs":neof,"runs_logged":nruns_logged,"evaluations":r.evals,"mismatches":r.mism})).unwrap();
        r.out.flush().unwrap();
        tr.flush().unwrap();
    }
}

fn main() {
    if std::env::var("VERIF_LOUD").is_err() { vh::quiet_panics(); }
    let a: Vec<String> = std::env::args().collect();
    match a.get(1).map(|s| s.as_str()) {
        Some("vectors") => run_vectors(&a[2], &a[3], a.get(4).map_or(0, |x| x.parse().unwrap())),
        Some("walks") => walks::run(&a[2], &a[3]),
        Some("wire") => wire::run(&a[2], &a[3]),
        Some("async") => asyncmode::run(&a[2], &a[3], &a[4], a[5].parse().unwrap(), a.get(6).map_or(false, |x| x == "thorough")),
        Some("idl") => vh::idl::run(&a[2], &a[3]),
        Some("idl-faults") => vh::idl::run_faults(&a[2], &a[3], a.get(4).map_or(0, |x| x.parse().unwrap())),
        Some("skiptrace") => run_skiptrace(a[2].parse().unwrap(), a[3].parse().unwrap(), &a[4], a.get(5).map(|s| s.as_str()), a.get(6).map_or(0, |x| x.parse().unwrap())),
        Some("record") => run_record(a[2].parse().unwrap(), a[3].parse().unwrap(), &a[4]),
        _ => {
            eprintln!("usage: drive vectors <in.ndjson> <out.ndjson>");
            std::process::exit(2)
        }
    }
}
