//! genhost: (1) runs pilota-build on IDL files with the requested options -- as a process of its
//! own, so that a panic or exit() inside the builder is an observation of the caller;
//! (2) extracts the registry of generated types (`impl ::pilota::thrift::Message for X`,
//! `impl ::pilota::prost::Message for X`) from an emitted file with `syn`.
use std::path::PathBuf;

use serde_json::json;
use syn::visit::Visit;

fn build(args: &[String]) {
    let mut kind = "thrift".to_string();
    let mut idls: Vec<PathBuf> = vec![];
    let mut includes: Vec<PathBuf> = vec![];
    let mut out = PathBuf::new();
    let (mut split, mut keep, mut change_case, mut ignore_unused, mut workspace) = (false, false, true, false, false);
    let mut i = 0;
    while i < args.len() {
        match args[i].as_str() {
            "--kind" => {
                kind = args[i + 1].clone();
                i += 1
            }
            "--idl" => {
                idls.push(PathBuf::from(&args[i + 1]));
                i += 1
            }
            "--include" => {
                includes.push(PathBuf::from(&args[i + 1]));
                i += 1
            }
            "--out" => {
                out = PathBuf::from(&args[i + 1]);
                i += 1
            }
            "--split" => split = true,
            "--keep" => keep = true,
            "--no-change-case" => change_case = false,
            "--ignore-unused" => ignore_unused = true,
            "--workspace" => workspace = true,
            x => panic!("genhost build: unknown arg {x}"),
        }
        i += 1;
    }
    let services: Vec<pilota_build::IdlService> = idls.iter().map(|p| pilota_build::IdlService::from_path(p.clone())).collect();
    let output = if workspace { pilota_build::Output::Workspace(out) } else { pilota_build::Output::File(out) };
    if kind == "thrift" {
        let mut b = pilota_build::Builder::thrift().ignore_unused(ignore_unused).split_generated_files(split).change_case(change_case);
        if !includes.is_empty() {
            b = b.include_dirs(includes);
        }
        if keep {
            b = b.keep_unknown_fields(idls.clone());
        }
        b.compile_with_config(services, output);
    } else {
        let mut b = pilota_build::Builder::protobuf().ignore_unused(ignore_unused).split_generated_files(split).change_case(change_case);
        if !includes.is_empty() {
            b = b.include_dirs(includes);
        }
        b.compile_with_config(services, output);
    }
}

struct Reg {
    path: Vec<String>,
    impls: Vec<serde_json::Value>,
    structs: Vec<(String, bool)>,
    defaults: Vec<String>,
    enums: Vec<String>,
}

fn type_path_string(t: &syn::Type) -> Option<String> {
    if let syn::Type::Path(p) = t {
        Some(p.path.segments.iter().map(|s| s.ident.to_string()).collect::<Vec<_>>().join("::"))
    } else {
        None
    }
}

impl<'ast> Visit<'ast> for Reg {
    fn visit_item_mod(&mut self, m: &'ast syn::ItemMod) {
        self.path.push(m.ident.to_string());
        syn::visit::visit_item_mod(self, m);
        self.path.pop();
    }
    fn visit_item_struct(&mut self, s: &'ast syn::ItemStruct) {
        let full = format!("{}::{}", self.path.join("::"), s.ident);
        let mut has_default = false;
        for a in &s.attrs {
            if a.path().is_ident("derive") {
                let _ = a.parse_nested_meta(|m| {
                    if m.path.is_ident("Default") {
                        has_default = true;
                    }
                    Ok(())
                });
            }
        }
        self.structs.push((full, has_default));
    }
    fn visit_item_enum(&mut self, e: &'ast syn::ItemEnum) {
        self.enums.push(format!("{}::{}", self.path.join("::"), e.ident));
    }
    fn visit_item_impl(&mut self, im: &'ast syn::ItemImpl) {
        if let Some((_, tr, _)) = &im.trait_ {
            let trs = tr.segments.iter().map(|s| s.ident.to_string()).collect::<Vec<_>>().join("::");
            if let Some(ty) = type_path_string(&im.self_ty) {
                let full = format!("{}::{}", self.path.join("::"), ty);
                if trs == "pilota::thrift::Message" {
                    self.impls.push(json!({"path": full, "trait": "thrift"}));
                } else if trs == "pilota::prost::Message" {
                    self.impls.push(json!({"path": full, "trait": "prost"}));
                } else if trs.ends_with("default::Default") || trs == "Default" {
                    self.defaults.push(full);
                }
            }
        }
    }
}

fn registry(file: &str) {
    let src = std::fs::read_to_string(file).unwrap_or_else(|e| panic!("read {file}: {e}"));
    let ast = syn::parse_file(&src).unwrap_or_else(|e| panic!("emitted file does not parse as Rust: {e}"));
    let mut r = Reg { path: vec![], impls: vec![], structs: vec![], defaults: vec![], enums: vec![] };
    r.visit_file(&ast);
    let mut out = vec![];
    for mut i in r.impls {
        let p = i["path"].as_str().unwrap().to_string();
        let is_struct = r.structs.iter().any(|(s, _)| *s == p);
        let has_default = r.structs.iter().any(|(s, d)| *s == p && *d) || r.defaults.contains(&p);
        i["is_struct"] = json!(is_struct);
        i["is_enum"] = json!(r.enums.contains(&p));
        i["has_default"] = json!(has_default);
        out.push(i);
    }
    println!("{}", serde_json::to_string(&out).unwrap());
}

fn main() {
    let a: Vec<String> = std::env::args().collect();
    match a.get(1).map(|s| s.as_str()) {
        Some("build") => build(&a[2..]),
        Some("registry") => registry(&a[2]),
        _ => {
            eprintln!("usage: genhost build|registry ...");
            std::process::exit(2)
        }
    }
}
